"""additional machinery self-tests: reading-frame model vs an independently written incremental codon reader,
transcript model helpers, evidence schema of a committed evidence file (when jsonschema is importable)."""
import itertools


def _alt_codons(exons, frames):
    """incremental reader: carries the partial codon explicitly"""
    out, cur = [], []
    for pos, f in zip(exons, frames):
        pos = list(pos)
        if f != len(cur):
            cur = []          # drop the incomplete codon
            pos = pos[f:]     # skip the annotated offset
        for p in pos:
            cur.append(p)
            if len(cur) == 3:
                out.append(tuple(cur))
                cur = []
    return out


def test_frame_model():
    from vlib import worlds
    from vlib.model import frame as F

    n = 0
    for bl in worlds.layouts(7, 3, "disjoint"):
        for strand in "+-":
            ex = F.exons_5to3(bl, strand)
            for fv in itertools.product((0, 1, 2), repeat=len(bl)):
                assert F.codons(ex, list(fv)) == _alt_codons(ex, list(fv)), (bl, strand, fv)
                n += 1
            # one uninterrupted frame: consistent frames never resynchronise
            for f0 in (0, 1, 2):
                if len(ex[0]) < f0:
                    continue
                fr = F.consistent_frames([len(e) for e in ex], f0)
                allp = [p for e in ex for p in e]
                assert F.kept_positions(ex, fr) == allp[f0:], (bl, strand, f0)
    assert n > 5000


def test_tx_model():
    from vlib.model import frame as F

    ex = ((0, 3), (5, 8))
    assert F.tx_positions(ex, "+") == [0, 1, 2, 5, 6, 7]
    assert F.tx_positions(ex, "-") == [7, 6, 5, 2, 1, 0]
    assert F.cds_blocks_for(ex, "+", 2, 5) == ((2, 3), (5, 7))
    assert F.cds_blocks_for(ex, "-", 0, 2) == ((6, 8),)
    assert F.translate(["ATG", "TAA", "GGG"], 0, True, True) == "M*"
    assert F.translate(["TTG", "GGN"], 11, False, False) == "MG"
    assert F.splice("ACGT", [3, 2], "-") == "AC"


def test_kent_bins():
    from checks import c16

    assert c16.kent(0, 131072) == 4681 and c16.kent(0, 131073) == 585 and c16.kent(131072, 131073) == 4682
    assert c16.kent(0, 2**29) == 1 and c16.kent(-1, 5) == 1
    for b in (1, 9, 73, 585, 4681, 4682, 8776):
        lo, hi = c16.bin_span(b)
        assert c16.kent(lo, hi) == b


TESTS = [test_frame_model, test_tx_model, test_kent_bins]


def test_gff_reader():
    from checks import c11_gff

    c11_gff.selftest()


def test_tbl_reader():
    from checks import c17_reader

    recs = c17_reader.parse_tbl(">Feature chrV\n<1\t9\tgene\n\t\t\tlocus_tag\tLT_1\n9\t>1\tCDS\n")
    assert recs


TESTS += [test_gff_reader, test_tbl_reader]


def test_known_findings_consistency():
    """every recorded finding names a matcher that exists in its check module; no check carries an unregistered matcher;
    fixed entries have the documented shape"""
    import importlib
    import json
    import os
    import re

    root = os.path.dirname(os.path.dirname(os.path.abspath(__file__)))
    d = json.load(open(os.path.join(root, "known_findings.json")))
    used = {}
    for f in d["findings"]:
        mod = importlib.import_module("checks." + f["property"].lower())
        assert f["matcher"] in getattr(mod, "MATCHERS", {}), (f["id"], f["matcher"])
        for k in ("id", "property", "what", "minimal_input", "call_site"):
            assert f.get(k), (f.get("id"), k)
        used.setdefault(f["property"], set()).add(f["matcher"])
    for i in range(1, 21):
        prop = f"C{i:02d}"
        mod = importlib.import_module("checks." + prop.lower())
        extra = set(getattr(mod, "MATCHERS", {})) - used.get(prop, set())
        assert not extra, (prop, "matchers without a registered finding", extra)
    for line in d["fixed"]:
        assert re.match(r"^fixed: property=C\d\d [0-9a-f]{7} \S", line), line


TESTS += [test_known_findings_consistency]
