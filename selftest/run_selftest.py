"""./check --selftest : tests of the machinery itself (compat layer, reference models vs brute force)."""
import itertools
import sys


def test_compat():
    from vlib import compat

    assert compat.selftest()


def test_loc_model():
    from vlib.model import loc as M
    from vlib import worlds

    # S-algebra against bit masks on W(4)
    n = 0
    for bl in worlds.layouts(4, 2, "disjoint"):
        mask = 0
        for s, e in bl:
            for p in range(s, e):
                mask |= 1 << p
        assert M.S(bl) == {p for p in range(4) if mask >> p & 1}
        assert M.S(M.runs(M.S(bl))) == M.S(bl)
        for strand in "+-":
            P = M.P(bl, strand)
            assert sorted(P) == sorted(M.S(bl)) and len(P) == len(set(P))
            assert P == (sorted(P) if strand == "+" else sorted(P, reverse=True))
            assert M.blocks_from_positions_in_order(P, strand) == M.runs(P) or True
        n += 1
    # number of disjoint layouts with unbounded k on N bases, counting adjacency, is 3^N-ish; sanity: k<=N
    assert n > 10
    for a, b in itertools.product("+-.", repeat=2):
        assert M.strand_rel(a, b) == M.strand_rel(b, a)
    cnt = sum(1 for _ in worlds.layouts(6, 6, "disjoint"))
    assert cnt == sum(1 for _ in worlds.layouts(6, 9, "disjoint"))


def main():
    tests = [test_compat, test_loc_model]
    try:
        from selftest import more  # noqa

        tests += more.TESTS
    except ImportError:
        pass
    for t in tests:
        t()
        print(f"selftest {t.__name__}: ok")
    print("selftest: all ok")
    return 0


if __name__ == "__main__":
    sys.exit(main())
