"""World and reference expectations of C12 / C18-genbank.  Pure Python: imports nothing from the library.

A *record spec* (JSON-able) describes one AnnotationCollection on a designed genome:

    {"genome": "A", "genes": [gene, ...], "fcs": [fc, ...]}
    gene = {"exons": [[s,e],...], "strand": "+"|"-", "kind": "coding"|"ncRNA"|"tRNA"|"rRNA"|"misc_RNA",
            "cds": [c0,c1] (transcript coordinates, coding only), "f0": 0..2 (start frame, coding only), "ids": 0|1}
    fc   = {"blocks": [[s,e],...], "strand": "+"|"-"}

Identifiers are a deterministic function of the position of the gene in the spec (see ``ids_of``).
"""
import itertools

from vlib import worlds
from vlib.model import frame as F

GENOMES = {
    # start/stop rich, aperiodic, ACGT only
    "A": "ATGGCCTTGAAACGTTAGCTGACCATGTTTGGGTAACCAG",
    # same with two ambiguity letters (translation of a CDS that covers them must be refused -> no /translation)
    "N": "ATGGCCTTGAANCGTTAGCTGACCATGTTNGGGTAACCAG",
}
GLEN = 40
NONCODING = ("ncRNA", "tRNA", "rRNA", "misc_RNA")
FLAVOURS = ("PROKARYOTIC", "EUKARYOTIC")
MODES = ("SORTED", "LOCUS_TAG", "HYBRID")
TABLE = {"PROKARYOTIC": 11, "EUKARYOTIC": 0}
# locus tags are deliberately NOT in positional order (the locus-tag parser sorts by tag)
LOCUS = ("LTb", "LTa", "LTc", "LTd")
GENE_TYPES = ("gene", "mRNA", "CDS", "ncRNA", "tRNA", "rRNA", "misc_RNA", "tmRNA", "exon")


# ---------------------------------------------------------------------------------------------------------
# identifiers
def ids_of(gene, i):
    """source identifiers of gene number i of a record.  Identifier menu ``ids``:
    0 all identifiers; 1 own locus tag + gene id, no symbols, no protein id;
    2 NO locus tag, symbol + gene id; 3 NO locus tag, symbol only; 4 NO locus tag, gene id only; 5 none of the three.
    ``locus_tag`` is the source value; ``tag_written`` is what the file must carry on the gene row AND on every child
    row: the source tag, else the documented fallback (symbol, else gene id), else nothing."""
    m = gene.get("ids", 0)
    coding = gene["kind"] == "coding"
    has_sym = m in (0, 2, 3)
    has_gid = m in (0, 1, 2, 4)
    has_tag = m in (0, 1)
    rich = m in (0, 2, 3)
    d = dict(
        gene_id=f"GID{i}" if has_gid else None,
        gene_symbol=f"sym{i}" if has_sym else None,
        locus_tag=gene.get("lt", LOCUS[i]) if has_tag else None,  # "lt": explicit tag (C18: tags that differ only in case)
        transcript_id=f"TX{i}",
        transcript_symbol=f"sym{i}" if has_sym else None,
        protein_id=f"PROT{i}" if (rich and coding) else None,
    )
    d["symbol_written"] = d["gene_symbol"] or d["gene_id"]  # documented: "do our best to ensure there is a /gene tag"
    d["tag_written"] = d["locus_tag"] or d["symbol_written"]
    return d


def fc_ids_of(i):
    return dict(
        feature_collection_name=f"fcname{i}",
        feature_collection_id=f"fcid{i}",
        locus_tag=f"LTfc{i}",
        feature_name=f"featname{i}",
        feature_id=f"featid{i}",
    )


# ---------------------------------------------------------------------------------------------------------
# resolution of a gene spec into blocks / frames / protein (reference model)
def resolve(gene, genome):
    exons = tuple(sorted(tuple(b) for b in gene["exons"]))
    strand = gene["strand"]
    out = dict(exons=exons, strand=strand, kind=gene["kind"], span=(exons[0][0], exons[-1][1]), cds=None, frames=None,
               codons=None, f0=None)
    if gene["kind"] == "coding":
        c0, c1 = gene["cds"]
        cds = F.cds_blocks_for(exons, strand, c0, c1)
        frames = F.consistent_frames_plus_order(cds, strand, gene["f0"])
        cod = F.codons(F.exons_5to3(cds, strand), F.frames_5to3(frames, strand))
        out.update(cds=tuple(cds), frames=tuple(frames), codons=[F.splice(genome, c, strand) for c in cod], f0=gene["f0"])
    return out


def transcripts_of(gene):
    """the gene's transcripts as single-transcript gene specs: the gene itself, then one per entry of the optional
    ``iso`` list ({"exons", "cds", "f0"}: further isoforms on the gene's strand, of the gene's kind)"""
    base = {k: v for k, v in gene.items() if k != "iso"}
    return [base] + [dict(base, **t) for t in gene.get("iso", [])]


def tx_ids(ids, k):
    """identifiers of isoform number k of a gene (k = 0: the identifiers of ids_of)"""
    if k == 0:
        return ids
    d = dict(ids)
    d["transcript_id"] = f"{ids['transcript_id']}_{k}"
    d["transcript_symbol"] = f"{ids['transcript_symbol']}_{k}" if ids["transcript_symbol"] else None
    d["protein_id"] = f"{ids['protein_id']}_{k}" if ids["protein_id"] else None
    return d


def expected_protein(r, flavour):
    """independent translation of the CDS for the flavour's table; None = refused (ambiguous codon)"""
    try:
        return F.translate(r["codons"], table=TABLE[flavour], truncate=False, strict=True)
    except ValueError:
        return None


def n_codons(gene):
    """number of complete codons the reading-frame model sees (needs no genome)"""
    r = resolve(gene, "A" * GLEN)
    return len(r["codons"])


def parts(blocks, strand):
    s = 1 if strand == "+" else -1
    return sorted([b[0], b[1], s] for b in blocks)


def expected_rows(rec, flavour, upd):
    """The feature rows an independent reader must find: list of
    {"type", "parts", "q": {key: value that must be carried}, "translation": str | None (must be absent)}."""
    genome = GENOMES[rec["genome"]]
    rows = []
    for i, g in enumerate(rec["genes"]):
        gids = ids_of(g, i)
        sym, tag = gids["symbol_written"], gids["tag_written"]
        rs = [resolve(t, genome) for t in transcripts_of(g)]
        gq = {"gene": sym, "gene_id": gids["gene_id"]}
        gq = {k: v for k, v in gq.items() if v is not None}
        span = (min(r["span"][0] for r in rs), max(r["span"][1] for r in rs))
        rows.append(dict(type="gene", parts=parts([span], rs[0]["strand"]), q=gq, lt=tag, translation=None, gene=i))
        for k, r in enumerate(rs):
            ids = tx_ids(gids, k)
            tq = {"transcript_id": ids["transcript_id"]}
            if sym is not None:
                tq["gene"] = sym
            if ids["transcript_symbol"]:
                tq["transcript_name"] = ids["transcript_symbol"]
            if r["kind"] == "coding":
                if flavour == "EUKARYOTIC":
                    rows.append(dict(type="mRNA", parts=parts(r["exons"], r["strand"]), q=dict(tq), lt=tag, translation=None, gene=i))
                cq = dict(tq)
                if ids["protein_id"]:
                    cq["protein_id"] = ids["protein_id"]
                rows.append(dict(type="CDS", parts=parts(r["cds"], r["strand"]), q=cq, lt=tag,
                                 translation=expected_protein(r, flavour) if upd else None, gene=i, f0=r["f0"]))
            else:
                rows.append(dict(type=r["kind"], parts=parts(r["exons"], r["strand"]), q=dict(tq), lt=tag, translation=None, gene=i))
    for j, fc in enumerate(rec.get("fcs", [])):
        ids = fc_ids_of(j)
        bl = sorted(tuple(b) for b in fc["blocks"])
        rows.append(dict(type="misc_feature", parts=parts([(bl[0][0], bl[-1][1])], fc["strand"]),
                         q={"feature_collection_name": ids["feature_collection_name"],
                            "feature_collection_id": ids["feature_collection_id"]}, lt=ids["locus_tag"], translation=None, fc=j))
        rows.append(dict(type="feat_interval", parts=parts(bl, fc["strand"]),
                         q={"feature_name": ids["feature_name"], "feature_id": ids["feature_id"]}, lt=ids["locus_tag"],
                         translation=None, fc=j))
    return rows


def expected_models(rec, flavour):
    """gene models BioCantor must recover: transcript structure (eukaryotic) / CDS structure (prokaryotic), strand,
    frames of one uninterrupted reading frame beginning with the source start frame, identifiers."""
    genome = GENOMES[rec["genome"]]
    out = []
    for i, g in enumerate(rec["genes"]):
        gids = ids_of(g, i)
        txs = []
        for k, t in enumerate(transcripts_of(g)):
            r = resolve(t, genome)
            ids = tx_ids(gids, k)
            coding = r["kind"] == "coding"
            exons = r["exons"] if (flavour == "EUKARYOTIC" or not coding) else r["cds"]
            txs.append(dict(
                strand=r["strand"],
                exons=[list(b) for b in exons],
                cds=[list(b) for b in r["cds"]] if coding else None,
                frames=list(r["frames"]) if coding else None,
                f0=r["f0"],
                transcript_id=ids["transcript_id"], protein_id=ids["protein_id"],
                transcript_symbol=ids["transcript_symbol"],
                biotype="protein_coding" if coding else r["kind"],
                span_start=min(b[0] for b in r["exons"]),
            ))
        e = dict(txs[0])  # (single-transcript genes: the gene entry carries its transcript's fields, as before)
        e.update(
            locus_tag=gids["tag_written"],  # the source tag or its documented fallback (symbol, else gene id)
            gene_id=gids["gene_id"],
            gene_symbol=gids["gene_symbol"],  # None = the writer may substitute the gene id
            key=gids["tag_written"] or "tx:" + "|".join(sorted(t["transcript_id"] for t in txs)),
            gene_start=min(t["span_start"] for t in txs),  # start of the gene row the writer emits (the span of its transcripts)
            transcripts=txs,
        )
        out.append(e)
    return out


def frames_for(cds_blocks, strand, f0):
    return F.consistent_frames_plus_order(tuple(tuple(b) for b in cds_blocks), strand, f0)


def _tag(r):
    return (r["q"].get("locus_tag") or [None])[0]


def rows_position_sorted(rows):
    """gene-type rows, in file order, have non-decreasing starts, and rows that share a start lie in one gene block
    (a block = a `gene` row and the rows up to the next `gene` row), so that position alone fixes the order."""
    seq = []
    block = -1
    for r in rows:
        if r["type"] in GENE_TYPES:
            if r["type"] == "gene":
                block += 1
            seq.append((min(p[0] for p in r["parts"]), block))
    for a, b in zip(seq, seq[1:]):
        if b[0] < a[0] or (b[0] == a[0] and a[1] != b[1]):
            return False
    return True


def rows_start_sorted(rows):
    """the plain reading of "position-sorted": gene-type rows, in file order, have non-decreasing starts (two genes that
    START AT THE SAME POSITION, each followed by its own children, are still in position order)"""
    starts = [min(p[0] for p in r["parts"]) for r in rows if r["type"] in GENE_TYPES]
    return all(a <= b for a, b in zip(starts, starts[1:]))


def gene_tags_unique(rows):
    """every `gene` row carries a locus tag and no tag is used by two `gene` rows"""
    tags = [_tag(r) for r in rows if r["type"] == "gene"]
    return None not in tags and len(tags) == len(set(tags))


def position_sorted(rows):
    """premise of the mode-agreement clause: position-sorted with unique locus tags"""
    return rows_position_sorted(rows) and gene_tags_unique(rows)


# ---------------------------------------------------------------------------------------------------------
# enumerators
SINGLE = {"quick": dict(N=6, k=3), "thorough": dict(N=8, k=3)}


def placements(L, tier):
    if tier == "quick":
        pl = {(0, L), (1, L - 1), (2, L), (0, L - 1)}
        return sorted(p for p in pl if p[1] - p[0] >= 3)
    return [(c0, c1) for c0 in range(L) for c1 in range(c0 + 3, L + 1)]


def single_layouts(tier):
    w = SINGLE[tier]
    return list(worlds.layouts(w["N"], w["k"], "disjoint"))


def single_gene_records(tier, idx, layout):
    """all single-gene records on one exon layout (layout index idx fixes the offset on the genome)"""
    N = SINGLE[tier]["N"]
    off = 1 + (7 * idx) % (GLEN - N - 1)
    exons = [[s + off, e + off] for s, e in layout]
    L = sum(e - s for s, e in layout)
    for strand in "+-":
        for kind in NONCODING:
            yield {"genome": "A", "genes": [dict(exons=exons, strand=strand, kind=kind, ids=0)], "fcs": []}
        for c0, c1 in placements(L, tier):
            for f0 in (0, 1, 2):
                g = dict(exons=exons, strand=strand, kind="coding", cds=[c0, c1], f0=f0, ids=0)
                if n_codons(g) < 1:
                    continue  # a CDS without one complete codon is outside the statement (C05/C19 territory)
                yield {"genome": "A", "genes": [g], "fcs": []}


# menu of gene structures in a 12-base slot (local coordinates)
MENU = (
    dict(exons=[[0, 11]], strand="+", kind="coding", cds=[0, 11], f0=0),
    dict(exons=[[0, 5], [7, 12]], strand="-", kind="coding", cds=[1, 9], f0=1),
    dict(exons=[[0, 4], [5, 8], [9, 12]], strand="+", kind="coding", cds=[0, 10], f0=2),
    dict(exons=[[0, 4], [9, 12]], strand="-", kind="coding", cds=[0, 6], f0=0),
    dict(exons=[[2, 9]], strand="-", kind="tRNA"),
    dict(exons=[[0, 3], [8, 12]], strand="+", kind="ncRNA"),
    dict(exons=[[1, 3], [4, 6], [9, 11]], strand="-", kind="rRNA"),
    dict(exons=[[0, 12]], strand="+", kind="misc_RNA"),
)
ARR2 = ((1, 14), (2, 2), (2, 7))
ARR3 = {"quick": ((1, 14, 27),), "thorough": ((1, 14, 27), (1, 6, 27), (14, 1, 20))}
FC_MENU = (dict(blocks=[[0, 3], [5, 9]], strand="+"), dict(blocks=[[2, 8]], strand="-"))


def place(m, off, ids=0):
    g = dict(m)
    g["exons"] = [[s + off, e + off] for s, e in m["exons"]]
    g["ids"] = ids
    return g


def multi_gene_records(tier):
    """records with 2..3 genes (every ordered choice from MENU) in disjoint, same-start and overlapping arrangements;
    records with 1 gene + identifier menu / second genome / feature collections"""
    out = []
    # one gene: identifier menu 1, genome N, with a feature collection before / after / overlapping
    for mi, m in enumerate(MENU):
        out.append({"genome": "A", "genes": [place(m, 3, ids=1)], "fcs": []})
        out.append({"genome": "N", "genes": [place(m, 3)], "fcs": []})
        out.append({"genome": "N", "genes": [place(m, 20)], "fcs": []})
        for fi, fc in enumerate(FC_MENU):
            for foff in (0, 10, 25):
                out.append({"genome": "A", "genes": [place(m, 12)],
                            "fcs": [dict(blocks=[[s + foff, e + foff] for s, e in fc["blocks"]], strand=fc["strand"])]})
    # genes WITHOUT a locus tag of their own (symbol + id / symbol only / gene id only / no identifier at all): alone ...
    for m in MENU:
        for ids in (2, 3, 4, 5):
            out.append({"genome": "A", "genes": [place(m, 3, ids=ids)], "fcs": []})
    # ... and mixed with tagged genes and with each other, disjoint and overlapping
    sub = [MENU[i] for i in (0, 1, 4, 5)]
    for a, b in itertools.product(sub, repeat=2):
        for ia, ib in ((2, 0), (0, 3), (4, 0), (0, 5), (5, 5), (3, 4), (2, 5)):
            for offs in (ARR2[0], ARR2[2]):
                out.append({"genome": "A", "genes": [place(a, offs[0], ids=ia), place(b, offs[1], ids=ib)], "fcs": []})
    for tri, idm in (((0, 4, 1), (0, 2, 5)), ((5, 2, 4), (3, 0, 4)), ((1, 1, 6), (4, 5, 1)), ((2, 7, 3), (5, 0, 2))):
        out.append({"genome": "A", "genes": [place(MENU[t], o, ids=i) for t, o, i in zip(tri, (1, 14, 27), idm)], "fcs": []})
    for a, b in itertools.product(range(len(MENU)), repeat=2):
        for offs in ARR2:
            out.append({"genome": "A", "genes": [place(MENU[a], offs[0]), place(MENU[b], offs[1])], "fcs": []})
    for a, b, c in itertools.product(range(len(MENU)), repeat=3):
        for offs in ARR3[tier]:
            out.append({"genome": "A", "genes": [place(MENU[a], offs[0]), place(MENU[b], offs[1]), place(MENU[c], offs[2])],
                        "fcs": []})
    return out


ISO_MENU = (
    # (first isoform, further isoforms): local coordinates in a 14-base slot
    (dict(exons=[[0, 4], [6, 14]], strand="+", kind="coding", cds=[0, 12], f0=0), [dict(exons=[[0, 4], [8, 14]], cds=[0, 9], f0=0)]),
    (dict(exons=[[0, 4], [6, 14]], strand="-", kind="coding", cds=[1, 10], f0=1), [dict(exons=[[0, 3], [6, 14]], cds=[0, 9], f0=2)]),
    (dict(exons=[[0, 14]], strand="+", kind="coding", cds=[0, 12], f0=0), [dict(exons=[[2, 14]], cds=[0, 9], f0=0), dict(exons=[[0, 5], [8, 14]], cds=[2, 11], f0=0)]),
    (dict(exons=[[0, 4], [6, 14]], strand="+", kind="ncRNA"), [dict(exons=[[0, 4], [8, 14]])]),
    (dict(exons=[[0, 4], [6, 14]], strand="-", kind="misc_RNA"), [dict(exons=[[1, 4], [6, 12]])]),
    (dict(exons=[[0, 14]], strand="-", kind="tRNA"), [dict(exons=[[0, 6], [8, 14]])]),
)


def isoform_records(tier):
    """genes with two or three isoforms (coding / non-coding; same or different spans), alone and next to a second,
    single-isoform gene (before / after), with and without a locus tag of their own"""
    out = []
    for first, more in ISO_MENU:
        for off in (1, 20):
            g = place(first, off)
            g["iso"] = [dict(t, exons=[[s + off, e + off] for s, e in t["exons"]]) for t in more]
            for ids in (0, 2):
                gi = dict(g, ids=ids)
                out.append({"genome": "A", "genes": [gi], "fcs": []})
            other = place(MENU[4 if first["kind"] == "coding" else 0], 22 if off == 1 else 2)
            out.append({"genome": "A", "genes": [g, other] if off == 1 else [other, g], "fcs": []})
    return out


def n_rows(rec, flavour):
    n = 0
    for g in rec["genes"]:
        n += 1 + len(transcripts_of(g)) * (2 if (g["kind"] == "coding" and flavour == "EUKARYOTIC") else 1)
    return n + 2 * len(rec.get("fcs", []))
