"""C20 reference model: aggregates as functions of the CHILD DESCRIPTIONS.  Pure Python; imports nothing from the
library (only the shared position / reading-frame models of vlib.model).

A child description is a JSON-able dict
    transcript: {"exons": [[s,e],..], "strand": "+|-", "cds": [c0,c1] | None, "f0": 0|1|2, "flag": None|False|True}
                (cds = [c0,c1) in transcript coordinates, f0 = bases skipped at the very start of the CDS)
    feature   : {"exons": [[s,e],..], "strand": "+|-", "types": [..] | None, "flag": None|False|True}
"""
from vlib.model import frame as F
from vlib.model import loc as M

REFUSE_FLAGS = "ValidationException"


def blocks(ch):
    return tuple(sorted((b[0], b[1]) for b in ch["exons"]))


def spliced_len(ch):
    return sum(e - s for s, e in blocks(ch))


def is_coding(ch):
    return ch.get("cds") is not None


def cds_blocks(ch):
    if not is_coding(ch):
        return None
    return F.cds_blocks_for(blocks(ch), ch["strand"], ch["cds"][0], ch["cds"][1])


def cds_frames(ch):
    return F.consistent_frames_plus_order(cds_blocks(ch), ch["strand"], ch.get("f0", 0))


def cds_len(ch):
    return (ch["cds"][1] - ch["cds"][0]) if is_coding(ch) else 0


# ---- aggregates --------------------------------------------------------------------------------------------------
def span(children):
    return (min(blocks(c)[0][0] for c in children), max(blocks(c)[-1][1] for c in children))


def union_positions(children):
    out = set()
    for c in children:
        out |= M.S(blocks(c))
    return out


def cds_union_positions(children):
    """None when no child is coding (the merged CDS does not exist)"""
    cod = [c for c in children if is_coding(c)]
    if not cod:
        return None
    out = set()
    for c in cod:
        out |= M.S(cds_blocks(c))
    return out


def any_coding(children):
    return any(is_coding(c) for c in children)


def types_union(children):
    out = set()
    for c in children:
        out |= set(c.get("types") or [])
    return out


def primary(children):
    """(index, deciding criterion) or (REFUSE_FLAGS, 'flags').
    criterion: 'flag' | 'only' | 'cds' | 'len' | 'index' (which rule separated the winner from the runner-up)"""
    flagged = [i for i, c in enumerate(children) if c.get("flag") is True]
    if len(flagged) > 1:
        return REFUSE_FLAGS, "flags"
    if len(flagged) == 1:
        return flagged[0], "flag"
    if len(children) == 1:
        return 0, "only"
    best = max(cds_len(c) for c in children)
    cand = [i for i, c in enumerate(children) if cds_len(c) == best]
    if len(cand) == 1:
        return cand[0], "cds"
    bl = max(spliced_len(children[i]) for i in cand)
    cand2 = [i for i in cand if spliced_len(children[i]) == bl]
    if len(cand2) == 1:
        return cand2[0], "len"
    return cand2[0], "index"


# ---- member values --------------------------------------------------------------------------------------------------
def spliced_sequence(genome, ch):
    return F.splice(genome, M.P(blocks(ch), ch["strand"]), ch["strand"])


def cds_codon_strings(genome, ch):
    cb = cds_blocks(ch)
    ex = F.exons_5to3(cb, ch["strand"])
    fr = F.frames_5to3(cds_frames(ch), ch["strand"])
    return [F.splice(genome, c, ch["strand"]) for c in F.codons(ex, fr)]


def cds_sequence(genome, ch):
    return "".join(cds_codon_strings(genome, ch))


def protein(genome, ch):
    """default arguments of the library accessor: standard table, no truncation, strict"""
    return F.translate(cds_codon_strings(genome, ch), 0, False, True)


# ---- annotation collection -------------------------------------------------------------------------------------------
def member_span(m):
    if "span" in m:  # a variant collection, described by its span only
        return tuple(m["span"])
    return span(m["children"])


def collection_bounds(members, bounds, parent, N):
    """documented bounds (class docstring 'Object Bounds'):
    explicit start+end -> those; only one of them -> 'InvalidAnnotationError'; neither: from the parent when it carries
    the information (chromosome parent: whole sequence, chunk parent: the chunk), else min/max of the members, else
    (empty collection) None."""
    s, e = bounds
    if (s is None) != (e is None):
        return "InvalidAnnotationError"
    if s is not None:
        return (s, e)
    if parent == "chrom":
        return (0, N)
    if isinstance(parent, (list, tuple)):
        return (parent[-2], parent[-1])
    if members:
        return (min(member_span(m)[0] for m in members), max(member_span(m)[1] for m in members))
    return None
