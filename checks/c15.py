"""C15 - built-in biological tables and enumerated algebras (finite domains, enumerated completely)."""
import itertools

from Bio.Data import CodonTable, IUPACData
from Bio.Seq import Seq

from vlib import lib
from vlib.runner import ShardResult

from inscripta.biocantor.gene.codon import Codon, TranslationTable, START_CODONS_BY_TRANSLATION_TABLE
from inscripta.biocantor.gene.cds_frame import CDSFrame, CDSPhase
from inscripta.biocantor.gene.biotype import Biotype
from inscripta.biocantor.sequence.alphabet import Alphabet, ALPHABET_TO_NUCLEOTIDE_COMPLEMENT
from inscripta.biocantor.sequence import Sequence
from inscripta.biocantor.location.strand import Strand
from inscripta.biocantor.exc import AlphabetError

PROPERTY = "C15"
TITLE = "Built-in biological tables and enumerated algebras are correct (finite domains)"
RULE = (
    "complete enumeration of the finite domains: 64 strict codons, all 16^3 IUPAC(+U) triplets in upper, lower and "
    "mixed case, every letter of every alphabet in both cases (+ all 2-letter strings for reverse-complement order), "
    "frames x shifts in [-30,30], all strand pairs/symbols/ints, all biotype name pairs; every case is non-trivial "
    "(each is a distinct table entry)"
)
ASSUMPTIONS = [
    "oracles: Bio.Data.CodonTable tables 1 and 11, Bio.Data.IUPACData ambiguity expansion, Bio.Seq complement",
    "U is identified with T when an RNA letter is expanded or complemented",
]

IUPAC = "ATUCGNWSMKRYBDHV"
PARTS = ["codons", "iupac0", "iupac1", "iupac2", "iupac3", "complement", "frames", "strand", "biotype"]


def world_description(tier):
    return "finite domains enumerated completely (quick == thorough)"


def shards(tier, seed):
    return [{"part": p} for p in PARTS]


STD = CodonTable.unambiguous_dna_by_id[1]
BACT = CodonTable.unambiguous_dna_by_id[11]


def std_aa(c):
    c = c.upper().replace("U", "T")
    if c in STD.stop_codons:
        return "*"
    return STD.forward_table[c]


def expansions(trip):
    vals = IUPACData.ambiguous_dna_values
    return ["".join(x) for x in itertools.product(*[vals[ch] for ch in trip.upper().replace("U", "T")])]


def run_shard(shard):
    res = ShardResult()
    part = shard["part"]
    fn = getattr(__import__(__name__, fromlist=["x"]), "part_" + part.rstrip("0123"))
    fn(res, part)
    # second pass in the same process: the tables are process-wide objects; a question that edits them (in-place removal
    # from a shared list, a memo keyed too coarsely) answers correctly once and wrongly afterwards
    fn(res, part)
    res.extra["passes"] += 2
    return res


def dev(res, op, case, obs, exp, sig=None):
    res.deviation(op, {"part": case[0], "args": list(case[1:])}, obs, exp, sig=sig or op)


def part_codons(res, part):
    strict = ["".join(p) for p in itertools.product("ACGT", repeat=3)]
    by_aa = {}
    for c in strict:
        by_aa.setdefault(std_aa(c), set()).add(c)
    for c in strict:
        res.state(("codon", c))
        res.nontriv(("codon", c))
        for variant in {c, c.lower(), c[0].lower() + c[1:], c.replace("T", "U") if False else c}:
            cod = Codon(variant)
            for st in (True, False):
                res.trans()
                got = cod.translate(strict=st)
                if got != std_aa(c):
                    dev(res, "translate", ("codons", variant, st), got, std_aa(c), "translate-strict")
            res.trans()
            if cod is not Codon(c):
                dev(res, "Codon-singleton", ("codons", variant), repr(cod), repr(Codon(c)), "codon-case")
        cod = Codon(c)
        res.trans(6)
        syn_inc = cod.synonymous_codons(include_self=True)
        syn_exc = cod.synonymous_codons(include_self=False)
        exp = by_aa[std_aa(c)]
        if {str(x) for x in syn_inc} != exp or len(syn_inc) != len(exp):
            dev(res, "synonymous_codons", ("codons", c, True), sorted(str(x) for x in syn_inc), sorted(exp), "synonymous")
        if {str(x) for x in syn_exc} != exp - {c} or len(syn_exc) != len(exp) - 1:
            dev(res, "synonymous_codons", ("codons", c, False), sorted(str(x) for x in syn_exc), sorted(exp - {c}), "synonymous")
        if cod.is_stop_codon != (c in STD.stop_codons) or cod.is_stop_codon != (c in BACT.stop_codons):
            dev(res, "is_stop_codon", ("codons", c), cod.is_stop_codon, c in STD.stop_codons, "stop")
        if not cod.is_strict_codon:
            dev(res, "is_strict_codon", ("codons", c), False, True, "strict")
        if cod.is_canonical_start_codon != (c == "ATG"):
            dev(res, "is_canonical_start_codon", ("codons", c), cod.is_canonical_start_codon, c == "ATG", "canonical-start")
        exp_start = {
            TranslationTable.DEFAULT: c == "ATG",
            TranslationTable.STANDARD: c in STD.start_codons,
            TranslationTable.PROKARYOTE: c in BACT.start_codons,
        }
        for t, e in exp_start.items():
            res.trans()
            got = cod.is_start_codon_in_specific_translation_table(t)
            if got != e:
                dev(res, "is_start_codon_in_specific_translation_table", ("codons", c, int(t)), got, e, "start-table")
        res.trans()
        if cod.is_start_codon_in_specific_translation_table() != (c == "ATG"):
            dev(res, "is_start_codon_in_specific_translation_table", ("codons", c, "default-arg"), None, c == "ATG", "start-table")
        res.note("codon", std_aa(c))
    # partition: synonymous sets cover the 64 codons exactly once
    res.trans()
    seen = {}
    for c in strict:
        key = frozenset(str(x) for x in Codon(c).synonymous_codons(include_self=True))
        seen.setdefault(key, 0)
        seen[key] += 1
    if sum(len(k) for k in seen) != 64 or any(len(k) != v for k, v in seen.items()):
        dev(res, "synonymous_codons", ("codons", "partition"), len(seen), "partition of 64", "synonymous-partition")
    # invalid codons are refused
    for bad in ("AT", "ATGC", "AT-", "ATX", "", "A G"):
        res.trans()
        o = lib.outcome(Codon, bad)
        res.note("codon-ctor", o[0])
        if o[0] == "ok" or not isinstance(o[2], ValueError):
            dev(res, "Codon", ("codons", bad), o[1] if o[0] == "exc" else "accepted", "ValueError", "codon-invalid")
    res.sample({"codon": "ATG", "aa": std_aa("ATG")})


def held_problems(held, tables, only=None):
    """codons are process-wide singletons: a reference taken earlier must keep its spelling, hash, translation and its place
    in the start-codon tables whatever was constructed or asked in between"""
    probs = []
    for c in (only if only is not None else held):
        cod = held.get(c)
        if cod is None:
            continue
        if str(cod) != c or cod.value != c or hash(cod) != hash(c) or cod.translate(strict=True) != std_aa(c) or cod.is_stop_codon != (c in STD.stop_codons):
            probs.append((c, f"held reference to Codon({c!r}) now reads {str(cod)!r}, translates to {cod.translate(strict=True)!r}"))
    if only is None:
        for tab, ref in tables.items():
            got = {str(x) for x in START_CODONS_BY_TRANSLATION_TABLE[tab]}
            if got != ref or any((held[c] in START_CODONS_BY_TRANSLATION_TABLE[tab]) != (c in ref) for c in held):
                probs.append((f"table{int(tab)}", f"start codon table {int(tab)} now reads {sorted(got)}"))
    return probs


def part_iupac(res, part):
    k = int(part[-1])
    letters = IUPAC
    strict_codons = ["".join(p) for p in itertools.product("ACGT", repeat=3)]
    held = {c: Codon(c) for c in strict_codons}
    tables = {TranslationTable.DEFAULT: {"ATG"}, TranslationTable.STANDARD: set(STD.start_codons), TranslationTable.PROKARYOTE: set(BACT.start_codons)}
    for idx, trip in enumerate(itertools.product(letters, repeat=3)):
        if idx % 4 != k:
            continue
        t = "".join(trip)
        # constructing any spelling (RNA letters, lower case) leaves the references taken before untouched
        for variant in (t, t.lower(), t[0] + t[1:].lower()):
            Codon(variant)
            res.trans()
            for c, msg in held_problems(held, tables, only=[t.replace("U", "T")]):
                dev(res, "Codon", ("iupac", variant, "held-reference"), msg, f"Codon({c!r}) unchanged", "codon-held-reference")
        res.state(("iupac", t))
        res.nontriv(("iupac", t))
        for variant in (t, t.lower(), t[0] + t[1:].lower()):
            cod = Codon(variant)
            strict = set(t) <= set("ACGT")
            aa_s = cod.translate(strict=True)
            aa_n = cod.translate(strict=False)
            res.trans(2)
            if strict:
                if aa_s != std_aa(t) or aa_n != std_aa(t):
                    dev(res, "translate", ("iupac", variant), [aa_s, aa_n], std_aa(t), "translate-strict")
                res.note("iupac", "strict")
            else:
                if aa_s != "X":
                    dev(res, "translate", ("iupac", variant, True), aa_s, "X", "translate-strict-ambiguous")
                if aa_n != "X":
                    exps = {std_aa(e) for e in expansions(t)}
                    res.note("iupac", "ambiguous-translated")
                    if exps != {aa_n}:
                        dev(res, "translate", ("iupac", variant, False), aa_n, sorted(exps), "translate-ambiguous")
                else:
                    res.note("iupac", "ambiguous-X")
            res.trans(4)
            if cod.is_strict_codon != strict:
                dev(res, "is_strict_codon", ("iupac", variant), cod.is_strict_codon, strict, "strict")
            if cod.is_stop_codon != (strict and t in STD.stop_codons):
                dev(res, "is_stop_codon", ("iupac", variant), cod.is_stop_codon, strict and t in STD.stop_codons, "stop")
            for tab, ref in ((TranslationTable.DEFAULT, {"ATG"}), (TranslationTable.STANDARD, set(STD.start_codons)), (TranslationTable.PROKARYOTE, set(BACT.start_codons))):
                if cod.is_start_codon_in_specific_translation_table(tab) != (t in ref):
                    dev(res, "is_start_codon_in_specific_translation_table", ("iupac", variant, int(tab)), None, t in ref, "start-table")
            # synonymous codons of an ambiguous codon: strict codons of the amino acid it translates to, or nothing
            syn = cod.synonymous_codons(include_self=True)
            if aa_n == "X":
                if [str(x) for x in syn] != [t]:
                    dev(res, "synonymous_codons", ("iupac", variant), [str(x) for x in syn], [t], "synonymous-ambiguous")
            else:
                exp = {"".join(p) for p in itertools.product("ACGT", repeat=3) if std_aa("".join(p)) == aa_n}
                if {str(x) for x in syn} != exp:
                    dev(res, "synonymous_codons", ("iupac", variant), sorted(str(x) for x in syn), sorted(exp), "synonymous-ambiguous")
    res.trans()
    for c, msg in held_problems(held, tables):
        dev(res, "Codon", ("iupac", c, "held-reference-final"), msg, "unchanged", "codon-held-reference")
    res.sample({"triplet": "CTN", "expansions": expansions("CTN")})


def part_complement(res, part):
    nt = [a for a in Alphabet if a.name.startswith("NT_")]
    for a in Alphabet:
        res.trans()
        exp = a.name.startswith("NT_")
        res.state(("alphabet", a.name))
        if a.is_nucleotide_alphabet() != exp:
            dev(res, "is_nucleotide_alphabet", ("complement", a.name), a.is_nucleotide_alphabet(), exp, "is-nt")
        if not exp:
            o = lib.outcome(Sequence("A", a).reverse_complement)
            res.trans()
            if o[0] == "ok" or not isinstance(o[2], AlphabetError):
                dev(res, "reverse_complement", ("complement", a.name, "A"), "accepted", "AlphabetError", "rc-non-nt")
    for a in nt:
        table = ALPHABET_TO_NUCLEOTIDE_COMPLEMENT[a]
        letters = a.value + a.value.lower()
        letters = "".join(dict.fromkeys(letters))
        for ch in letters:
            res.state(("compl", a.name, ch))
            res.nontriv(("compl", a.name, ch))
            res.trans()
            o = lib.outcome(lambda: str(Sequence(ch, a).reverse_complement()))
            bio = str(Seq(ch).complement()) if ch != "-" else "-"
            # Bio complements U/u as DNA 'A'/'a'
            if o[0] != "ok":
                dev(res, "reverse_complement", ("complement", a.name, ch), o[1], bio, "complement-missing")
                continue
            got = o[1]
            res.note("complement", f"{a.name}")
            if got != bio:
                dev(res, "reverse_complement", ("complement", a.name, ch), got, bio, "complement-iupac")
            if got.upper() not in a.value or got.isupper() != ch.isupper() and ch != "-":
                dev(res, "reverse_complement", ("complement", a.name, ch), got, "closed over alphabet, same case", "complement-closure")
            back = str(Sequence(got, a).reverse_complement())
            res.trans()
            if not (back == ch or (ch in "Uu" and back == {"U": "T", "u": "t"}[ch])):
                dev(res, "reverse_complement", ("complement", a.name, ch, "twice"), back, ch, "complement-involution")
            if table.get(ch) != got:
                dev(res, "ALPHABET_TO_NUCLEOTIDE_COMPLEMENT", ("complement", a.name, ch, "table"), table.get(ch), got, "complement-table")
        if set(table) - set(letters):
            dev(res, "ALPHABET_TO_NUCLEOTIDE_COMPLEMENT", ("complement", a.name, "extra-keys"), sorted(set(table) - set(letters)), [], "complement-extra")
        # order: reverse complement of every 2-letter word
        for x, y in itertools.product(letters, repeat=2):
            res.trans()
            got = str(Sequence(x + y, a).reverse_complement())
            exp = table.get(y, "?") + table.get(x, "?")
            if got != exp:
                dev(res, "reverse_complement", ("complement", a.name, x + y), got, exp, "rc-order")
    res.sample({"alphabet": "NT_EXTENDED", "letter": "R", "complement": "Y"})


def part_frames(res, part):
    for f in CDSFrame:
        res.state(("frame", f.name))
        for n in range(-30, 31):
            res.trans()
            res.nontriv(("shift", f.name, n))
            o = lib.outcome(f.shift, n)
            exp = f if f is CDSFrame.NONE else CDSFrame((f.value + n) % 3)
            if o[0] != "ok" or o[1] is not exp:
                dev(res, "CDSFrame.shift", ("frames", f.name, n), o[1].name if o[0] == "ok" else o[1], exp.name, "frame-shift")
            res.note("shift", exp.name)
        res.trans(3)
        ph = f.to_phase()
        expv = -1 if f is CDSFrame.NONE else (3 - f.value) % 3
        if ph.value != expv:
            dev(res, "CDSFrame.to_phase", ("frames", f.name), ph.value, expv, "to-phase")
        if ph.to_frame() is not f:
            dev(res, "CDSPhase.to_frame", ("frames", f.name, "roundtrip"), ph.to_frame().name, f.name, "phase-frame-roundtrip")
        if CDSFrame.from_int(f.value) is not f:
            dev(res, "CDSFrame.from_int", ("frames", f.name), None, f.name, "frame-from-int")
    for p in CDSPhase:
        res.trans(3)
        res.state(("phase", p.name))
        if p.to_frame().to_phase() is not p:
            dev(res, "CDSPhase.to_frame", ("frames", p.name, "phase-roundtrip"), p.to_frame().to_phase().name, p.name, "phase-frame-roundtrip")
        if CDSPhase.from_int(p.value) is not p:
            dev(res, "CDSPhase.from_int", ("frames", p.name), None, p.name, "phase-from-int")
        expg = "." if p is CDSPhase.NONE else str(p.value)
        if p.to_gff() != expg:
            dev(res, "CDSPhase.to_gff", ("frames", p.name, "gff"), p.to_gff(), expg, "phase-gff")
    for bad in (3, -2, 7):
        for cls in (CDSFrame, CDSPhase):
            res.trans()
            o = lib.outcome(cls.from_int, bad)
            if o[0] == "ok" or not isinstance(o[2], ValueError):
                dev(res, "from_int", ("frames", cls.__name__, bad), "accepted", "ValueError", "from-int-invalid")
    res.sample({"frame": "ONE", "shift": -4, "expected": "ZERO"})


def part_strand(res, part):
    sym = {Strand.PLUS: "+", Strand.MINUS: "-", Strand.UNSTRANDED: "."}
    val = {Strand.PLUS: 1, Strand.MINUS: -1, Strand.UNSTRANDED: 0}
    order = [Strand.PLUS, Strand.MINUS, Strand.UNSTRANDED]
    for s in Strand:
        res.state(("strand", s.name))
        res.trans(6)
        if s.to_symbol() != sym[s] or str(s) != sym[s] or Strand.from_symbol(sym[s]) is not s:
            dev(res, "Strand.symbol", ("strand", s.name), s.to_symbol(), sym[s], "strand-symbol")
        if s.value != val[s] or Strand.from_int(val[s]) is not s:
            dev(res, "Strand.from_int", ("strand", s.name), s.value, val[s], "strand-int")
        if s.reverse().reverse() is not s or s.reverse().value != -s.value:
            dev(res, "Strand.reverse", ("strand", s.name), s.reverse().name, "negation", "strand-reverse")
        o = lib.outcome(s.assert_directional)
        if (o[0] == "ok") != (s is not Strand.UNSTRANDED):
            dev(res, "Strand.assert_directional", ("strand", s.name), o[0], s is not Strand.UNSTRANDED, "strand-directional")
        for t in Strand:
            res.trans(4)
            res.nontriv(("rel", s.name, t.name))
            exp = Strand(s.value * t.value)
            if s.relative_to(t) is not exp:
                dev(res, "Strand.relative_to", ("strand", s.name, t.name), s.relative_to(t).name, exp.name, "strand-relative")
            if s.relative_to(t) is not t.relative_to(s):
                dev(res, "Strand.relative_to", ("strand", s.name, t.name, "commut"), None, None, "strand-relative-commutative")
            i, j = order.index(s), order.index(t)
            got = (s < t, s <= t, s > t, s >= t, s == t, s != t)
            exp6 = (i < j, i <= j, i > j, i >= j, i == j, i != j)
            if got != exp6:
                # a total order: all six comparison operators agree with one ranking (every pair, equal pairs included)
                dev(res, "Strand.__lt__", ("strand", s.name, t.name, "order"), list(got), list(exp6), "strand-order")
            if sorted([s, t]) != sorted([s, t], key=order.index) or min(s, t) is not min(s, t, key=order.index) or max(t, s) is not max(t, s, key=order.index):
                dev(res, "Strand.sorted", ("strand", s.name, t.name, "sorted"), [x.name for x in sorted([s, t])], None, "strand-order")
            if (hash(s) == hash(t)) != (s is t):
                dev(res, "Strand.__hash__", ("strand", s.name, t.name, "hash"), None, None, "strand-hash")
            for u in Strand:
                res.trans()
                if s.relative_to(t).relative_to(u) is not s.relative_to(t.relative_to(u)):
                    dev(res, "Strand.relative_to", ("strand", s.name, t.name, u.name, "assoc"), None, None, "strand-assoc")
    for bad in ("", "x", "++", "1"):
        res.trans()
        o = lib.outcome(Strand.from_symbol, bad)
        if o[0] == "ok" or not isinstance(o[2], ValueError):
            dev(res, "Strand.from_symbol", ("strand", bad), "accepted", "ValueError", "strand-symbol-invalid")
    for bad in (2, -2, 5):
        res.trans()
        o = lib.outcome(Strand.from_int, bad)
        if o[0] == "ok" or not isinstance(o[2], ValueError):
            dev(res, "Strand.from_int", ("strand", bad), "accepted", "ValueError", "strand-int-invalid")
    res.sample({"strand": "-", "relative_to": "-", "expected": "+"})


SYNONYMS = [
    {"protein_coding", "protein-coding", "mRNA"},
    {"misc_RNA", "miscRNA"},
    {"pseudogene", "pseudo"},
    {"lncRNA", "lnc_RNA"},
]


def part_biotype(res, part):
    names = list(Biotype.__members__)
    cls = {}
    for n in names:
        for i, grp in enumerate(SYNONYMS):
            if n in grp:
                cls[n] = ("syn", i)
                break
        else:
            cls[n] = ("single", n)
    for grp in SYNONYMS:
        for n in grp:
            res.trans()
            if n not in Biotype.__members__:
                dev(res, "Biotype", ("biotype", n), "missing", "member", "biotype-missing")
    for a in names:
        res.state(("biotype", a))
        res.trans()
        if not (Biotype.has_name(a) and Biotype.has_value(Biotype[a].value)):
            dev(res, "Biotype.has_name", ("biotype", a), False, True, "biotype-has-name")
        for b in names:
            res.trans()
            res.nontriv(("biotype", a, b))
            same = cls[a] == cls[b]
            got = Biotype[a] == Biotype[b] and Biotype[a].value == Biotype[b].value
            res.note("biotype", "same" if same else "different")
            if got != same:
                dev(res, "Biotype", ("biotype", a, b), got, same, "biotype-synonym")
    res.sample({"biotype": "mRNA", "synonym_of": "protein_coding"})


def replay(case):
    res = ShardResult()
    part = case["part"]
    if part == "iupac":
        for k in range(4):
            part_iupac(res, f"iupac{k}")
    else:
        globals()["part_" + part](res, part)
    want = case["args"]
    return [d for d in res.deviations if d["case"]["args"] == want] or res.deviations
