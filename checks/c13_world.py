"""C13 worlds: references, variant (edit) sets, chunk windows.  Enumerators only; nothing samples."""
import itertools

from vlib import worlds

LETTERS = "ACGTN"
# alt strings of length 0..3 per variant ordinal (ordinal = rank of the variant by start); different ordinals carry
# different letters so that a swapped or doubly applied alt string is visible in the text
ALTS = [("", "T", "TG", "TGA"), ("", "N", "NC", "NCA"), ("", "G", "GN", "GNT")]


def genome(N, rot=0):
    return worlds.designed_genome(N, LETTERS, rot)


def intervals(N):
    return [(s, e) for s in range(N) for e in range(s + 1, N + 1)]


def interval_sets(N, nv):
    """all ascending tuples of nv pairwise disjoint (touching allowed) non-empty intervals over [0,N]"""
    return list(worlds._disjoint(N, nv, 0, ()))


def edit_sets(N, nv):
    """all sets of exactly nv pairwise disjoint edits: every interval tuple x every alt-length vector in {0,1,2,3}^nv"""
    for ivs in interval_sets(N, nv):
        for lens in itertools.product(range(4), repeat=nv):
            yield tuple((s, e, ALTS[i][ln]) for i, ((s, e), ln) in enumerate(zip(ivs, lens)))


def n_edit_sets(N, nv):
    return len(interval_sets(N, nv)) * 4 ** nv


def kind(edit):
    """structural class of one edit (for vacuity guards / non-triviality)"""
    s, e, a = edit
    d = len(a) - (e - s)
    if d == 0:
        return "SNV" if e - s == 1 else "MNV"
    if a == "":
        return "del-unpadded"
    if d < 0:
        return "del-padded"
    return "ins"


def n_len_changing(edits):
    return sum(1 for s, e, a in edits if len(a) != e - s)


def windows_containing(N, lo, hi):
    """all chunk windows [a,b) of [0,N] that contain [lo,hi)"""
    return [(a, b) for a in range(0, lo + 1) for b in range(hi, N + 1)]


def locations(N, k):
    """layouts(N,<=k) x both strands"""
    for bl in worlds.layouts(N, k, "disjoint"):
        for st in "+-":
            yield bl, st
