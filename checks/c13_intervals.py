"""C13 interval legs: incorporate_variants on Feature/Transcript(+CDS)/CDS ('iv') and on Gene / FeatureIntervalCollection /
AnnotationCollection plus alternative_haplotype_mapping ('agg'), against the edit model."""
import itertools
from uuid import UUID

from vlib import lib
from vlib.model import frame as F
from vlib.model import variants as V

from checks import c13_world as W
from checks import c13_core as C

from inscripta.biocantor.gene.biotype import Biotype
from inscripta.biocantor.gene.collections import AnnotationCollection
from inscripta.biocantor.gene.feature import FeatureIntervalCollection
from inscripta.biocantor.gene.gene import GeneInterval

SG = UUID(int=9)
FEAT_META = dict(sequence_name="chrV", sequence_guid=SG, feature_name="fn", feature_id="fid", feature_types=["t2", "t1"],
                 qualifiers={"k": ["v2", "v1"]}, is_primary_feature=True, feature_guid=UUID(int=7))
TX_META = dict(sequence_name="chrV", sequence_guid=SG, transcript_id="tid", transcript_symbol="sym", qualifiers={"k": ["v2", "v1"]},
               is_primary_tx=True, transcript_guid=UUID(int=8), transcript_type=Biotype.protein_coding)
TX_CODING_META = dict(protein_id="pid", product="prod")
CDS_META = dict(sequence_name="chrV", sequence_guid=SG, protein_id="pid", product="prod", qualifiers={"k": ["v2", "v1"]})
GENE_META = dict(gene_id="gid", gene_symbol="gsym", gene_type=Biotype.protein_coding, locus_tag="lt", qualifiers={"g": ["w"]},
                 sequence_name="chrV", sequence_guid=SG)
FC_META = dict(feature_collection_name="fcn", feature_collection_id="fcid", feature_collection_type="fct", locus_tag="flt",
               qualifiers={"g": ["w"]}, sequence_name="chrV", sequence_guid=SG)
COORD_KEYS = {
    "interval_starts", "interval_ends", "feature_interval_guid", "exon_starts", "exon_ends", "cds_starts", "cds_ends", "cds_frames",
    "transcript_interval_guid", "transcripts", "gene_guid", "feature_intervals", "feature_collection_guid",
}


def meta(obj):
    return {k: (str(v) if isinstance(v, UUID) else v) for k, v in obj.to_dict().items() if k not in COORD_KEYS}


# ---- expected values ----------------------------------------------------------------------------------------
def expected_loc(hap, blocks, strand):
    """edit-model image of an interval location on the haplotype; chunk: coordinates of the alternative chunk"""
    return V.lifted(hap.ref, blocks, strand, hap.edits, hap.window)


def cds_expected_seq(spliced, f0):
    body = spliced[f0:]
    return body[: len(body) // 3 * 3]


def first_bases_untouched(blocks, strand, f0, edits):
    """the f0 bases skipped at the 5' end of the CDS are touched by no edit (so the start frame keeps its meaning)"""
    head = set(lib_positions(blocks, strand)[:f0])
    return not any(p in head for s, e, _ in edits for p in range(s, e))


def lib_positions(blocks, strand):
    return [p for ex in F.exons_5to3(blocks, strand) for p in ex]


def read_interval(obj, a):
    """what the property observes of an incorporated interval. a = chunk start (0 on a chromosome)"""
    loc = obj.chunk_relative_location
    pos = [p for s, e in lib.loc_blocks(loc) for p in range(s, e)]
    cpos = [p for s, e in lib.loc_blocks(obj.chromosome_location) for p in range(s, e)]
    out = {
        "blocks": [list(b) for b in V.runs(pos)],
        "chrom_blocks": [list(b) for b in V.runs(cpos)],
        "strand": lib.loc_strand(loc),
        "seq": str(obj.get_spliced_sequence()),
        "alt": None if loc.parent is None or loc.parent.sequence is None else str(loc.parent.sequence),
    }
    return out


def expected_interval(exp, strand, a):
    return {
        "blocks": [list(b) for b in exp["blocks"]],
        "chrom_blocks": [[s + a, e + a] for s, e in exp["blocks"]],
        "strand": strand,
        "seq": exp["seq"],
        "alt": exp["alt"],
    }


def classify(hap, pairs):
    """pairs: [(library location handed to lift_over_location, expected dict)]. Returns (lift_deviates, rtl_ok): does
    the public lift_over_location deviate on one of them, and does right-to-left application give the model's answer
    on all of them (classification of deviations only)."""
    lift_dev, rtl_ok = False, True
    for loc, exp in pairs:
        expd = C.expected_summary(exp, lib.loc_strand(loc))
        o = lib.outcome(hap.coll.lift_over_location, loc)
        got = C.read_location(o[1])[0] if o[0] == "ok" else {"exc": o[1]}
        if got != expd:
            lift_dev = True
        if C.rtl_reference(hap, loc) != expd:
            rtl_ok = False
    return lift_dev, rtl_ok


def dev(res, hap, op, case, what, observed, expected, pairs, **kw):
    lift_dev, rtl_ok = classify(hap, pairs)
    sig = f"{case['kind']}-{what}"
    if hap.nlc >= 2 and len(hap.edits) >= 2 and lift_dev and rtl_ok:
        sig += "-sequential-shift"
    res.deviation(op, case, observed, expected, sig=sig, n_variants=len(hap.edits), n_len_changing=hap.nlc,
                  lift_deviates=lift_dev, rtl_ok=rtl_ok, **kw)


def refused_deleted(o, exp):
    """an interval one of whose locations is deleted entirely cannot exist: EmptyLocationException is the answer; on a
    haplotype of ZERO bases (whole chromosome/chunk deleted) any documented refusal is accepted"""
    if o[0] != "exc":
        return False
    return o[1] == "EmptyLocationException" or (exp["alt"] == "" and lib.is_documented_exc(o[2]))


# ---- one interval -------------------------------------------------------------------------------------------
def build_interval(kind, blocks, strand, parent, cds=None, f0=0, primary=True):
    if kind == "feat":
        return lib.mk_feat(blocks, strand, parent, **dict(FEAT_META, is_primary_feature=primary))
    if kind == "tx":
        m = dict(TX_META, is_primary_tx=primary)
        if cds is None:
            return lib.mk_tx(blocks, strand, parent=parent, **m)
        cb = F.cds_blocks_for(blocks, strand, cds[0], cds[1])
        frames = F.consistent_frames_plus_order(cb, strand, f0)
        return lib.mk_tx(blocks, strand, cb, frames, parent, **m, **TX_CODING_META)
    if kind == "cds":
        return lib.mk_cds(blocks, strand, F.consistent_frames_plus_order(blocks, strand, f0), parent, **CDS_META)
    raise ValueError(kind)


def check_cds_part(res, hap, case, newcds, cb, strand, f0, a, pairs):
    """the CDS of an incorporated transcript, or an incorporated CDSInterval"""
    expC = expected_loc(hap, cb, strand)
    got = lib.outcome(read_interval, newcds, a)
    res.trans()
    want = expected_interval(expC, strand, a)
    if got[0] != "ok" or got[1] != want:
        dev(res, hap, "incorporate_variants", case, "cds-location", got[1], want, pairs)
        return
    if f0 and not first_bases_untouched(cb, strand, f0, hap.edits):
        res.note("iv-cds", "start-frame-bases-edited(not decided)")
        return
    # reading frame: 5' start frame preserved, frames describe one uninterrupted frame, in-frame sequence
    raw = [(b.start, b.end) for b in newcds.chromosome_location.blocks]
    fr = [f.value for f in newcds.frames]
    want_fr = F.consistent_frames_plus_order(raw, strand, f0)
    res.trans()
    if fr != want_fr:
        # classification aid: the frame of the LOWEST-coordinate block of the original CDS taken as the 5' start frame
        orig = F.consistent_frames_plus_order(cb, strand, f0)
        shape = fr == F.consistent_frames_plus_order(raw, strand, orig[0])
        dev(res, hap, "incorporate_variants", case, "cds-frames", {"blocks": [list(b) for b in raw], "frames": fr},
            {"blocks": [list(b) for b in raw], "frames": want_fr}, pairs, orig_frames=orig, orig_blocks=[list(b) for b in cb],
            started_with_lowest_block_frame=shape)
        return
    want_seq = cds_expected_seq(expC["seq"], f0)
    o = lib.outcome(lambda: str(newcds.extract_sequence()))
    res.trans()
    if not want_seq:
        res.note("iv-cds", "no-complete-codon")
        if o[0] == "ok" and o[1] != "":
            dev(res, hap, "incorporate_variants", case, "cds-inframe-seq", o[1], want_seq, pairs)
        elif o[0] == "exc" and not lib.is_documented_exc(o[2]):
            dev(res, hap, "incorporate_variants", case, "cds-inframe-internal-error", o[1], want_seq, pairs)
        return
    if o[0] != "ok" or o[1] != want_seq:
        dev(res, hap, "incorporate_variants", case, "cds-inframe-seq", o[1], want_seq, pairs)
    else:
        res.note("iv-cds", f"inframe-f{f0}")


def iv_case(res, hap, kind, blocks, strand, api, cds=None, f0=0):
    """incorporate_variants on one interval. kind: feat | tx | cds; cds=(c0,c1) transcript coordinates for coding tx"""
    a = hap.window[0] if hap.window else 0
    expE = expected_loc(hap, blocks, strand)
    if expE is None:
        return
    cb = None
    expC = None
    if kind == "tx" and cds is not None:
        cb = F.cds_blocks_for(blocks, strand, cds[0], cds[1])
    elif kind == "cds":
        cb = tuple(sorted(blocks))
    if cb is not None:
        if len(F.exons_5to3(cb, strand)[0]) < f0:
            return
        expC = expected_loc(hap, cb, strand)
        if expC is None:
            res.extra["iv_cds_inadmissible"] += 1
            return
    case = dict(leg="iv", kind=kind, N=hap.N, rot=hap.rot, edits=[list(e) for e in hap.edits], blocks=[list(b) for b in blocks],
                strand=strand, window=list(hap.window) if hap.window else None, api=api, cds=list(cds) if cds else None, f0=f0, noid=getattr(hap, "noid", False))
    obj = build_interval(kind, blocks, strand, hap.parent, cds, f0)
    before = meta(obj)
    target = hap.single if api == "single" else hap.coll
    o = lib.outcome(obj.incorporate_variants, target)
    res.trans()
    pairs = [(obj.chunk_relative_location, expE)]
    if kind == "tx" and cds is not None:
        pairs.append((obj.cds.chunk_relative_location, expC))
    inside = any(V.edit_class(blocks, e) == "inside" for e in hap.edits)
    if hap.nlc and (inside or len(hap.edits) > 1):
        res.nontriv((kind, hap.edits, blocks, strand, hap.window, cds, f0))
    deleted = expE["empty"] or (expC is not None and expC["empty"])
    if deleted:
        # an interval cannot be empty: the documented refusal is the answer
        if refused_deleted(o, expE):
            res.note("iv-" + kind, "deleted-refused")
        else:
            dev(res, hap, "incorporate_variants", case, "deleted-not-refused", o[1] if o[0] == "exc" else repr(o[1]),
                "EmptyLocationException", pairs)
        return
    if o[0] != "ok":
        dev(res, hap, "incorporate_variants", case, "raises-" + o[1], {"exc": o[1]}, expected_interval(expE, strand, a), pairs)
        return
    new = o[1]
    if kind == "cds":
        check_cds_part(res, hap, case, new, cb, strand, f0, a, pairs)
    else:
        got = lib.outcome(read_interval, new, a)
        res.trans()
        want = expected_interval(expE, strand, a)
        if got[0] != "ok" or got[1] != want:
            dev(res, hap, "incorporate_variants", case, "location-or-sequence", got[1], want, pairs)
            return
        res.note("iv-" + kind, ("chunk-" if hap.window else "chrom-") + f"{len(expE['blocks'])}-block")
        res.state((kind, expE["alt"], expE["blocks"], strand))
        if kind == "tx" and cds is not None:
            if new.cds is None:
                dev(res, hap, "incorporate_variants", case, "cds-lost", None, "CDS", pairs)
                return
            check_cds_part(res, hap, case, new.cds, cb, strand, f0, a, pairs)
    after = lib.outcome(meta, new)
    if after[0] != "ok" or after[1] != before or type(new) is not type(obj):
        dev(res, hap, "incorporate_variants", case, "metadata", after[1], before, pairs)
    if meta(obj) != before:
        dev(res, hap, "incorporate_variants", case, "operand-changed", meta(obj), before, pairs)


def cds_placements(ln, mode):
    """CDS = transcript coordinates [c0,c1). mode 'menu': 5'/3' ends at or one base inside the transcript ends;
    'all': every contiguous placement"""
    if mode == "all":
        return [(c0, c1) for c0 in range(ln) for c1 in range(c0 + 1, ln + 1)]
    out = []
    for c0 in (0, 1):
        for c1 in (ln, ln - 1):
            if c1 > c0 and (c0, c1) not in out:
                out.append((c0, c1))
    return out


def chunk_menu(N, lo, hi):
    """the tightest chunk window around [lo,hi) and the one a base wider on both sides (where the chromosome allows)"""
    out = [(lo, hi)]
    wide = (max(lo - 1, 0), min(hi + 1, N))
    if wide != (lo, hi):
        out.append(wide)
    return out


def run_iv(res, p, i, n):
    """windows: 'chrom' | 'menu' (chrom + tight/wide chunk) | 'all' (chrom + every chunk window containing interval and
    variants). On the chromosome every kind is run (feature through both APIs, non-coding transcript, CDS with every start
    frame, coding transcripts with the CDS placement menu); on chunks a reduced menu of kinds."""
    N, rot = p["N"], p.get("rot", 0)
    locs = list(W.locations(N, p["k"]))
    mode = p.get("placements", "menu")
    for idx, edits in enumerate(e for nv in p["nv"] for e in W.edit_sets(N, nv)):
        if idx % n != i:
            continue
        elo, ehi = edits[0][0], edits[-1][1]
        haps = {}
        for blocks, strand in locs:
            if not V.admissible(blocks, edits):
                res.extra["iv_inadmissible"] += 1
                continue
            lo, hi = min(elo, blocks[0][0]), max(ehi, blocks[-1][1])
            wins = [None]
            if p["windows"] == "all":
                wins += W.windows_containing(N, lo, hi)
            elif p["windows"] == "menu":
                wins += chunk_menu(N, lo, hi)
            ln = sum(e - s for s, e in blocks)
            places = cds_placements(ln, mode)
            for window in wins:
                if window not in haps:
                    haps[window] = C.Hap(N, rot, edits, window)
                hap = haps[window]
                iv_case(res, hap, "feat", blocks, strand, "collection")
                iv_case(res, hap, "tx", blocks, strand, "collection")
                if window is None:
                    # the same on a chromosome that has sequence but no identifier
                    if "noid" not in haps:
                        haps["noid"] = C.Hap(N, rot, edits, None, noid=True)
                    iv_case(res, haps["noid"], "feat", blocks, strand, "collection")
                    iv_case(res, haps["noid"], "tx", blocks, strand, "collection", cds=places[-1], f0=0)
                    if haps["noid"].single is not None:
                        iv_case(res, haps["noid"], "feat", blocks, strand, "single")
                    if hap.single is not None:
                        iv_case(res, hap, "feat", blocks, strand, "single")
                        iv_case(res, hap, "cds", blocks, strand, "single", f0=0)
                    for f0 in (0, 1, 2):
                        iv_case(res, hap, "cds", blocks, strand, "collection", f0=f0)
                    for cds in places:
                        iv_case(res, hap, "tx", blocks, strand, "collection", cds=cds, f0=0)
                else:
                    iv_case(res, hap, "cds", blocks, strand, "collection", f0=1)
                    iv_case(res, hap, "tx", blocks, strand, "collection", cds=places[-1], f0=0)
    res.sample({"leg": "iv", "kind": "tx", "N": N, "edits": [[1, 2, "TG"]], "blocks": [[0, 3], [4, 6]], "strand": "-", "cds": [1, 4]})


# ---- intervals cut by their own chunk, variants defined on ANOTHER (larger) chunk or on the chromosome ---------------
def ivx_case(res, hap, kind, blocks, strand, fwin, api="collection", cds=False):
    """The interval lives on the chunk window fwin that CUTS it (it only 'sees' its bases inside fwin: bases outside the
    chunk carry no sequence); hap is a haplotype defined on a strictly larger chunk window, or on the chromosome
    (hap.window None).  Oracle: the incorporated interval covers / spells the edit model applied to the reference bases
    of the interval that lie on ITS OWN chunk, expressed in the coordinate system of the variants."""
    fa, fb = fwin
    a = hap.window[0] if hap.window else 0
    visible = V.restrict(blocks, fa, fb)
    exp = V.lifted(hap.ref, visible, strand, hap.edits, hap.window)
    if exp is None:
        res.extra["ivx_inadmissible"] += 1
        return
    case = dict(leg="iv", cross=True, kind=kind, N=hap.N, rot=hap.rot, edits=[list(e) for e in hap.edits],
                blocks=[list(b) for b in blocks], strand=strand, fwin=list(fwin), window=list(hap.window) if hap.window else None,
                api=api, cds=bool(cds))
    fparent = lib.chunk_parent(hap.ref, fa, fb)
    if kind == "tx" and cds:
        obj = build_interval("tx", blocks, strand, fparent, cds=(0, sum(e - s for s, e in blocks)), f0=0)
    else:
        obj = build_interval(kind, blocks, strand, fparent)
    before = meta(obj)
    target = hap.single if api == "single" else hap.coll
    o = lib.outcome(obj.incorporate_variants, target)
    res.trans()
    pairs = [(obj.chunk_relative_location, exp)]
    res.nontriv(("ivx", kind, hap.edits, blocks, strand, fwin, hap.window, cds))
    where = "chunk" if hap.window else "chrom"
    if exp["empty"]:
        if refused_deleted(o, exp):
            res.note("ivx-" + kind, "deleted-refused")
        else:
            dev(res, hap, "incorporate_variants", case, "cross-deleted-not-refused", o[1] if o[0] == "exc" else repr(o[1]),
                "EmptyLocationException", pairs)
        return
    want = expected_interval(exp, strand, a)
    if o[0] != "ok":
        if hap.window is None and o[1] == "NoSuchAncestorException":
            # chunk-relative interval + variants defined on the whole chromosome: the lifted location is chromosome
            # level and the library refuses to rebuild a chunk-relative interval from it (documented exception of
            # from_chunk_relative_location). A refusal, not a wrong answer: accepted and counted.
            res.note("ivx-" + kind, "chromosome-variants-refused")
            return
        dev(res, hap, "incorporate_variants", case, f"cross-{where}-raises-" + o[1], {"exc": o[1]}, want, pairs)
        return
    new = o[1]
    got = lib.outcome(read_interval, new, a)
    res.trans()
    if got[0] != "ok" or got[1] != want:
        dev(res, hap, "incorporate_variants", case, f"cross-{where}-location-or-sequence", got[1], want, pairs)
        return
    res.note("ivx-" + kind, f"{where}-{len(exp['blocks'])}-block" + ("-coding" if cds else ""))
    res.state(("ivx", kind, exp["alt"], exp["blocks"], strand))
    after = lib.outcome(meta, new)
    if after[0] != "ok" or after[1] != before or type(new) is not type(obj):
        dev(res, hap, "incorporate_variants", case, "cross-metadata", after[1], before, pairs)


def cutting_windows(N, blocks):
    """chunk windows that cut the interval: at least one of its bases inside and at least one outside"""
    pos = [p for s, e in blocks for p in range(s, e)]
    out = []
    for fa in range(N):
        for fb in range(fa + 1, N + 1):
            n_in = sum(1 for p in pos if fa <= p < fb)
            if 0 < n_in < len(pos):
                out.append((fa, fb))
    return out


def run_ivx(res, p, i, n):
    """cross-chunk world: every edit set with AT MOST ONE length-changing variant (the registered sequential-shift
    finding cannot interfere) x every location x every chunk window cutting the location x variant parents: the
    chromosome, and strictly larger chunk windows containing the variants ('menu': the whole-chromosome chunk [0,N) and
    the window one base wider on each side; 'all': every strictly larger window)."""
    N, rot = p["N"], p.get("rot", 0)
    locs = list(W.locations(N, p["k"]))
    idx = -1
    for nv in p["nv"]:
        for edits in W.edit_sets(N, nv):
            if W.n_len_changing(edits) > 1:
                continue
            idx += 1
            if idx % n != i:
                continue
            elo, ehi = edits[0][0], edits[-1][1]
            haps = {}
            for blocks, strand in locs:
                for fwin in cutting_windows(N, blocks):
                    if not V.admissible(V.restrict(blocks, *fwin), edits):
                        res.extra["ivx_inadmissible"] += 1
                        continue
                    fa, fb = fwin
                    if p["vwindows"] == "all":
                        vwins = [w for w in W.windows_containing(N, min(fa, elo), max(fb, ehi)) if w != fwin]
                    else:
                        vwins = []
                        for w in ((0, N), (max(min(fa, elo) - 1, 0), min(max(fb, ehi) + 1, N))):
                            if w != fwin and w not in vwins:
                                vwins.append(w)
                    for vwin in [None] + vwins:
                        if vwin not in haps:
                            haps[vwin] = C.Hap(N, rot, edits, vwin)
                        hap = haps[vwin]
                        ivx_case(res, hap, "feat", blocks, strand, fwin)
                        if vwin is None and p.get("chrom_kinds", "feat") == "feat":
                            continue
                        ivx_case(res, hap, "tx", blocks, strand, fwin)
                        ivx_case(res, hap, "cds", blocks, strand, fwin)
                        if hap.single is not None:
                            ivx_case(res, hap, "feat", blocks, strand, fwin, api="single")
                        else:
                            ivx_case(res, hap, "tx", blocks, strand, fwin, cds=True)
    res.sample({"leg": "iv", "cross": True, "kind": "feat", "N": N, "edits": [[2, 3, "TG"]], "blocks": [[0, 4]], "strand": "+",
                "fwin": [1, 4], "window": [0, N]})


# ---- aggregates ---------------------------------------------------------------------------------------------------
def read_children(children, a):
    return [read_interval(c, a) for c in children]


def agg_case(res, hap, l1, l2):
    """l1, l2 = (blocks, strand). Gene of two transcripts, feature collection of two features, annotation collection of
    gene(tx l1) + collection(feature l2): incorporate_variants; then alternative_haplotype_mapping."""
    a = hap.window[0] if hap.window else 0
    e1, e2 = expected_loc(hap, *l1), expected_loc(hap, *l2)
    case = dict(leg="agg", N=hap.N, rot=hap.rot, edits=[list(e) for e in hap.edits], window=list(hap.window) if hap.window else None,
                l1=[[list(b) for b in l1[0]], l1[1]], l2=[[list(b) for b in l2[0]], l2[1]])
    par = hap.parent
    if e1 is not None and e2 is not None:
        deleted = e1["empty"] or e2["empty"]
        want = None if deleted else [expected_interval(e1, l1[1], a), expected_interval(e2, l2[1], a)]
        res.nontriv(("agg", hap.edits, l1, l2, hap.window))

        def mk_gene():
            return GeneInterval([build_interval("tx", l1[0], l1[1], par), build_interval("tx", l2[0], l2[1], par, primary=False)],
                                parent_or_seq_chunk_parent=par, **GENE_META)

        def mk_fc():
            return FeatureIntervalCollection([build_interval("feat", l1[0], l1[1], par), build_interval("feat", l2[0], l2[1], par, primary=False)],
                                             parent_or_seq_chunk_parent=par, **FC_META)

        def mk_ann():
            g = GeneInterval([build_interval("tx", l1[0], l1[1], par)], parent_or_seq_chunk_parent=par, **GENE_META)
            fc = FeatureIntervalCollection([build_interval("feat", l2[0], l2[1], par)], parent_or_seq_chunk_parent=par, **FC_META)
            return AnnotationCollection([fc], [g], name="ann", sequence_name="chrV", qualifiers={"q": ["z"]}, parent_or_seq_chunk_parent=par)

        def leaves(kind, new):
            if kind == "gene":
                return list(new.transcripts)
            if kind == "fcoll":
                return list(new.feature_intervals)
            return list(new.genes[0].transcripts) + list(new.feature_collections[0].feature_intervals)

        for kind, mk in (("gene", mk_gene), ("fcoll", mk_fc), ("anncoll", mk_ann)):
            c = dict(case, kind=kind)
            obj = mk()
            pairs = [(lib.mk_loc(l1[0], l1[1]), e1), (lib.mk_loc(l2[0], l2[1]), e2)]
            before = meta(obj) if kind != "anncoll" else None
            o = lib.outcome(obj.incorporate_variants, hap.coll)
            res.trans()
            if deleted:
                if refused_deleted(o, e1):
                    res.note("agg-" + kind, "deleted-refused")
                else:
                    dev(res, hap, "incorporate_variants", c, "deleted-not-refused", o[1] if o[0] == "exc" else repr(o[1]), "EmptyLocationException", pairs)
                continue
            if o[0] != "ok":
                dev(res, hap, "incorporate_variants", c, "raises-" + o[1], {"exc": o[1]}, want, pairs)
                continue
            new = o[1]
            got = lib.outcome(lambda: read_children(leaves(kind, new), a))
            res.trans()
            if got[0] != "ok" or got[1] != want:
                dev(res, hap, "incorporate_variants", c, "children", got[1], want, pairs)
                continue
            res.note("agg-" + kind, "chunk" if hap.window else "chrom")
            span = [min(w["chrom_blocks"][0][0] for w in want), max(w["chrom_blocks"][-1][1] for w in want)]
            if kind != "anncoll":
                if [new.start, new.end] != span:
                    dev(res, hap, "incorporate_variants", c, "span", [new.start, new.end], span, pairs)
                if meta(new) != before or type(new) is not type(obj):
                    dev(res, hap, "incorporate_variants", c, "metadata", meta(new), before, pairs)
            else:
                gm = (new.name, new.sequence_name, new._export_qualifiers_to_list(), meta(new.genes[0]), meta(new.feature_collections[0]))
                wm = (obj.name, obj.sequence_name, obj._export_qualifiers_to_list(), meta(obj.genes[0]), meta(obj.feature_collections[0]))
                if gm != wm:
                    dev(res, hap, "incorporate_variants", c, "metadata", repr(gm), repr(wm), pairs)
    hapmap_case(res, hap, l1, l2, case)


def spans_overlap(s1, e1, s2, e2):
    return s1 < e2 and s2 < e1


def hapmap_case(res, hap, l1, l2, case):
    """AnnotationCollection(gene(tx l1), collection(feature l2), variant_collections=...).alternative_haplotype_mapping.
    Variant collections: the whole edit set as one haplotype, and (for >= 2 edits) every edit as its own haplotype."""
    a = hap.window[0] if hap.window else 0
    par = hap.parent
    groupings = [("one", [hap.edits])]
    if len(hap.edits) > 1:
        groupings.append(("each", [(e,) for e in hap.edits]))
    children = [("gene", l1), ("fcoll", l2)]
    for gname, groups in groupings:
        c = dict(case, kind="hapmap", grouping=gname)
        want = {}
        decided = True
        deleted = False
        subhaps = []
        for gi, g in enumerate(groups):
            h = hap if g == hap.edits else C.Hap(hap.N, hap.rot, g, hap.window)
            subhaps.append(h)
            vs, ve = min(s for s, e, _ in g), max(e for s, e, _ in g)
            members = []
            for ck, (bl, st) in children:
                if spans_overlap(bl[0][0], bl[-1][1], vs, ve):
                    exp = V.lifted(h.ref, bl, st, g, h.window)
                    if exp is None:
                        decided = False
                    elif exp["empty"]:
                        deleted = True
                    else:
                        members.append([ck, expected_interval(exp, st, a)])
            if members:
                want[gi] = members
        if not decided:
            res.extra["hapmap_inadmissible"] += 1
            continue

        def mk():
            g = GeneInterval([build_interval("tx", l1[0], l1[1], par)], parent_or_seq_chunk_parent=par, **GENE_META)
            fc = FeatureIntervalCollection([build_interval("feat", l2[0], l2[1], par)], parent_or_seq_chunk_parent=par, **FC_META)
            vcs = [h.coll for h in subhaps]
            return AnnotationCollection([fc], [g], vcs, name="ann", sequence_name="chrV", parent_or_seq_chunk_parent=par), vcs

        o = lib.outcome(mk)
        res.trans()
        big = max(subhaps, key=lambda h: len(h.edits))
        pairs = []
        if big is hap:
            pairs = [(lib.mk_loc(bl, st), V.lifted(hap.ref, bl, st, hap.edits, hap.window)) for _, (bl, st) in children
                     if spans_overlap(bl[0][0], bl[-1][1], hap.edits[0][0], hap.edits[-1][1])]
        if deleted:
            if refused_deleted(o, {"alt": V.apply_edits(hap.ref[a:hap.window[1]] if hap.window else hap.ref, V.shift_edits(hap.edits, -a))}):
                res.note("hapmap", "deleted-refused")
            else:
                dev(res, big, "alternative_haplotype_mapping", c, "deleted-not-refused", o[1] if o[0] == "exc" else "built", "EmptyLocationException", pairs)
            continue
        if o[0] != "ok":
            dev(res, big, "alternative_haplotype_mapping", c, "raises-" + o[1], {"exc": o[1]}, want, pairs)
            continue
        ann, vcs = o[1]
        mp = ann.alternative_haplotype_mapping
        got = {}
        try:
            for gi, vc in enumerate(vcs):
                if mp is not None and vc.guid in mp:
                    got[gi] = []
                    for child in mp[vc.guid]:
                        if isinstance(child, GeneInterval):
                            got[gi].append(["gene", read_interval(child.transcripts[0], a)])
                        else:
                            got[gi].append(["fcoll", read_interval(child.feature_intervals[0], a)])
            extra_keys = 0 if mp is None else len(set(mp) - {vc.guid for vc in vcs})
        except Exception as e:  # noqa
            got, extra_keys = {"exc": type(e).__name__}, 0
        res.trans()
        if got != want or extra_keys:
            dev(res, big, "alternative_haplotype_mapping", c, "mapping", got, want, pairs)
        else:
            res.note("hapmap", f"{gname}-{sum(len(v) for v in want.values())}-members")
            res.state(("hapmap", repr(want)))


def run_agg(res, p, i, n):
    N, rot = p["N"], p.get("rot", 0)
    locs = list(W.locations(N, p["k"]))
    for idx, edits in enumerate(e for nv in p["nv"] for e in W.edit_sets(N, nv)):
        if idx % n != i:
            continue
        elo, ehi = edits[0][0], edits[-1][1]
        haps = {}
        for l1, l2 in itertools.product(locs, repeat=2):
            lo, hi = min(elo, l1[0][0][0], l2[0][0][0]), max(ehi, l1[0][-1][1], l2[0][-1][1])
            for window in [None] + W.windows_containing(N, lo, hi):
                if window not in haps:
                    haps[window] = C.Hap(N, rot, edits, window)
                agg_case(res, haps[window], l1, l2)
    res.sample({"leg": "agg", "N": N, "edits": [[1, 2, "TG"], [3, 4, ""]], "l1": [[[0, 3]], "+"], "l2": [[[2, 5]], "-"]})


def replay(res, case):
    edits = tuple((s, e, a) for s, e, a in case["edits"])
    window = tuple(case["window"]) if case.get("window") else None
    hap = C.Hap(case["N"], case["rot"], edits, window, noid=bool(case.get("noid")))
    if case["leg"] == "iv" and case.get("cross"):
        ivx_case(res, hap, case["kind"], tuple(tuple(b) for b in case["blocks"]), case["strand"], tuple(case["fwin"]),
                 api=case["api"], cds=case.get("cds", False))
    elif case["leg"] == "iv":
        iv_case(res, hap, case["kind"], tuple(tuple(b) for b in case["blocks"]), case["strand"], case["api"],
                cds=tuple(case["cds"]) if case.get("cds") else None, f0=case.get("f0", 0))
    else:
        l1 = (tuple(tuple(b) for b in case["l1"][0]), case["l1"][1])
        l2 = (tuple(tuple(b) for b in case["l2"][0]), case["l2"][1])
        agg_case(res, hap, l1, l2)
