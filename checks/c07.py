"""C07 - a chunk-relative view is the chromosome view restricted to the chunk."""
import itertools

from vlib import lib, worlds
from vlib.model import loc as M
from vlib.model import frame as F
from vlib.runner import ShardResult

from inscripta.biocantor.gene.gene import GeneInterval
from inscripta.biocantor.gene.feature import FeatureIntervalCollection
from inscripta.biocantor.gene.collections import AnnotationCollection
from inscripta.biocantor.gene.codon import TranslationTable
from inscripta.biocantor.location.location_impl import _EmptyLocation

PROPERTY = "C07"
TITLE = "A chunk-relative view is the chromosome view restricted to the chunk"
RULE = (
    "twin pairs (built on the whole chromosome / built on a chunk) of FeatureInterval, TranscriptInterval (non-coding and "
    "every contiguous CDS placement with start frames 0,1,2), CDSInterval, GeneInterval, FeatureIntervalCollection and "
    "AnnotationCollection on every disjoint exon layout x strand x EVERY chunk window [a,b) (cutting exons, introns, the "
    "CDS 5'/3' end, or missing the interval). Non-trivial = the window cuts the interval or misses it."
)
ASSUMPTIONS = [
    "chunk parents are built by the library's own seq_chunk_to_parent, on the plus and (features, non-coding and full-length-CDS transcripts) on the minus strand",
    "expected codons/sequences come from the reading-frame model and the designed genome",
    "chunk_relative_frames are compared only for one uninterrupted reading frame (the library documents that frameshift information is lost on chunks)",
]
WORLD = {"quick": dict(N=6, k=2, Ng=6), "thorough": dict(N=9, k=3, Ng=8)}
NSH = 64
SCALE_KS = {"quick": (5, 12), "thorough": (4, 5, 6, 8, 12, 20, 33)}
GENOME = "ATGACTTGATAGGCATGCCTAAGT"


def world_description(tier):
    w = WORLD[tier]
    return (f"layouts N={w['N']} k<={w['k']} x strands x CDS placements x f0 in 0..2 x all windows; gene/collection twins on N={w['Ng']}; scale family: "
            f"transcripts of {SCALE_KS[tier]} exons, CDS placements and chunk windows on ladders of exon boundaries; chunk questions asked BEFORE "
            f"chromosome questions on one object; chromosome and chunk collections built from the SAME child objects")


def shards(tier, seed):
    return ([{"tier": tier, "part": "tx", "i": i} for i in range(NSH)] + [{"tier": tier, "part": "coll", "i": i} for i in range(16)]
            + [{"tier": tier, "part": "scale", "i": i} for i in range(32)])


def codon_pos(locs):
    return [tuple(M.P(lib.loc_blocks(c), lib.loc_strand(c))) for c in locs]


def lift_back(loc, a, b=None, cs="+"):
    """chromosome positions (5'->3') of a chunk-relative location on a chunk [a,b) placed on strand cs"""
    if type(loc) is _EmptyLocation or len(loc) == 0:
        return []
    if cs == "+":
        return [p + a for p in M.P(lib.loc_blocks(loc), lib.loc_strand(loc))]
    return [b - 1 - p for p in M.P(lib.loc_blocks(loc), lib.loc_strand(loc))]


def mk_chunk(genome, a, b, cs):
    if cs == "+":
        return lib.chunk_parent(genome, a, b)
    from inscripta.biocantor.io.parser import seq_chunk_to_parent

    text = F.splice(genome, list(range(b - 1, a - 1, -1)), "-")
    return seq_chunk_to_parent(text, "chrV", a, b, strand=lib.STRAND["-"])


def cmp(res, name, case, o, exp, sig=None, **kw):
    res.trans()
    if o[0] != "ok" or o[1] != exp:
        res.deviation(name, dict(op=name, **case), o[1], exp, sig=sig or name, **kw)
        return False
    return True


def check_tx(res, N, exons, strand, cds, f0, a, b, cs="+"):
    genome = GENOME[:N] if N <= len(GENOME) else (GENOME * (N // len(GENOME) + 1))[:N]
    chrom = lib.chrom_parent(genome)
    chunk = mk_chunk(genome, a, b, cs)
    case = dict(kind="tx", N=N, exons=[list(x) for x in exons], strand=strand, cds=list(cds) if cds else None, f0=f0, a=a, b=b, cs=cs)
    kw = dict(sequence_name="chrV", transcript_id="t1", transcript_symbol="sym", qualifiers={"k": ["v2", "v1"]})
    if cds:
        cb = F.cds_blocks_for(exons, strand, cds[0], cds[1])
        ex5 = F.exons_5to3(cb, strand)
        if len(ex5[0]) < f0:
            return
        frames = F.consistent_frames_plus_order(cb, strand, f0)
        mk = lambda par: lib.mk_tx(exons, strand, cb, frames, par, **kw)
    else:
        mk = lambda par: lib.mk_tx(exons, strand, parent=par, **kw)
    t0 = lib.outcome(mk, chrom)
    t1 = lib.outcome(mk, chunk)
    res.trans(2)
    if t0[0] != "ok":
        return
    if t1[0] != "ok":
        res.deviation("constructor", dict(op="ctor", **case), t1[1], "object", sig="chunk-ctor-raises")
        return
    T0, T1 = t0[1], t1[1]
    Ptx = F.tx_positions(exons, strand)
    inside = [p for p in Ptx if a <= p < b]
    cuts = len(inside) != len(Ptx)
    res.state(("tx", exons, strand, cds, f0, a, b, cs))
    if cuts or cs == "-":
        res.nontriv(("tx", exons, strand, cds, f0, a, b, cs))
    res.note("tx", "missed" if not inside else ("cut" if cuts else "whole"))
    # ---- chromosome-level answers identical between the twins ---------------------------------------------------
    for name, fn in (
        ("to_dict", lambda t: t.to_dict()),
        ("guid", lambda t: str(t.guid)),
        ("start_end", lambda t: (t.start, t.end)),
        ("strand", lambda t: t.strand.name),
        ("chromosome_location", lambda t: (lib.loc_blocks(t.chromosome_location), lib.loc_strand(t.chromosome_location))),
        ("blocks", lambda t: [(x.start, x.end) for x in t.blocks]),
        ("len", lambda t: len(t)),
        ("is_coding", lambda t: t.is_coding),
        ("chromosome_gaps", lambda t: lib.loc_blocks(t.chromosome_gaps_location)),
    ):
        o0, o1 = lib.outcome(fn, T0), lib.outcome(fn, T1)
        res.trans()
        if o0[0] != "ok" or o1[0] != "ok" or o0[1] != o1[1]:
            res.deviation(name, dict(op=name, **case), o1[1], o0[1], sig="twin-" + name)
    if (lib.loc_blocks(T1.chromosome_location), lib.loc_strand(T1.chromosome_location)) != (tuple(sorted(exons)), strand):
        res.deviation("chromosome_location", dict(op="chromosome_location", **case), lib.canon_loc(T1.chromosome_location), [exons, strand], sig="chrom-location")
    # ---- chunk-relative location lifts back to the part inside the window ------------------------------------------
    o = lib.outcome(lambda: T1.chunk_relative_location)
    res.trans()
    if o[0] != "ok":
        res.deviation("chunk_relative_location", dict(op="chunk_relative_location", **case), o[1], inside, sig="chunk-location-raises")
        return
    CL = o[1]
    if lift_back(CL, a, b, cs) != inside or (inside and lib.loc_strand(CL) != M.strand_rel(strand, cs)):
        res.deviation("chunk_relative_location", dict(op="chunk_relative_location", **case), lift_back(CL, a, b, cs), inside, sig="chunk-location")
        return
    # the chunk-relative exports are values: asked a second time, the same object gives the same dictionary / BED line / rows
    for name, fn in (("to_dict(chunk)", lambda: T1.to_dict(chromosome_relative_coordinates=False)),
                     ("to_bed12(chunk)", lambda: str(T1.to_bed12(chromosome_relative_coordinates=False))),
                     ("to_gff(chunk)", lambda: [str(r) for r in T1.to_gff(chromosome_relative_coordinates=False)])):
        oa, ob = lib.outcome(fn), lib.outcome(fn)
        res.trans(2)
        if oa[0] != ob[0] or (oa[0] == "ok" and oa[1] != ob[1]) or (oa[0] == "exc" and oa[1] != ob[1]):
            res.deviation(name, dict(op=name + "-twice", **case), ob[1], oa[1], sig="chunk-export-second-time-differs")
    # the third route to a chunk view: the whole-chromosome object moved onto the chunk gives the chunk twin
    oL = lib.outcome(T0.liftover_to_parent_or_seq_chunk_parent, chunk)
    res.trans()
    if oL[0] != "ok":
        res.deviation("liftover_to_parent_or_seq_chunk_parent", dict(op="lift-route", **case), oL[1], inside, sig="lift-route-raises")
    else:
        TL = oL[1]
        oc = lib.outcome(lambda: TL.chunk_relative_location)
        if oc[0] != "ok" or lift_back(oc[1], a, b, cs) != inside or lib.outcome(TL.to_dict)[1] != lib.outcome(T1.to_dict)[1]:
            res.deviation("liftover_to_parent_or_seq_chunk_parent", dict(op="lift-route", **case), lift_back(oc[1], a, b, cs) if oc[0] == "ok" else oc[1], inside, sig="lift-route-differs")
        elif inside and lib.outcome(lambda: str(TL.get_spliced_sequence()))[1] != F.splice(genome, inside, strand):
            res.deviation("liftover_to_parent_or_seq_chunk_parent", dict(op="lift-route-seq", **case), lib.outcome(lambda: str(TL.get_spliced_sequence()))[1], F.splice(genome, inside, strand), sig="lift-route-sequence")
    if inside:
        o = lib.outcome(lambda: M.P(lib.loc_blocks(T1.lift_over_to_first_ancestor_of_type("chromosome")), strand))
        cmp(res, "lift_over_to_first_ancestor_of_type", case, o, inside, "chunk-liftback")
        cmp(res, "get_spliced_sequence", case, lib.outcome(lambda: str(T1.get_spliced_sequence())), F.splice(genome, inside, strand), "chunk-spliced-seq")
        lo, hi = min(inside), max(inside) + 1
        if cs == "+":
            # ("positive strand" of a minus-strand chunk is not defined by any documentation: plus chunks only)
            cmp(res, "get_reference_sequence", case, lib.outcome(lambda: str(T1.get_reference_sequence())), genome[lo:hi], "chunk-reference-seq")
            gen = F.splice(genome, list(range(lo, hi)) if strand == "+" else list(range(hi - 1, lo - 1, -1)), strand)
            cmp(res, "get_genomic_sequence", case, lib.outcome(lambda: str(T1.get_genomic_sequence())), gen, "chunk-genomic-seq")
        ecs = (lo - a, hi - a) if cs == "+" else (b - hi, b - lo)
        cmp(res, "chunk_relative_start_end", case, lib.outcome(lambda: (T1.chunk_relative_start, T1.chunk_relative_end)), ecs, "chunk-start-end")
    # ---- CDS ---------------------------------------------------------------------------------------------------
    if not cds:
        return
    # ---- UTRs: documented to be chunk-relative on a chunk; lifted back they are the chromosome twin's UTR restricted to the
    # window (5'->3' order; nothing, i.e. an empty location, when the UTR has no base in the chunk)
    Pcds_ = Ptx[cds[0] : cds[1]]
    for name, full in (("get_5p_interval", Ptx[: cds[0]]), ("get_3p_interval", Ptx[cds[1] :])):
        exp_u = [p for p in full if a <= p < b]
        T5 = mk(chunk)
        o = lib.outcome(getattr(T5, name))
        res.trans()
        res.note(name, ("cut" if len(exp_u) != len(full) else "whole") if exp_u else "nothing-inside")
        ucase = dict(op=name, utr_cut=len(exp_u) != len(full), cds_cut=any(not (a <= p < b) for p in Pcds_), tx_cut=cuts, **case)
        if o[0] != "ok":
            if not inside and lib.is_documented_exc(o[2]):
                continue  # the transcript has no base in the chunk at all
            res.deviation(name, ucase, o[1], exp_u, sig=f"chunk-{name}-raises")
        elif lift_back(o[1], a, b, cs) != exp_u:
            res.deviation(name, ucase, lift_back(o[1], a, b, cs), exp_u, sig=f"chunk-{name}")
    allc = F.codons(F.exons_5to3(cb, strand), F.frames_5to3(frames, strand))
    inc = F.codons_in_window(allc, a, b)
    n_cds_inside = sum(1 for p in F.tx_positions(cb, strand) if a <= p < b)
    ccase = dict(cds_bases_inside=n_cds_inside, trim5=sum(1 for p in F.tx_positions(cb, strand) if not (a <= p < b) and ((p < a) if strand == "+" else (p >= b))), single=len(cb) == 1, **case)
    o0 = lib.outcome(lambda: codon_pos(T0.cds.chromosome_codon_locations))
    o1 = lib.outcome(lambda: codon_pos(T1.cds.chromosome_codon_locations))
    res.trans(2)
    if allc:
        if o0[0] != "ok" or o0[1] != allc:
            res.deviation("chromosome_codon_locations", dict(op="chromosome_codon_locations", **case), o0[1], [list(c) for c in allc], sig="chrom-twin-codons")
        if o1[0] != "ok" or o1[1] != allc:
            res.deviation("chromosome_codon_locations", dict(op="chromosome_codon_locations-chunk-twin", **case), o1[1], [list(c) for c in allc], sig="chunk-twin-chromosome-codons")
        cmp(res, "num_codons", case, lib.outcome(lambda: T1.cds.num_codons), len(allc), "chunk-twin-num-codons")
    for name, fn, e in (("cds_start", lambda: T1.cds_start, cb[0][0]), ("cds_end", lambda: T1.cds_end, cb[-1][1]), ("cds_size", lambda: T1.cds_size, sum(e - s for s, e in cb))):
        cmp(res, name, case, lib.outcome(fn), e, "chunk-twin-cds-bounds")
    # the chunk-relative CDS size is the number of CDS bases the chunk holds ("can shrink if the Location is a slice")
    cmp(res, "chunk_relative_cds_size", case, lib.outcome(lambda: T1.chunk_relative_cds_size), n_cds_inside, "chunk-cds-size")
    # chunk-relative codons: exactly the chromosome codons fully inside the window, shifted by -a
    T2 = mk(chunk)  # fresh object: history independence is C10's business
    o = lib.outcome(lambda: codon_pos(T2.cds.chunk_relative_codon_locations))
    res.trans()
    expc = [tuple((p - a) if cs == "+" else (b - 1 - p) for p in c) for c in inc]
    if not inc:
        res.note("chunk-codons", "zero")
        if o[0] == "ok" and o[1]:
            res.deviation("chunk_relative_codon_locations", dict(op="chunk_relative_codon_locations", **ccase), o[1], [], sig="chunk-codons-extra")
    else:
        res.note("chunk-codons", "some")
        if o[0] != "ok":
            res.deviation("chunk_relative_codon_locations", dict(op="chunk_relative_codon_locations", **ccase), o[1], [list(c) for c in expc], sig="chunk-codons-raises")
        elif o[1] != expc:
            res.deviation("chunk_relative_codon_locations", dict(op="chunk_relative_codon_locations", **ccase), [list(c) for c in o[1]], [list(c) for c in expc], sig="chunk-codons")
        T3 = mk(chunk)
        eseq = "".join(F.splice(genome, c, strand) for c in inc)
        o = lib.outcome(lambda: str(T3.cds.extract_sequence()))
        res.trans()
        if o[0] != "ok" or o[1] != eseq:
            res.deviation("cds.extract_sequence", dict(op="cds.extract_sequence", **ccase), o[1], eseq, sig="chunk-cds-seq")
        T4 = mk(chunk)
        o = lib.outcome(lambda: str(T4.cds.translate()))
        res.trans()
        try:
            ep = F.translate([F.splice(genome, c, strand) for c in inc], 0, False, True)
        except ValueError:
            ep = None
        if ep is not None and (o[0] != "ok" or o[1] != ep):
            res.deviation("cds.translate", dict(op="cds.translate", **ccase), o[1], ep, sig="chunk-translate")
    # the chromosome-level codon answers do not depend on what the object was asked before: a fresh chunk twin that is
    # asked for its chunk-relative codons FIRST still counts and places every chromosome codon
    if allc:
        T6 = mk(chunk)
        lib.outcome(lambda: T6.cds.chunk_relative_codon_locations)
        lib.outcome(lambda: T6.cds.num_chunk_relative_codons)
        for name, fn, e in (("num_codons", lambda: T6.cds.num_codons, len(allc)),
                            ("chromosome_codon_locations", lambda: codon_pos(T6.cds.chromosome_codon_locations), allc),
                            ("scan_chromosome_codon_locations", lambda: codon_pos(list(T6.cds.scan_chromosome_codon_locations())), allc)):
            o = lib.outcome(fn)
            res.trans()
            if o[0] != "ok" or o[1] != e:
                res.deviation(name, dict(op=name + "-after-chunk-codons", **ccase), o[1], [list(c) for c in e] if isinstance(e, list) else e, sig="chromosome-codons-after-chunk-codons")
    # chunk_relative_frames describe that reading frame (only meaningful when the CDS has a base in the chunk)
    cds_inside = [p for p in F.tx_positions(cb, strand) if a <= p < b]
    first_chunk_block_len = 0
    if cds_inside:
        # length of the 5'-most stretch of the CDS inside the chunk that lies in one exon
        first_exon = next(e for e in F.exons_5to3(cb, strand) if any(a <= p < b for p in e))
        first_chunk_block_len = sum(1 for p in first_exon if a <= p < b)
    if cds_inside:
        o = lib.outcome(lambda: ([f.value for f in T1.cds.chunk_relative_frames], lib.loc_blocks(T1.cds.chunk_relative_location)))
        res.trans()
        if o[0] != "ok":
            res.deviation("chunk_relative_frames", dict(op="chunk_relative_frames", **ccase), o[1], "frames", sig="chunk-frames-raises")
        else:
            fr, cbl = o[1]
            rs = M.strand_rel(strand, cs)  # strand of the CDS relative to the chunk
            fr5 = F.frames_5to3(fr, rs)
            if fr5 and fr5[0] > first_chunk_block_len:
                # the model is only defined when the start offset fits into the first block (1-2 bp leading block)
                res.note("chunk-frames", "offset-exceeds-first-block")
            elif len(fr) != len(cbl):
                res.deviation("chunk_relative_frames", dict(op="chunk_relative_frames", **ccase), fr, "one per chunk block", sig="chunk-frames-count")
            else:
                mc = F.codons(F.exons_5to3(cbl, rs), F.frames_5to3(fr, rs))
                # the frames must describe the reading frame of the chromosome codons: every codon they induce inside the
                # chunk is a chromosome codon, and every chromosome codon fully inside the chunk is induced
                if [tuple((p + a) if cs == "+" else (b - 1 - p) for p in c) for c in mc] != inc:
                    res.deviation("chunk_relative_frames", dict(op="chunk_relative_frames", **ccase), [fr, [list(c) for c in mc]], [list(c) for c in expc], sig="chunk-frames")
    else:
        # CDS sliced out entirely: chromosome-level CDS answers unchanged (checked above), transcript still coding
        res.note("chunk-codons", "cds-sliced-out")


def check_feature(res, N, exons, strand, a, b, cs="+"):
    genome = GENOME[:N] if N <= len(GENOME) else (GENOME * (N // len(GENOME) + 1))[:N]
    chrom, chunk = lib.chrom_parent(genome), mk_chunk(genome, a, b, cs)
    case = dict(kind="feat", N=N, exons=[list(x) for x in exons], strand=strand, a=a, b=b, cs=cs)
    kw = dict(sequence_name="chrV", feature_name="f", feature_types=["x", "a"], qualifiers={"q": ["2", "1"]})
    F0 = lib.mk_feat(exons, strand, chrom, **kw)
    o = lib.outcome(lib.mk_feat, exons, strand, chunk, **kw)
    res.trans()
    if o[0] != "ok":
        res.deviation("constructor", dict(op="ctor", **case), o[1], "object", sig="chunk-ctor-raises")
        return
    F1 = o[1]
    Pm = M.P(exons, strand)
    inside = [p for p in Pm if a <= p < b]
    res.state(("feat", exons, strand, a, b, cs))
    if len(inside) != len(Pm) or cs == "-":
        res.nontriv(("feat", exons, strand, a, b, cs))
    for name, fn in (("to_dict", lambda t: t.to_dict()), ("guid", lambda t: str(t.guid)), ("blocks", lambda t: [(x.start, x.end) for x in t.blocks]), ("strand", lambda t: t.strand.name)):
        o0, o1 = lib.outcome(fn, F0), lib.outcome(fn, F1)
        res.trans()
        if o0[0] != "ok" or o1[0] != "ok" or o0[1] != o1[1]:
            res.deviation(name, dict(op=name, **case), o1[1], o0[1], sig="twin-" + name)
    o = lib.outcome(lambda: lift_back(F1.chunk_relative_location, a, b, cs))
    res.trans()
    if o[0] != "ok" or o[1] != inside:
        res.deviation("chunk_relative_location", dict(op="chunk_relative_location", **case), o[1], inside, sig="chunk-location")
    elif inside:
        cmp(res, "get_spliced_sequence", case, lib.outcome(lambda: str(F1.get_spliced_sequence())), F.splice(genome, inside, strand), "chunk-spliced-seq")
        # the fourth route to a chunk view: an interval built FROM its chunk-relative location (on either strand of the chunk) is
        # the part of the chromosome interval inside the chunk: same blocks, same CHROMOSOME strand, same bases
        from inscripta.biocantor.gene.feature import FeatureInterval as _FI

        o4 = lib.outcome(lambda: _FI.from_chunk_relative_location(F1.chunk_relative_location, sequence_name="chrV", feature_name="f"))
        res.trans()
        exp4 = ([list(r) for r in M.runs(M.S(tuple((p_, p_ + 1) for p_ in inside)))], strand)
        if o4[0] != "ok":
            res.deviation("from_chunk_relative_location", dict(op="from_chunk_relative_location", **case), o4[1], exp4, sig="from-chunk-location-raises")
        else:
            got4 = ([[x.start, x.end] for x in o4[1].blocks], lib.SYM[o4[1].strand])
            if got4 != (exp4[0], exp4[1]):
                res.deviation("from_chunk_relative_location", dict(op="from_chunk_relative_location", **case), list(got4), list(exp4), sig="from-chunk-location-differs")


def check_collections(res, N, exons, strand, a, b):
    """gene / feature collection / annotation collection twins"""
    genome = GENOME[:N] if N <= len(GENOME) else (GENOME * (N // len(GENOME) + 1))[:N]
    chrom, chunk = lib.chrom_parent(genome), lib.chunk_parent(genome, a, b)
    case = dict(kind="coll", N=N, exons=[list(x) for x in exons], strand=strand, a=a, b=b)
    ln = sum(e - s for s, e in exons)
    cb = F.cds_blocks_for(exons, strand, 0, ln)
    frames = F.consistent_frames_plus_order(cb, strand, 0)
    first = (exons[0],)

    def build(par):
        tx1 = lib.mk_tx(exons, strand, cb, frames, par, sequence_name="chrV", transcript_id="t1")
        tx2 = lib.mk_tx(first, strand, parent=par, sequence_name="chrV", transcript_id="t2")
        gene = GeneInterval([tx1, tx2], gene_id="g1", gene_symbol="G", sequence_name="chrV", parent_or_seq_chunk_parent=par)
        f1 = lib.mk_feat(exons, strand, par, sequence_name="chrV", feature_name="f1", feature_types=["a"])
        fc = FeatureIntervalCollection([f1], feature_collection_name="fc", sequence_name="chrV", parent_or_seq_chunk_parent=par)
        return gene, fc

    o0 = lib.outcome(build, chrom)
    o1 = lib.outcome(build, chunk)
    res.trans(2)
    if o0[0] != "ok":
        return
    if o1[0] != "ok":
        res.deviation("constructor", dict(op="ctor", **case), o1[1], "objects", sig="chunk-ctor-raises")
        return
    res.state(("coll", exons, strand, a, b))
    lo, hi = exons[0][0], exons[-1][1]
    if not (a <= lo and hi <= b):
        res.nontriv(("coll", exons, strand, a, b))
    for cname, x0, x1 in (("gene", o0[1][0], o1[1][0]), ("feature_collection", o0[1][1], o1[1][1])):
        for name, fn in (
            ("to_dict-minus-guid", lambda t: {k: v for k, v in t.to_dict().items() if not k.endswith("_guid") or k in ("sequence_guid",)}),
            ("children-dicts", lambda t: [c.to_dict() for c in t.iter_children()]),
            ("start_end", lambda t: (t.start, t.end)),
            ("chromosome_location", lambda t: lib.loc_blocks(t.chromosome_location)),
            ("guid", lambda t: str(t.guid)),
            # the chromosome-coordinate GFF3 rows (columns 1-8; column 9 carries the identifiers, of which the collection's own
            # guid is the subject of known finding C07-collection-guid) - also when the chunk holds no base of the collection
            ("to_gff-columns", lambda t: [str(r).split("\t")[:8] for r in t.to_gff()]),
        ):
            a0, a1 = lib.outcome(fn, x0), lib.outcome(fn, x1)
            res.trans()
            if a0[0] != "ok" or a1[0] != "ok" or a0[1] != a1[1]:
                res.deviation(f"{cname}.{name}", dict(op=f"{cname}.{name}", **case), a1[1], a0[1], sig=f"twin-{cname}-{name}")
        o = lib.outcome(lambda: lift_back(x1.chunk_relative_location, a))
        res.trans()
        exp = [p for p in range(lo, hi) if a <= p < b]
        if o[0] != "ok" or o[1] != exp:
            res.deviation(f"{cname}.chunk_relative_location", dict(op=f"{cname}.chunk_relative_location", **case), o[1], exp, sig=f"chunk-{cname}-location")
        elif exp:
            cmp(res, f"{cname}.get_reference_sequence", case, lib.outcome(lambda: str(x1.get_reference_sequence())), genome[min(exp) : max(exp) + 1], f"chunk-{cname}-refseq")
    _check_shared_children(res, case, genome, exons, strand, cb, frames, first, a, b, chrom, chunk)
    # annotation collection built on a chunk: bounds inferred from the chunk; members keep chromosome coordinates
    g1, fc1 = o1[1]
    o = lib.outcome(lambda: AnnotationCollection(feature_collections=[fc1], genes=[g1], sequence_name="chrV", parent_or_seq_chunk_parent=chunk))
    res.trans()
    if o[0] != "ok":
        res.deviation("AnnotationCollection", dict(op="AnnotationCollection", **case), o[1], "object", sig="chunk-ac-ctor-raises")
        return
    ac = o[1]
    cmp(res, "AnnotationCollection.bounds", case, lib.outcome(lambda: (ac.start, ac.end)), (a, b), "chunk-ac-bounds")
    cmp(res, "AnnotationCollection.members", case, lib.outcome(lambda: [(c.start, c.end) for c in ac.iter_children()]), [(lo, hi), (lo, hi)], "chunk-ac-members")
    cmp(res, "AnnotationCollection.sequence", case, lib.outcome(lambda: str(ac.get_reference_sequence())), genome[a:b], "chunk-ac-sequence")
    # explicit bounds are kept as given - also bounds that START AT 0 - whatever window the chunk parent covers
    for bs, be in ((0, N), (0, max(hi, 1)), (lo, hi)):
        g2, fc2 = build(chunk)
        o = lib.outcome(lambda: AnnotationCollection(feature_collections=[fc2], genes=[g2], sequence_name="chrV", start=bs, end=be, parent_or_seq_chunk_parent=chunk))
        res.trans()
        if o[0] != "ok":
            if not lib.is_documented_exc(o[2]):
                res.deviation("AnnotationCollection", dict(op="AnnotationCollection-explicit-bounds", bounds=[bs, be], **case), o[1], "object or documented refusal", sig="chunk-ac-explicit-internal")
            continue
        cmp(res, "AnnotationCollection.explicit-bounds", dict(bounds=[bs, be], **case), lib.outcome(lambda: (o[1].start, o[1].end)), (bs, be), "chunk-ac-explicit-bounds")


def _check_shared_children(res, case, genome, exons, strand, cb, frames, first, a, b, chrom, chunk):
    """two views that share their child OBJECTS: a whole-chromosome gene / feature collection, and a chunk gene / feature
    collection / annotation collection built afterwards from the very same children. Building the chunk view changes none
    of the answers of the whole-chromosome view (asked for the first time after the chunk view exists)"""
    tx1 = lib.mk_tx(exons, strand, cb, frames, chrom, sequence_name="chrV", transcript_id="t1")
    tx2 = lib.mk_tx(first, strand, parent=chrom, sequence_name="chrV", transcript_id="t2")
    f1 = lib.mk_feat(exons, strand, chrom, sequence_name="chrV", feature_name="f1", feature_types=["a"])
    o = lib.outcome(lambda: (GeneInterval([tx1, tx2], gene_id="g1", gene_symbol="G", sequence_name="chrV", parent_or_seq_chunk_parent=chrom),
                             FeatureIntervalCollection([f1], feature_collection_name="fc", sequence_name="chrV", parent_or_seq_chunk_parent=chrom)))
    if o[0] != "ok":
        return
    whole_g, whole_fc = o[1]
    o = lib.outcome(lambda: (GeneInterval([tx1, tx2], gene_id="g1", gene_symbol="G", sequence_name="chrV", parent_or_seq_chunk_parent=chunk),
                             FeatureIntervalCollection([f1], feature_collection_name="fc", sequence_name="chrV", parent_or_seq_chunk_parent=chunk)))
    res.trans(2)
    if o[0] != "ok":
        res.deviation("constructor", dict(op="shared-ctor", **case), o[1], "objects", sig="shared-chunk-ctor-raises")
        return
    part_g, part_fc = o[1]
    o2 = lib.outcome(lambda: AnnotationCollection(genes=[whole_g], feature_collections=[whole_fc], sequence_name="chrV", parent_or_seq_chunk_parent=chunk))
    res.trans()
    if o2[0] == "exc" and not lib.is_documented_exc(o2[2]):
        res.deviation("AnnotationCollection", dict(op="shared-ac-ctor", **case), o2[1], "object or documented exception", sig="shared-ac-ctor-internal-error")
    Pm = M.P(exons, strand)
    Pf = M.P(first, strand)
    eseq = F.splice(genome, Pm, strand)
    allc = F.codons(F.exons_5to3(cb, strand), F.frames_5to3(frames, strand))
    ecds = "".join(F.splice(genome, c, strand) for c in allc)
    asks = [
        ("gene.children-locations", lambda: [M.P(lib.loc_blocks(t.chunk_relative_location), strand) for t in whole_g.transcripts], [Pm, Pf]),
        ("gene.children-dicts", lambda: [(t.to_dict()["exon_starts"], t.to_dict()["exon_ends"]) for t in whole_g.transcripts],
         [([s_ for s_, _ in exons], [e_ for _, e_ in exons]), ([first[0][0]], [first[0][1]])]),
        ("gene.primary-transcript-sequence", lambda: str(whole_g.get_primary_transcript_sequence()), eseq),
        ("gene.transcript-sequences", lambda: [str(t.get_spliced_sequence()) for t in whole_g.transcripts], [eseq, F.splice(genome, Pf, strand)]),
        ("gene.chunk_relative_location", lambda: lib.loc_blocks(whole_g.chunk_relative_location), ((exons[0][0], exons[-1][1]),)),
        ("feature_collection.children-locations", lambda: [M.P(lib.loc_blocks(f.chunk_relative_location), strand) for f in whole_fc.feature_intervals], [Pm]),
        ("feature_collection.feature-sequences", lambda: [str(f.get_spliced_sequence()) for f in whole_fc.feature_intervals], [eseq]),
    ]
    if allc:
        asks += [("gene.primary-cds-sequence", lambda: str(whole_g.get_primary_cds_sequence()), ecds),
                 ("gene.cds-codons", lambda: codon_pos(whole_g.transcripts[0].cds.chunk_relative_codon_locations), allc)]
    for name, fn, e in asks:
        o = lib.outcome(fn)
        res.trans()
        if o[0] != "ok" or o[1] != e:
            res.deviation(name, dict(op="shared:" + name, **case), o[1], e, sig="shared-children-" + name)
    # ... and the chunk view itself still answers its own chromosome-level questions
    cmp(res, "shared.part.start_end", case, lib.outcome(lambda: (part_g.start, part_g.end, part_fc.start, part_fc.end)), (exons[0][0], exons[-1][1]) * 2, "shared-part-bounds")


def run_shard(shard):
    res = ShardResult()
    w = WORLD[shard["tier"]]
    if shard["part"] == "tx":
        N = w["N"]
        idx = 0
        for exons in worlds.layouts(N, w["k"], "disjoint"):
            ln = sum(e - s for s, e in exons)
            for strand in "+-":
                idx += 1
                if idx % NSH != shard["i"]:
                    continue
                placements = [None] + [(c0, c1) for c0 in range(ln) for c1 in range(c0 + 1, ln + 1)]
                for a, b in worlds.windows(N):
                    check_feature(res, N, exons, strand, a, b)
                    check_feature(res, N, exons, strand, a, b, "-")
                    for cds in placements:
                        for f0 in ((0, 1, 2) if cds else (0,)):
                            check_tx(res, N, exons, strand, cds, f0, a, b)
                    # minus-strand chunks (seq_chunk_to_parent(strand=MINUS)): non-coding and full-length CDS, all start frames
                    check_tx(res, N, exons, strand, None, 0, a, b, "-")
                    for f0 in (0, 1, 2):
                        check_tx(res, N, exons, strand, (0, ln), f0, a, b, "-")
        res.sample({"exons": [[1, 4], [5, 8]], "strand": "+", "cds": [1, 6], "f0": 1, "window": [2, 7]})
    elif shard["part"] == "scale":
        # the scale family (vlib/worlds.py): many-exon transcripts; CDS placements and chunk windows from ladders of
        # coordinates at (and next to) the first, a middle and the last exon boundary
        idx = 0
        tier = shard["tier"]
        for k, exons in worlds.scale_layouts(tier, offset=2, ks=SCALE_KS[tier], npat=2 if tier == "quick" else 3):
            N = exons[-1][1] + 2
            bp = worlds.boundary_points(exons, around=0)
            ln = bp[-1]
            pts = sorted({0, bp[1], bp[len(bp) // 2] + 1, bp[-2], ln} & set(range(ln + 1)))
            placements = [None] + [(c0, c1) for i_, c0 in enumerate(pts) for c1 in pts[i_ + 1:]]
            mid = exons[len(exons) // 2]
            wpts = sorted({0, exons[0][0], exons[0][1], exons[1][0] + 1, mid[0], mid[1] - 1, mid[1], exons[-1][0], exons[-1][1] - 1, exons[-1][1], N} & set(range(N + 1)))
            for strand in "+-":
                idx += 1
                if idx % 32 != shard["i"]:
                    continue
                for wi, a in enumerate(wpts):
                    for b in wpts[wi + 1:]:
                        check_feature(res, N, exons, strand, a, b)
                        for cds in placements:
                            for f0 in ((0, 1, 2) if cds and cds[0] == 0 else (0,)):
                                check_tx(res, N, exons, strand, cds, f0, a, b)
                        check_tx(res, N, exons, strand, (0, ln), 1, a, b, "-")
        res.sample({"scale": "many-exon chunk twins", "ks": list(SCALE_KS[tier])})
    else:
        N = w["Ng"]
        idx = 0
        for exons in worlds.layouts(N, 2, "disjoint"):
            for strand in "+-":
                idx += 1
                if idx % 16 != shard["i"]:
                    continue
                for a, b in worlds.windows(N):
                    check_collections(res, N, exons, strand, a, b)
        res.sample({"gene twins": "two transcripts + feature collection", "N": N})
    return res


def replay(case):
    res = ShardResult()
    ex = tuple(tuple(x) for x in case["exons"])
    if case["kind"] == "tx":
        check_tx(res, case["N"], ex, case["strand"], tuple(case["cds"]) if case["cds"] else None, case["f0"], case["a"], case["b"], case.get("cs", "+"))
    elif case["kind"] == "feat":
        check_feature(res, case["N"], ex, case["strand"], case["a"], case["b"], case.get("cs", "+"))
    else:
        check_collections(res, case["N"], ex, case["strand"], case["a"], case["b"])
    devs = [d for d in res.deviations if d["case"].get("op") == case.get("op")]
    return devs or res.deviations


# ---- known findings ---------------------------------------------------------------------------------------------
def _m_lost_first_codon(d):
    """same defect as C05-lost-first-codon, seen through a chunk: single-exon CDS, start frame != 0, chunk cuts the
    5' end of the CDS -> the first complete codon inside the chunk is lost (all downstream answers shift with it)"""
    c = d["case"]
    if d["sig"] not in ("chunk-codons", "chunk-codons-raises", "chunk-cds-seq", "chunk-translate", "chunk-frames"):
        return False
    if not c.get("single") or not c.get("f0") or not c.get("trim5"):
        return False
    exp, obs = d["expected"], d["observed"]
    if d["sig"] == "chunk-codons":
        return obs == exp[1:]
    if d["sig"] == "chunk-codons-raises":
        return len(exp) == 1
    if d["sig"] == "chunk-cds-seq":
        return isinstance(obs, str) and (obs == exp[3:] or (len(exp) == 3 and obs in ("", "EmptyLocationException", "ValueError", "InvalidPositionException")))
    if d["sig"] == "chunk-translate":
        return isinstance(obs, str) and (len(obs) == len(exp) - 1 or len(exp) == 1)
    return False


def _m_collection_guid(d):
    """GeneInterval / FeatureIntervalCollection digest their CHUNK-RELATIVE location into the guid, so the identifier of
    a gene or feature collection built on a chunk differs from the whole-chromosome twin (children guids are equal)"""
    return d["sig"] in ("twin-gene-guid", "twin-feature_collection-guid") and isinstance(d["observed"], str) and isinstance(d["expected"], str)


def _m_sliced_out_cds(d):
    """CDS with NO base inside the chunk: its chunk-relative location is EmptyLocation, is_chunk_relative becomes False
    and chunk_relative_codon_locations answers with the chromosome codons (chromosome coordinates) instead of none"""
    return d["sig"] == "chunk-codons-extra" and d["case"].get("cds_bases_inside") == 0 and bool(d["observed"])


MATCHERS = {"c07_lost_first_codon": _m_lost_first_codon, "c07_collection_guid": _m_collection_guid, "c07_sliced_out_cds": _m_sliced_out_cds}
