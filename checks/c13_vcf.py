"""C13 VCF half: convert_vcf_records_to_model on all small record lists (records built from the stub classes of
vlib/compat: vcf.model._Record/_Call/_Substitution; vcf.Reader is out of reach)."""
import collections
import itertools
import warnings

import vcf.model as vm

from vlib import lib

from inscripta.biocantor.io.vcf.parser import convert_vcf_records_to_model

CHROMS = ["c1", "c2"]
POSITIONS = [2, 4]
# (REF, ALT alleles): SNV, two SNV alleles, padded deletion, padded insertion (affected_start == affected_end), MNV,
# SNV + insertion allele in one record
ALLELES = [("A", ["G"]), ("A", ["G", "T"]), ("AT", ["A"]), ("A", ["AGG"]), ("AT", ["GC"]), ("A", ["G", "AT"])]
PS_FULL = ["absent", 0, 1, 2, "null"]  # PS is a non-negative integer: 0 is a valid phase set   # 'null': the FORMAT has a PS field whose value is missing ('.' -> None in PyVCF)
PS_SMALL = ["absent", 0, 1]


def record_specs(alleles, ps_menu):
    return [dict(chrom=c, pos=p, ref=r, alts=list(a), ps=ps, nsamples=1)
            for c in CHROMS for p in POSITIONS for r, a in alleles for ps in ps_menu]


def contiguous(specs):
    """equal CHROM values are adjacent (a sorted VCF)"""
    seen = []
    for s in specs:
        if s["chrom"] in seen and seen[-1] != s["chrom"]:
            return False
        if not seen or seen[-1] != s["chrom"]:
            seen.append(s["chrom"])
    return True


def world(nrec):
    full = record_specs(ALLELES, PS_FULL)
    small = record_specs(ALLELES[:4], PS_SMALL)
    for s in full:
        yield [s]
        yield [dict(s, nsamples=2)]
    for lst in itertools.product(full, repeat=2):
        if contiguous(lst):
            yield list(lst)
    # records of one chromosome that are NOT adjacent in the input (c1, c2, c1): nothing in the VCF format forbids it, and no
    # record may be lost
    inter = record_specs(ALLELES[:2], ["absent", 1])
    for lst in itertools.product(inter, repeat=3):
        if lst[0]["chrom"] == lst[2]["chrom"] != lst[1]["chrom"]:
            yield list(lst)
    if nrec >= 3:
        for lst in itertools.product(small, repeat=3):
            if contiguous(lst):
                yield list(lst)
    else:
        # quick tier: record triples on one chromosome only (interleaved phase sets need three records)
        mini = [x for x in record_specs(ALLELES[:2], PS_FULL) if x["chrom"] == "c1"]
        for lst in itertools.product(mini, repeat=3):
            yield list(lst)


def mk_record(spec):
    fields = ["GT"] + (["PS"] if spec["ps"] != "absent" else [])
    CD = collections.namedtuple("CallData", fields)

    def data(ps):
        return CD(*(["0|1"] + ([None if ps == "null" else ps] if spec["ps"] != "absent" else [])))

    rec = vm._Record(spec["chrom"], spec["pos"], None, spec["ref"], [vm._Substitution(a) for a in spec["alts"]], FORMAT=":".join(fields))
    rec.samples = [vm._Call(rec, "s1", data(spec["ps"]))]
    if spec["nsamples"] == 2:
        rec.samples.append(vm._Call(rec, "s2", data(7 if spec["ps"] != "absent" else "absent")))
    return rec


def expected(specs, recs):
    """per CHROM: one collection per phase set (id = str(PS)) holding one variant per ALT allele of its records; every
    allele of a record without a phase set (no PS field, or PS missing) is its own collection. Canonical, order-free."""
    out = {}
    for spec, rec in zip(specs, recs):
        start, end = rec.affected_start, rec.affected_end
        if start == end:
            end += 1
        ps = spec["ps"] if spec["ps"] not in ("absent", "null") else None
        for alt in spec["alts"]:
            v = (start, end, alt, "SNV" if len(alt) == 1 else "MNV", ps)
            groups = out.setdefault(spec["chrom"], {"phased": {}, "unphased": []})
            if ps is None:
                groups["unphased"].append(v)
            else:
                groups["phased"].setdefault(ps, []).append(v)
    canon = {}
    for chrom, g in out.items():
        colls = [(str(ps), chrom, tuple(sorted(vs, key=repr))) for ps, vs in g["phased"].items()]
        colls += [(None, chrom, (v,)) for v in g["unphased"]]
        canon[chrom] = sorted(colls, key=repr)
    return canon


def observed(result):
    canon = {}
    for chrom, models in result.items():
        colls = []
        for m in models:
            vs = tuple(sorted(((v.start, v.end, v.sequence, v.variant_type, v.phase_block) for v in m.variant_intervals), key=repr))
            colls.append((m.variant_collection_id, m.sequence_name, vs))
            other = (m.variant_collection_name, m.sequence_guid, m.variant_collection_guid, m.qualifiers)
            if any(x is not None for x in other):
                colls[-1] = colls[-1] + (other,)
        canon[chrom] = sorted(colls, key=repr)
    return canon


def allele_semantics(spec, rec):
    """informational only (outside the statement): does literally applying (start,end,ALT) reproduce the ALT allele?"""
    pad = "C" * (spec["pos"] - 1)
    ref = pad + spec["ref"] + "CC"
    start, end = rec.affected_start, rec.affected_end
    if start == end:
        end += 1
    n = 0
    for alt in spec["alts"]:
        hap = pad + alt + "CC"
        if ref[:start] + alt + ref[end:] != hap:
            n += 1
    return n


def vcf_case(res, specs):
    case = dict(leg="vcf", records=specs)
    recs = [mk_record(s) for s in specs]
    with warnings.catch_warnings(record=True) as w:
        warnings.simplefilter("always")
        o = lib.outcome(convert_vcf_records_to_model, recs)
    res.trans()
    want = expected(specs, recs)
    has_null = any(s["ps"] == "null" for s in specs)
    if len(specs) > 1 or len(specs[0]["alts"]) > 1 or specs[0]["ps"] != "absent":
        res.nontriv(("vcf", repr(specs)))
    if o[0] != "ok":
        res.deviation("convert_vcf_records_to_model", case, {"exc": o[1]}, want, sig="vcf-exc-" + o[1] + ("-null-ps" if has_null else ""),
                      null_ps=has_null, n_alleles=sum(len(s["alts"]) for s in specs))
        return
    got = observed(o[1])
    if got != want:
        res.deviation("convert_vcf_records_to_model", case, got, want, sig="vcf-grouping" + ("-null-ps" if has_null else ""), null_ps=has_null)
        return
    nph = sum(1 for c in want.values() for x in c if x[0] is not None)
    res.note("vcf", f"{len(want)}chrom-{min(nph, 2)}phased" + ("-null" if has_null else ""))
    res.state(("vcf", repr(want)))
    if any(s["nsamples"] > 1 for s in specs) and not any("more than one call" in str(x.message) for x in w):
        res.deviation("convert_vcf_records_to_model", case, "no warning", "warning for extra calls", sig="vcf-no-warning")
    res.extra["vcf_alleles_not_equal_to_literal_substitution(info)"] += sum(allele_semantics(s, r) for s, r in zip(specs, recs))
    res.extra["vcf_alleles(info)"] += sum(len(s["alts"]) for s in specs)


def run_vcf(res, p, i, n):
    for idx, specs in enumerate(world(p["nrec"])):
        if idx % n != i:
            continue
        vcf_case(res, specs)
    res.sample({"leg": "vcf", "records": [dict(chrom="c1", pos=2, ref="A", alts=["G", "T"], ps=1, nsamples=1)]})


def replay(res, case):
    vcf_case(res, case["records"])
