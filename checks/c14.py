"""C14 - BED12 export is valid BED and reproduces the interval in both coordinate modes."""
from vlib import lib, worlds
from vlib.model import frame as F
from vlib.runner import ShardResult

from inscripta.biocantor.io.bed import RGB
from inscripta.biocantor.exc import NoSuchAncestorException

PROPERTY = "C14"
TITLE = "BED12 export is valid BED and reproduces the interval in both coordinate modes"
RULE = (
    "every TranscriptInterval (non-coding and with every contiguous CDS placement) and FeatureInterval on every "
    "disjoint exon layout (<=3 blocks) x both strands x {no parent, chromosome parent, every chunk window containing "
    "the interval} x both coordinate modes x a name/score/rgb menu; str(BED12) is decoded by an independent "
    "12-column reader. Non-trivial = >=2 blocks or chunk mode or coding."
)
ASSUMPTIONS = ["independent reader: 12 tab-separated columns as in the UCSC BED specification (vlib reader in this module)"]

WORLD = {"quick": dict(N=7, k=3), "thorough": dict(N=10, k=3)}
NSH = 32
GENOME = "ACGTACGGTCAATGCCGTAGCTAGCTAACG"


def world_description(tier):
    w = WORLD[tier]
    return (f"exon layouts N={w['N']} k<={w['k']} disjoint x strands + - . ; all CDS placements; all chunk windows containing the interval; "
            f"scale family: records of {SCALE_KS[tier]} blocks, CDS placements on a ladder of block boundaries, 6 parent kinds, both modes; "
            f"descending / rotated constructor lists; intervals that are also made the child of a collection on another chunk")


def shards(tier, seed):
    return [{"tier": tier, "i": i} for i in range(NSH)] + [{"tier": tier, "part": "scale", "i": i} for i in range(8)]


def parse_bed12(text):
    cols = text.split("\t")
    if len(cols) != 12:
        raise ValueError(f"{len(cols)} columns")
    chrom, start, end, name, score, strand, ts, te, rgb, bc, sizes, starts = cols
    sizes = [int(x) for x in sizes.split(",") if x != ""]
    starts = [int(x) for x in starts.split(",") if x != ""]
    return dict(
        chrom=chrom, start=int(start), end=int(end), name=name, score=int(score), strand=strand,
        thick_start=int(ts), thick_end=int(te), rgb=tuple(int(x) for x in rgb.split(",")),
        block_count=int(bc), sizes=sizes, starts=starts,
    )


def check_bed(res, kind, exons, strand, cds, window, chrom_mode, menu, N, order=None, shared=None):
    """kind: 'tx' | 'feat'; cds: None or (c0,c1) transcript coords; window: None (no parent) | 'chrom' | (a,b);
    order: how the constructor lists are handed over (lib.listing); shared: a SECOND chunk window - after the interval
    exists, a gene / feature collection is built from the same object on that other chunk, and the interval still
    reports itself in the coordinates of the chunk it was built on"""
    genome = GENOME[:N] if N <= len(GENOME) else (GENOME * (N // len(GENOME) + 1))[:N]
    minus_chunk = isinstance(window, tuple) and len(window) == 3
    if window is None:
        parent = None
    elif window == "chrom":
        parent = lib.chrom_parent(genome)
    elif minus_chunk:
        # a chunk placed on the MINUS strand of the chromosome (seq_chunk_to_parent(strand=MINUS)); only the
        # chromosome-coordinate record is judged there (what "chunk coordinates" mean on a reversed chunk is not documented)
        from inscripta.biocantor.io.parser import seq_chunk_to_parent

        a_, b_ = window[0], window[1]
        text = F.splice(genome, list(range(b_ - 1, a_ - 1, -1)), "-")
        parent = seq_chunk_to_parent(text, "chrV", a_, b_, strand=lib.STRAND["-"])
        if not chrom_mode:
            return
    else:
        parent = lib.chunk_parent(genome, window[0], window[1])
    case = dict(kind=kind, exons=[list(b) for b in exons], strand=strand, cds=list(cds) if cds else None,
                window=list(window) if isinstance(window, tuple) else window, chrom_mode=chrom_mode, menu=menu, N=N)
    if order is not None:
        case["order"] = order
    if shared is not None:
        case["shared"] = list(shared)
    name_arg, score, rgb = menu
    cds_blocks = None
    if kind == "tx":
        if cds:
            cds_blocks = F.cds_blocks_for(exons, strand, cds[0], cds[1])
            frames = F.consistent_frames_plus_order(cds_blocks, strand, 0)
            mk_ = lambda: lib.mk_tx(exons, strand, cds_blocks, frames, parent, order=order, sequence_name="chrV", transcript_symbol="sym", transcript_id="tid")
        else:
            mk_ = lambda: lib.mk_tx(exons, strand, parent=parent, order=order, sequence_name="chrV", transcript_symbol="sym", transcript_id="tid")
        exp_name = {"transcript_symbol": "sym", "transcript_id": "tid", "free text": "free text", "sequence_name": "chrV", "guid": None}[name_arg]
    else:
        mk_ = lambda: lib.mk_feat(exons, strand, parent, order=order, sequence_name="chrV", feature_name="sym", feature_id="tid")
        exp_name = {"transcript_symbol": "transcript_symbol", "transcript_id": "transcript_id", "free text": "free text", "sequence_name": "chrV", "guid": None}[name_arg]
        if name_arg == "transcript_symbol":
            name_arg, exp_name = "feature_name", "sym"
        elif name_arg == "transcript_id":
            name_arg, exp_name = "feature_id", "tid"
    oc_ = lib.outcome(mk_)
    if oc_[0] != "ok":
        # (every interval of the world is valid, in whatever order its blocks are listed)
        res.deviation("constructor", case, oc_[1], "object", sig="ctor-raises")
        return
    obj = oc_[1]
    if name_arg == "guid":
        # ("Which identifier in this record to use as 'name'. feature_name to guid": any attribute of the record may be named)
        exp_name = str(obj.guid)
    if shared is not None:
        from inscripta.biocantor.gene import GeneInterval, FeatureIntervalCollection

        other = lib.chunk_parent(genome, shared[0], shared[1])
        o_ = lib.outcome(lambda: GeneInterval([obj], parent_or_seq_chunk_parent=other) if kind == "tx" else FeatureIntervalCollection([obj], parent_or_seq_chunk_parent=other))
        res.trans()
        if o_[0] == "exc" and not lib.is_documented_exc(o_[2]):
            res.deviation("collection-on-another-chunk", case, o_[1], "collection or documented exception", sig="shared-ctor-internal-error")

    def render():
        rec = obj.to_bed12(score=score, rgb=RGB(*rgb), name=name_arg, chromosome_relative_coordinates=chrom_mode)
        first = str(rec)
        # a record is a value: rendering it again, after reading its fields, gives the same line
        _ = (list(rec.block_sizes), list(rec.block_starts), rec.block_count)
        second = str(rec)
        if first != second:
            raise AssertionError(f"str(BED12) not repeatable: {first!r} then {second!r}")
        # ... and so is the object: asked a second time (after the other coordinate mode was asked in between) it writes the same line
        try:
            obj.to_bed12(score=score, rgb=RGB(*rgb), name=name_arg, chromosome_relative_coordinates=not chrom_mode)
        except Exception:  # noqa
            pass
        third = str(obj.to_bed12(score=score, rgb=RGB(*rgb), name=name_arg, chromosome_relative_coordinates=chrom_mode))
        if third != first:
            raise AssertionError(f"second to_bed12 differs: {first!r} then {third!r}")
        return first

    o = lib.outcome(render)
    res.trans()
    if o[0] == "exc" and isinstance(o[2], AssertionError):
        res.deviation("to_bed12", case, str(o[2])[:200], "same line on every rendering", sig="bed-not-repeatable")
        return
    is_chunk = isinstance(window, tuple)  # (minus-strand chunks reach this point in chromosome mode only)
    if not chrom_mode and not is_chunk:
        # ("Raises: NoSuchAncestorException: If chromosome_relative_coordinates is False but there is no sequence_chunk ancestor
        # type" - docstring of both to_bed12 methods; the export used to answer with chromosome coordinates)
        res.note("bed", "chunk-mode-without-chunk")
        if o[0] != "exc" or type(o[2]).__name__ != "NoSuchAncestorException":
            res.deviation("to_bed12", case, o[1], "NoSuchAncestorException", sig="bed-chunk-mode-without-chunk-answered")
        return
    else:
        off = window[0] if (is_chunk and not chrom_mode) else 0
    if o[0] != "ok":
        res.deviation("to_bed12", case, o[1], "BED12 line", sig="bed-raises")
        return
    res.note("bed", ("chunk" if off or (is_chunk and not chrom_mode) else "chrom") + ("-coding" if cds else ""))
    if len(exons) > 1 or (is_chunk and not chrom_mode) or cds:
        res.nontriv((kind, exons, strand, cds, window, chrom_mode))
    try:
        b = parse_bed12(o[1])
    except Exception as e:  # noqa
        res.deviation("to_bed12", case, o[1], "12 parseable columns", sig="bed-unparseable")
        return
    probs = []
    if not (b["block_count"] == len(b["sizes"]) == len(b["starts"])):
        probs.append("blockCount != #sizes/#starts")
    if b["starts"] and b["starts"][0] != 0:
        probs.append("first blockStart != 0")
    if b["starts"] != sorted(b["starts"]):
        probs.append("blockStarts not ascending")
    if b["starts"] and b["starts"][-1] + b["sizes"][-1] != b["end"] - b["start"]:
        probs.append("last start + last size != end - start")
    if any(s < 0 for s in b["starts"]) or any(s <= 0 for s in b["sizes"]):
        probs.append("negative start / non-positive size")
    if cds and kind == "tx":
        if not (b["start"] <= b["thick_start"] <= b["thick_end"] <= b["end"]):
            probs.append("thick range outside [start,end]")
    else:
        # no CDS: an EMPTY thick range, and like every thick range it lies inside [start, end]
        if b["thick_start"] != b["thick_end"]:
            probs.append("non-coding thick range not empty")
        elif not (b["start"] <= b["thick_start"] <= b["end"]):
            probs.append("noncoding-thick-outside [start,end]")
    exp_blocks = [(s - off, e - off) for s, e in sorted(exons)]
    got_blocks = [(b["start"] + s, b["start"] + s + z) for s, z in zip(b["starts"], b["sizes"])]
    if got_blocks != exp_blocks:
        probs.append("decoded blocks differ")
    if b["start"] != exp_blocks[0][0] or b["end"] != max(e for _, e in exp_blocks):
        probs.append("start/end differ")
    if b["strand"] != strand:
        probs.append("strand")
    if b["name"] != exp_name:
        probs.append(f"name {b['name']!r} != {exp_name!r}")
    if b["score"] != score or b["rgb"] != tuple(rgb) or b["chrom"] != "chrV":
        probs.append("score/rgb/chrom")
    if cds and kind == "tx":
        exp_thick = (cds_blocks[0][0] - off, cds_blocks[-1][1] - off)
        if (b["thick_start"], b["thick_end"]) != exp_thick:
            probs.append(f"thick {(b['thick_start'], b['thick_end'])} != {exp_thick}")
    if probs:
        res.deviation("to_bed12", case, {"line": o[1], "problems": probs}, {"blocks": exp_blocks}, sig="bed-" + probs[0].split()[0],
                      problems=probs, got_blocks=got_blocks, exp_blocks=exp_blocks, off=off)
    else:
        res.state(("bed", o[1]))


SCALE_KS = {"quick": (4, 6, 11, 24), "thorough": (4, 5, 6, 8, 11, 16, 24, 33, 64)}
MENUS = [("transcript_symbol", 0, (0, 0, 0)), ("transcript_id", 1000, (255, 0, 7)), ("free text", 5, (1, 2, 3)), ("guid", 0, (0, 0, 0)), ("sequence_name", 0, (0, 0, 0))]


def run_scale(res, shard):
    """the scale family (vlib/worlds.py): records with many blocks; CDS placements on a ladder of block boundaries; no parent,
    chromosome, containing chunks at an offset, both coordinate modes"""
    tier = shard["tier"]
    idx = 0
    for k, exons in worlds.scale_layouts(tier, offset=3, ks=SCALE_KS[tier], npat=2 if tier == "quick" else 3):
        N = exons[-1][1] + 3
        lo, hi = exons[0][0], exons[-1][1]
        bp = worlds.boundary_points(exons, around=0)
        ln = bp[-1]
        pts = sorted({0, bp[1], bp[len(bp) // 2] + 1, bp[-2], ln} & set(range(ln + 1)))
        placements = [None] + [(c0, c1) for i_, c0 in enumerate(pts) for c1 in pts[i_ + 1:]]
        for strand in "+-.":
            idx += 1
            if idx % 8 != shard["i"]:
                continue
            for win in (None, "chrom", (0, N), (lo, hi), (lo - 2, hi + 1), (lo - 1, N, "-")):
                for chrom_mode in (True, False):
                    check_bed(res, "feat", exons, strand, None, win, chrom_mode, MENUS[0], N)
                    for cds in (placements if strand != "." else [None]):
                        check_bed(res, "tx", exons, strand, cds, win, chrom_mode, MENUS[2], N)
    res.sample({"scale": "many-block records", "ks": list(SCALE_KS[tier])})
    return res


def run_shard(shard):
    res = ShardResult()
    if shard.get("part") == "scale":
        return run_scale(res, shard)
    tier = shard["tier"]
    w = WORLD[tier]
    N = w["N"]
    for idx, exons in enumerate(worlds.layouts(N, w["k"], "disjoint")):
        if idx % NSH != shard["i"]:
            continue
        lo, hi = exons[0][0], exons[-1][1]
        ln = sum(e - s for s, e in exons)
        wins = [None, "chrom"] + [(a, b) for a in range(0, lo + 1) for b in range(hi, N + 1)] + [(a, b, "-") for a in (0, lo) for b in (hi, N)]
        for strand in "+-.":
            placements = [None] + [(c0, c1) for c0 in range(ln) for c1 in range(c0 + 1, ln + 1)]
            if strand == ".":
                placements = [None]  # an undirected interval cannot carry a CDS; features and non-coding transcripts can be undirected
            for win in wins:
                for chrom_mode in (True, False):
                    for mi, menu in enumerate(MENUS):
                        # the menu only matters for the text columns: run the full menu on the first window only
                        if mi > 0 and win not in (None, "chrom"):  # noqa
                            continue
                        check_bed(res, "feat", exons, strand, None, win, chrom_mode, menu, N)
                        for cds in placements:
                            if mi > 0 and cds not in (None, placements[-1]):
                                continue
                            check_bed(res, "tx", exons, strand, cds, win, chrom_mode, menu, N)
                        if mi == 0 and len(exons) >= 2 and win in (None, "chrom", (0, N), (lo, hi)):
                            # the record is a function of the SET of blocks: descending and rotated constructor lists
                            for order in ("rev",) + tuple(range(1, len(exons))):
                                check_bed(res, "feat", exons, strand, None, win, chrom_mode, menu, N, order=order)
                                for cds in (None, placements[-1], placements[len(placements) // 2]):
                                    check_bed(res, "tx", exons, strand, cds, win, chrom_mode, menu, N, order=order)
                        if mi == 0 and isinstance(win, tuple) and len(win) == 2:
                            # an interval that is ALSO made the child of a collection on another chunk keeps its own chunk
                            for other in {(0, N), (max(win[0] - 1, 0), win[1]), (win[0], min(win[1] + 1, N))} - {win}:
                                check_bed(res, "feat", exons, strand, None, win, chrom_mode, menu, N, shared=other)
                                check_bed(res, "tx", exons, strand, placements[-1], win, chrom_mode, menu, N, shared=other)
    # "any transcript or feature": also one whose blocks OVERLAP (the library's own way of writing a -1 frameshift) or nest
    for idx, exons in enumerate(worlds.layouts(N, 2, "overlap")):
        if idx % NSH != shard["i"] or len(exons) < 2 or any(e <= s_ for s_, e in exons) or len({s_ for s_, _ in exons}) < len(exons):
            continue  # (no zero-length blocks; blocks sharing a start are ordered by the strand-dependent tie-break of known finding C03-same-start-revstrand)
        lo, hi = exons[0][0], max(e for _, e in exons)
        for strand in "+-":
            for win in (None, "chrom", (0, N), (lo, hi)):
                for chrom_mode in (True, False):
                    check_bed(res, "feat", exons, strand, None, win, chrom_mode, MENUS[0], N)
                    check_bed(res, "tx", exons, strand, None, win, chrom_mode, MENUS[0], N)
    res.sample({"exons": [[1, 3], [4, 6]], "strand": "-", "cds": [1, 3], "window": [0, 7], "chrom_mode": False})
    return res


def replay(case):
    res = ShardResult()
    check_bed(res, case["kind"], tuple(tuple(b) for b in case["exons"]), case["strand"], tuple(case["cds"]) if case["cds"] else None,
              tuple(case["window"]) if isinstance(case["window"], list) else case["window"], case["chrom_mode"], tuple(tuple(x) if isinstance(x, list) else x for x in case["menu"]), case["N"],
              order=case.get("order"), shared=tuple(case["shared"]) if case.get("shared") else None)
    return res.deviations


def _m_noncoding_thick_zero(d):
    # the defect's own class (record without CDS whose start is > 0) and shape (thick range written as 0 0, nothing else wrong)
    ob = d["observed"]
    if not isinstance(ob, dict) or d.get("problems") != ["noncoding-thick-outside [start,end]"]:
        return False
    cols = ob["line"].split("\t")
    return len(cols) == 12 and cols[6] == "0" and cols[7] == "0" and int(cols[1]) > 0 and (d["case"]["kind"] == "feat" or not d["case"]["cds"])


def _m_nested_block_last(d):
    """an interval with a block NESTED in an earlier one so that the block that sorts last is not the one that ends last:
    the record's chromEnd is the largest end, but the last block (by start) ends before it, so 'last blockStart + last
    blockSize == chromEnd - chromStart' fails (BED12 cannot say that the last block ends inside the span)"""
    ex = sorted(tuple(b) for b in d["case"]["exons"])
    if len(ex) < 2 or ex[-1][1] >= max(e for _, e in ex):
        return False
    rest = [p for p in (d.get("problems") or []) if p != "noncoding-thick-outside [start,end]"]
    return rest == ["last start + last size != end - start"] and d.get("got_blocks") == d.get("exp_blocks")


MATCHERS = {"c14_noncoding_thick_zero": _m_noncoding_thick_zero, "c14_nested_block_last": _m_nested_block_last}
