"""C13 - Variant haplotypes: alternative sequence and lift-over match the edit model."""
import os
import time

from vlib.model import variants as V
from vlib import lib
from vlib.runner import ShardResult

from checks import c13_world as W
from checks import c13_core as C
from checks import c13_intervals as I
from checks import c13_vcf as VCF

PROPERTY = "C13"
TITLE = "Variant haplotypes: alternative sequence and lift-over match the edit model"
RULE = (
    "references W(N) over ACGTN; ALL sets of 1..k pairwise disjoint (touching allowed) variants over [0,N] with alt "
    "strings of 0,1,2,3 bases (SNV, MNV, padded/unpadded insertion and deletion); locations = all disjoint layouts x "
    "both strands; whole-chromosome parents and every chunk window containing the variants; the lift-over oracle is "
    "applied to exactly the admissible combinations (every variant wholly inside one block or wholly outside all "
    "blocks). Legs: alt (alternative_genomic_sequence / parent_with_alternative_sequence of every variant and "
    "collection), lift (lift_over_location through the single-variant and the collection API, location given bare, on "
    "the reference parent, chunk-relative, and to sequence-less variants), iv (incorporate_variants on "
    "FeatureInterval, TranscriptInterval +- CDS, CDSInterval), ivx (the same on intervals CUT by their own chunk with "
    "variants defined on a larger chunk / the chromosome), agg (GeneInterval, FeatureIntervalCollection, "
    "AnnotationCollection.incorporate_variants, alternative_haplotype_mapping), vcf (convert_vcf_records_to_model on "
    "all record lists). Non-trivial = a length-changing variant inside a block or >= 2 variants."
)
ASSUMPTIONS = [
    "edit model vlib/model/variants.py (token list of the alternative haplotype; self-tested in shard 'selftest' "
    "against right-to-left substitution, the shift arithmetic and per-block splicing on W(5))",
    "compat layer vlib/compat (marshmallow post_dump keyword; stub classes vcf.model._Record/_Call/_Substitution with "
    "PyVCF's documented affected_start/affected_end); vcf.Reader / parse_vcf_file are out of reach (pyvcf3 absent)",
    "chunk parents: only windows that contain every variant (a variant cut by the chunk border has no literal "
    "substitution on the chunk); on a chunk the location is first restricted to the chunk, as the library documents",
    "coverage is compared as position sets (adjacent blocks may be merged or left unmerged), plus strand, extracted "
    "sequence and the sequence of the alternative parent; a zero-length answer counts as empty whatever its class",
    "sequence-less variants are outside the quantifier ('all references'): their NullSequenceException is accepted, "
    "coordinates are compared when they answer",
    "incorporate_variants may refuse (EmptyLocationException) an interval one of whose locations (exons, CDS) is "
    "deleted entirely: intervals cannot be empty; CDS sequences are compared through the reading-frame model with "
    "the original 5' start frame, and a CDS left without a complete codon may be refused with a documented exception",
    "alternative_haplotype_mapping: 'overlapping' is decided on spans (the location of a gene / collection is its span)",
    "VCF: record lists keep equal CHROM values contiguous (sorted VCF); order of the returned collections is not "
    "compared; affected_start/affected_end of the record are input data; a PS field whose value is missing (None, "
    "PyVCF's reading of '.') means unphased; whether (start,end,ALT) literally reproduces the ALT allele is outside "
    "the statement and only counted (counter vcf_alleles_not_equal_to_literal_substitution)",
    "a haplotype of ZERO bases (every base of the chromosome/chunk deleted) cannot be carried by a Parent/Sequence: "
    "documented refusals of lift-over / incorporation / alternative parent on it are accepted (the alternative "
    "sequence text itself is still compared)",
    "cross-chunk incorporation (leg ivx): an interval on a chunk that cuts it sees only its bases on that chunk; with "
    "variants defined on a strictly larger chunk of the same chromosome the result must be the edit model applied to "
    "those bases (only edit sets with at most one length-changing variant, so the registered sequential-shift finding "
    "cannot interfere); with variants defined on the whole-chromosome parent the library refuses with "
    "NoSuchAncestorException (from_chunk_relative_location) - accepted as a documented refusal, counted",
    "CDS start frames 1,2 are decided only when no variant touches the skipped 5' bases (otherwise the start frame has "
    "no model meaning) and the 5' exon is at least as long as the offset",
]

NSH = 48

# per tier: list of (leg, params); every (leg, params) is cut into shards by case index
WORLD = {
    "quick": [
        ("selftest", {}),
        ("alt", dict(N=8, nv=[1, 2])),
        ("lift", dict(N=8, nv=[1, 2], k=2, windows="chrom", forms=["bare"])),
        ("lift", dict(N=6, nv=[1, 2], k=2, windows="chrom", forms=["chrom", "seqless"])),
        ("lift", dict(N=8, nv=[1], k=4, windows="chrom", forms=["bare"])),  # three and four blocks: one deletion may swallow several
        ("lift", dict(N=6, nv=[1], k=2, windows="chunks", forms=["bare", "chunk"])),
        ("lift", dict(N=5, nv=[2], k=2, windows="chunks", forms=["bare", "chunk"])),
        ("iv", dict(N=5, nv=[1], k=2, windows="menu")),
        ("iv", dict(N=4, nv=[2], k=2, windows="menu")),
        ("ivx", dict(N=4, nv=[1], k=2, vwindows="menu")),
        ("ivx", dict(N=4, nv=[2], k=1, vwindows="menu")),
        ("agg", dict(N=3, nv=[1, 2], k=1)),
        ("vcf", dict(nrec=2)),
        ("liftscale", dict(ks=(5, 9, 20), npat=2)),
        ("overlap", dict(N=6)),
    ],
    "thorough": [
        ("selftest", {}),
        ("alt", dict(N=10, nv=[1, 2])),
        ("alt", dict(N=8, nv=[3])),
        ("lift", dict(N=10, nv=[1, 2], k=2, windows="chrom", forms=["bare"])),
        ("lift", dict(N=9, nv=[1, 2], k=3, windows="chrom", forms=["bare"])),
        ("lift", dict(N=8, nv=[3], k=2, windows="chrom", forms=["bare"])),
        ("lift", dict(N=10, nv=[1], k=3, windows="chrom", forms=["bare"], rot=2)),
        ("lift", dict(N=8, nv=[1, 2], k=2, windows="chrom", forms=["chrom", "seqless"])),
        ("lift", dict(N=7, nv=[1, 2], k=2, windows="chunks", forms=["bare", "chunk"])),
        ("iv", dict(N=6, nv=[1], k=2, windows="menu")),
        ("iv", dict(N=5, nv=[1, 2], k=2, windows="all", placements="all")),
        ("iv", dict(N=5, nv=[3], k=2, windows="chrom")),
        ("ivx", dict(N=5, nv=[1, 2], k=2, vwindows="all")),
        ("agg", dict(N=4, nv=[1, 2], k=1)),
        ("vcf", dict(nrec=3)),
        ("liftscale", dict(ks=(4, 5, 6, 9, 12, 20, 33), npat=3)),
        ("overlap", dict(N=8)),
    ],
}


def world_description(tier):
    return "; ".join(f"{leg}{p}" for leg, p in WORLD[tier])


def shards(tier, seed):
    out = []
    only = os.environ.get("VERIF_C13_LEGS")  # debugging aid only: restrict the run to some legs (default: all)
    for li, (leg, p) in enumerate(WORLD[tier]):
        if only and leg not in only.split(","):
            continue
        n = 1 if leg == "selftest" else NSH
        for i in range(n):
            out.append({"tier": tier, "leg": leg, "li": li, "i": i, "n": n})
    return out


def _edit_sets(p):
    for nv in p["nv"]:
        yield from W.edit_sets(p["N"], nv)


def run_alt(res, p, i, n):
    N, rot = p["N"], p.get("rot", 0)
    for idx, edits in enumerate(_edit_sets(p)):
        if idx % n != i:
            continue
        lo, hi = edits[0][0], edits[-1][1]
        for window in [None] + W.windows_containing(N, lo, hi):
            for order in ("asc", "desc") if len(edits) > 1 else ("asc",):
                C.alt_case(res, N, rot, edits, window, order)
    res.sample({"leg": "alt", "N": N, "edits": [[1, 2, "TG"], [4, 6, ""]], "window": [1, 7]})


def run_lift(res, p, i, n):
    N, rot = p["N"], p.get("rot", 0)
    locs = list(W.locations(N, p["k"]))
    for idx, edits in enumerate(_edit_sets(p)):
        if idx % n != i:
            continue
        lo, hi = edits[0][0], edits[-1][1]
        wins = [None] if p["windows"] == "chrom" else W.windows_containing(N, lo, hi)
        for window in wins:
            haps = {}
            for form in p["forms"]:
                key = form == "seqless"
                if key not in haps:
                    haps[key] = C.Hap(N, rot, edits, window, seqless=key)
                hap = haps[key]
                res.state(("hap", edits, window, key))
                for blocks, strand in locs:
                    C.lift_case(res, hap, blocks, strand, form, "collection")
                    if hap.single is not None:
                        C.lift_case(res, hap, blocks, strand, form, "single")
    res.sample({"leg": "lift", "N": N, "edits": [[0, 1, ""], [1, 2, ""]], "blocks": [[0, 2]], "strand": "+", "form": "bare"})


def run_lift_overlap(res, p, i, n):
    """locations whose two blocks OVERLAP (the library's way of writing a -1 frameshift: the shared bases are read twice):
    every single variant that lies, for EACH block, wholly inside it or wholly outside it; oracle = the reference spliced
    sequence with the edit applied per block (vlib.model.variants.edited_splice), compared with the sequence the lifted
    location extracts from the alternative haplotype, through the collection and the single-variant API"""
    from vlib import worlds

    N = p["N"]
    locs = [(bl, st) for bl in worlds.layouts(N, 2, "overlap") if len(bl) == 2 and all(e > s_ for s_, e in bl) and bl[0][0] != bl[1][0] for st in "+-"]
    for idx, edits in enumerate(W.edit_sets(N, 1)):
        if idx % n != i:
            continue
        hap = C.Hap(N, 0, edits, None)
        (s_, e_, alt) = edits[0]
        for bl, st in locs:
            if any(not ((bs <= s_ and e_ <= be) or e_ <= bs or s_ >= be) for bs, be in bl):
                continue  # the variant straddles a block boundary: outside the statement's side condition
            exp_seq = V.edited_splice(hap.ref, bl, st, edits)
            for api in ("collection", "single"):
                loc = C.input_location(bl, st, None, "chrom", hap.parent)
                target = hap.single if api == "single" else hap.coll
                o = lib.outcome(lambda: C.read_location(target.lift_over_location(loc), True)[0])
                res.trans()
                res.nontriv(("overlap", edits, bl, st, api))
                case = dict(leg="overlap", N=N, rot=0, edits=[list(e) for e in edits], blocks=[list(b) for b in bl], strand=st, api=api)
                res.note("lift-overlap", "inside" if any(bs <= s_ and e_ <= be for bs, be in bl) else "outside")
                if o[0] != "ok":
                    if exp_seq == "" and lib.is_documented_exc(o[2]):
                        continue
                    res.deviation("lift_over_location", case, o[1], exp_seq, sig="overlap-lift-raises")
                elif o[1]["seq"].upper() != exp_seq.upper():
                    ob = o[1].get("overlapping_blocks") or []
                    if len({b_[0] for b_ in ob}) < len(ob) and sorted(o[1]["seq"].upper()) == sorted(exp_seq.upper()):
                        # the deletion made the two lifted blocks START at the same base: their order on the minus strand is
                        # the tie-break of known finding C03-same-start-revstrand (right bases, other order) - C03's subject
                        res.note("lift-overlap", "same-start-after-lift")
                        continue
                    res.deviation("lift_over_location", case, o[1], exp_seq, sig="overlap-lift-sequence")


def run_lift_scale(res, p, i, n, tier):
    """the scale family (vlib/worlds.py): many-block locations; every single variant whose reference interval (1-2 bp) starts at
    a ladder position (first / second / a middle / the last block: block start, last base of the block, first base of the gap
    behind it) with alt strings of 0-3 bases; whole-chromosome parent; collection and single-variant API"""
    from vlib import worlds

    idx = 0
    for k, bl in worlds.scale_layouts(tier, offset=1, ks=p["ks"], npat=p["npat"]):
        N = bl[-1][1] + 2
        ladder = set()
        for b_ in (bl[0], bl[1], bl[len(bl) // 2], bl[-1]):
            ladder |= {b_[0], b_[1] - 1, b_[1]}
        ivs = sorted({(s_, s_ + w_) for s_ in ladder for w_ in (1, 2) if s_ + w_ <= N})
        for (s_, e_) in ivs:
            for ln_ in range(4):
                idx += 1
                if idx % n != i:
                    continue
                edits = ((s_, e_, W.ALTS[0][ln_]),)
                hap = C.Hap(N, 0, edits, None, seqless=False)
                res.state(("haps", bl, edits))
                for strand in "+-":
                    C.lift_case(res, hap, bl, strand, "bare", "collection")
                    C.lift_case(res, hap, bl, strand, "bare", "single")
                    C.lift_case(res, hap, bl, strand, "chrom", "collection")
    res.sample({"leg": "liftscale", "ks": list(p["ks"])})


def run_shard(shard):
    res = ShardResult()
    leg, p = WORLD[shard["tier"]][shard["li"]]
    i, n = shard["i"], shard["n"]
    t0 = time.process_time()
    if leg == "selftest":
        cnt = V.selftest()  # raises on failure -> HARNESS-ERROR, never a VIOLATION
        res.extra["model_selftest_cases"] += cnt
    elif leg == "alt":
        run_alt(res, p, i, n)
    elif leg == "lift":
        run_lift(res, p, i, n)
    elif leg == "iv":
        I.run_iv(res, p, i, n)
    elif leg == "ivx":
        I.run_ivx(res, p, i, n)
    elif leg == "agg":
        I.run_agg(res, p, i, n)
    elif leg == "vcf":
        VCF.run_vcf(res, p, i, n)
    elif leg == "liftscale":
        run_lift_scale(res, p, i, n, shard["tier"])
    elif leg == "overlap":
        run_lift_overlap(res, p, i, n)
    else:
        raise ValueError(leg)
    if os.environ.get("VERIF_DEBUG"):  # debugging aid only: CPU seconds per leg (never part of normal evidence)
        res.extra[f"debug_cpu_s_leg{shard['li']}_{leg}"] += int(time.process_time() - t0)
    return res


def replay(case):
    res = ShardResult()
    leg = case["leg"]
    edits = tuple((s, e, a) for s, e, a in case.get("edits", []))
    window = tuple(case["window"]) if case.get("window") else None
    if leg == "overlap":
        run_lift_overlap(res, dict(N=case["N"]), 0, 1)
        return [d for d in res.deviations if d["case"] == case] or res.deviations
    if leg == "alt":
        C.alt_case(res, case["N"], case["rot"], edits, window, case["order"])
    elif leg == "lift":
        hap = C.Hap(case["N"], case["rot"], edits, window, seqless=case["form"] == "seqless")
        C.lift_case(res, hap, tuple(tuple(b) for b in case["blocks"]), case["strand"], case["form"], case["api"])
    elif leg in ("iv", "agg"):
        I.replay(res, case)
    elif leg == "vcf":
        VCF.replay(res, case)
    else:
        raise ValueError(leg)
    return res.deviations


# ---- matchers for the recorded defects ------------------------------------------------------------------------
def m_deleted_location_raises(d):
    """a location whose every base is deleted: lift_over_location raises EmptyLocationException instead of returning
    an empty location (the library's own right-to-left coordinate arithmetic does give EmptyLocation)"""
    return (
        d["op"] == "lift_over_location"
        and d["sig"] == "lift-deleted-location-raises"
        and d["expected"].get("empty") is True
        and d["observed"] == {"exc": "EmptyLocationException"}
        and d.get("rtl_ok") is True
    )


def m_sequential_shift(d):
    """>= 2 length-changing variants in one collection, and the library's own single-variant arithmetic applied
    right-to-left gives the model's answer (every single step is right): only the order of application is wrong.
    Applies to lift_over_location and to incorporate_variants / alternative_haplotype_mapping built on it."""
    if d.get("n_len_changing", 0) < 2 or d.get("n_variants", 0) < 2:
        return False
    if d["op"] == "lift_over_location":
        return d["sig"] == "lift-sequential-shift" and d.get("rtl_ok") is True
    if d["op"] in ("incorporate_variants", "alternative_haplotype_mapping"):
        return d["sig"].endswith("sequential-shift") and d.get("lift_deviates") is True and d.get("rtl_ok") is True
    return False


def m_cds_start_frame(d):
    """CDSInterval.incorporate_variants on a MINUS-strand CDS of >= 2 blocks: the frame of the lowest-coordinate block
    (the 3'-most exon, frames[0]) is handed to construct_frames_from_location as the 5' start frame; location and raw
    spliced sequence are right, the frames (hence the in-frame sequence / translation) are shifted"""
    if d["op"] != "incorporate_variants" or not d["sig"].endswith("cds-frames"):
        return False
    c = d["case"]
    orig = d.get("orig_frames") or []
    return (
        c["strand"] == "-"
        and len(d.get("orig_blocks") or []) >= 2
        and len(orig) >= 2
        and orig[0] != orig[-1]
        and orig[-1] == c["f0"]
        and d.get("started_with_lowest_block_frame") is True
        and d["observed"]["blocks"] == d["expected"]["blocks"]
    )


def m_vcf_null_ps(d):
    """a record whose FORMAT has a PS field with a missing value (PS '.' -> None in PyVCF) next to any other allele on the
    same chromosome: sorted() compares None with int/None and the conversion dies with TypeError"""
    return (
        d["op"] == "convert_vcf_records_to_model"
        and d.get("null_ps") is True
        and d["observed"] == {"exc": "TypeError"}
        and d.get("n_alleles", 0) >= 2
    )


MATCHERS = {
    "c13_sequential_shift": m_sequential_shift,
}
