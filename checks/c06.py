"""C06 - genome, transcript and CDS coordinate systems of a transcript commute; UTRs/introns partition correctly."""
import itertools

from vlib import lib, worlds
from vlib.model import loc as M
from vlib.model import frame as F
from vlib.runner import ShardResult

from inscripta.biocantor.exc import InvalidPositionException, NoncodingTranscriptError, LocationOverlapException, EmptyLocationException
from inscripta.biocantor.location.location_impl import _EmptyLocation

PROPERTY = "C06"
TITLE = "Genome, transcript and CDS coordinate systems of a transcript commute"
RULE = (
    "every TranscriptInterval on every disjoint exon layout (<=3 blocks, adjacent exons incl.) x both strands x every "
    "contiguous CDS placement [c0,c1) in transcript coordinates (+ non-coding), x {no parent, chromosome parent with "
    "sequence, containing chunk at a non-zero offset}; every position p in [-1,N] through all point conversions, every interval through the six interval "
    "conversions, path independence, inverses, UTR/CDS partition, introns. Non-trivial = multi-exon or minus strand "
    "or CDS boundary on an exon boundary / transcript end."
)
ASSUMPTIONS = [
    "transcript model: position lists P_tx and P_cds (contiguous slice of P_tx); conversions are list.index / indexing",
    "an empty UTR may be EmptyLocation or any zero-length location",
]
WORLD = {"quick": dict(N=6, k=3), "thorough": dict(N=9, k=3)}
NSH = 48
GENOME = "ACGTTGCATGACCGTA"


def world_description(tier):
    w = WORLD[tier]
    return (
        f"exon layouts N={w['N']} k<={w['k']} x strands x all CDS placements x 3 parent kinds; scale family: "
        f"{sum(1 for _ in scale_cases(tier))} transcripts with k in {SCALE_KS[tier]} exons (CDS placements on a ladder of exon "
        f"boundaries / ends): every point conversion, interval conversions with ends at exon/CDS boundaries (+-1 for k<=6)"
    )


SCALE_KS = {"quick": (5, 9, 20), "thorough": (4, 5, 6, 7, 8, 9, 11, 16, 20, 33)}


def scale_cases(tier):
    """transcripts of the scale family (vlib/worlds.py): many exons; CDS placements from a ladder of transcript coordinates
    around the first, a middle and the last exon boundary and the transcript ends"""
    for k, exons in worlds.scale_layouts(tier, offset=2, ks=SCALE_KS[tier], npat=2 if tier == "quick" else 3):
        bp = worlds.boundary_points(exons, around=0)
        ln = bp[-1]
        pts = sorted({0, 1, bp[1], bp[len(bp) // 2] - 1, bp[len(bp) // 2], bp[-2], bp[-2] + 1, ln - 1, ln} & set(range(ln + 1)))
        if tier == "quick":
            pts = sorted({0, bp[1], bp[len(bp) // 2] + 1, bp[-2], ln})
        for strand in "+-":
            yield exons, strand, None
            for i, c0 in enumerate(pts):
                for c1 in pts[i + 1 :]:
                    yield exons, strand, (c0, c1)


def shards(tier, seed):
    return [{"tier": tier, "i": i} for i in range(NSH)] + [{"tier": tier, "part": "scale", "i": i} for i in range(NSH)]


def expect_pos(res, name, case, o, exp, sig):
    """exp: int or None (must raise InvalidPositionException/ValueError)"""
    res.trans()
    if exp is None:
        res.note(name, "outside")
        if o[0] == "ok":
            res.deviation(name, case, o[1], "InvalidPositionException", sig=sig + "-accepts-outside")
        elif not isinstance(o[2], (InvalidPositionException, ValueError)):
            res.deviation(name, case, o[1], "InvalidPositionException", sig=sig + "-wrong-exc")
    else:
        res.note(name, "inside")
        if o[0] != "ok" or o[1] != exp:
            res.deviation(name, case, o[1], exp, sig=sig)


def loc_positions(R):
    if type(R) is _EmptyLocation:
        return []
    return M.P(lib.loc_blocks(R), lib.loc_strand(R))


def check_overlapping_cds(res, N, exons, strand, cds_blocks):
    """CDS given as two OVERLAPPING blocks (programmed frameshift): the 5' UTR, the CDS and the 3' UTR must still be
    disjoint, in that order along the transcript, and cover the exons exactly (as position sets for the CDS)."""
    genome = GENOME[:N]
    case = dict(kind="ovlcds", N=N, exons=[list(b) for b in exons], strand=strand, cds_blocks=[list(b) for b in cds_blocks])
    o = lib.outcome(lib.mk_tx, exons, strand, cds_blocks, [0] * len(cds_blocks), lib.chrom_parent(genome))
    res.trans()
    if o[0] != "ok":
        if not lib.is_documented_exc(o[2]):
            res.deviation("TranscriptInterval", dict(op="ovlcds-ctor", **case), o[1], "object or documented refusal", sig="ovlcds-ctor")
        return
    tx = o[1]
    res.state(("ovlcds", exons, strand, cds_blocks))
    res.nontriv(("ovlcds", exons, strand, cds_blocks))
    Ptx = F.tx_positions(exons, strand)
    cset = M.S(cds_blocks)
    first = min(i for i, p in enumerate(Ptx) if p in cset)
    last = max(i for i, p in enumerate(Ptx) if p in cset)
    for name, fn, E in (("get_5p_interval", tx.get_5p_interval, Ptx[:first]), ("get_3p_interval", tx.get_3p_interval, Ptx[last + 1 :])):
        o = lib.outcome(fn)
        res.trans()
        c = dict(op=name, **case)
        res.note(name, "overlapping-cds")
        if o[0] != "ok":
            res.deviation(name, c, o[1], E, sig=f"ovlcds-{name}-raises")
            continue
        got = loc_positions(o[1]) if len(o[1]) else []
        if got != E:
            res.deviation(name, c, got, E, sig=f"ovlcds-{name}")


def _genome(N):
    return GENOME[:N] if N <= len(GENOME) else (GENOME * (N // len(GENOME) + 1))[:N]


def check_tx(res, N, exons, strand, cds, pk, f0=0, after_seq=False, scale=False):
    genome = _genome(N)
    if pk == "chrom":
        parent = lib.chrom_parent(genome)
    elif pk == "chunk":
        # a chunk that contains the whole transcript but starts at a non-zero chromosome offset: every chromosome-level
        # conversion must be unaffected (chunk windows that CUT the transcript are C07's subject)
        parent = lib.chunk_parent(genome, min(s_ for s_, e_ in exons), N)
    else:
        parent = None
    case0 = dict(N=N, exons=[list(b) for b in exons], strand=strand, cds=list(cds) if cds else None, pk=pk, f0=f0)
    if scale:
        case0["scale"] = True
    if after_seq:
        case0["after_seq"] = True
    Ptx = F.tx_positions(exons, strand)
    ln = len(Ptx)
    if cds:
        cb = F.cds_blocks_for(exons, strand, cds[0], cds[1])
        if len(F.exons_5to3(cb, strand)[0]) < f0:
            return
        frames = F.consistent_frames_plus_order(cb, strand, f0)
        tx = lib.mk_tx(exons, strand, cb, frames, parent)
        Pcds = Ptx[cds[0] : cds[1]]
    else:
        tx = lib.mk_tx(exons, strand, parent=parent)
        Pcds = None
    if after_seq:
        # the coordinate systems do not depend on what was asked before: the same battery on a transcript whose sequences
        # (spliced, CDS, protein, reference) have already been extracted - extraction walks the block lists the
        # conversions use.  The spliced sequence itself is judged against the transcript position list.
        o = lib.outcome(lambda: str(tx.get_spliced_sequence()))
        res.trans()
        exp_seq = F.splice(genome, Ptx, strand)
        if o[0] != "ok" or o[1] != exp_seq:
            res.deviation("get_spliced_sequence", dict(op="get_spliced_sequence", **case0), o[1], exp_seq, sig="spliced-seq")
        for fn in (lambda: tx.get_reference_sequence(), lambda: tx.get_cds_sequence(), lambda: tx.get_protein_sequence(), lambda: str(tx.get_spliced_sequence())):
            lib.outcome(fn)
    res.state(("tx", exons, strand, cds, pk, f0, after_seq))
    if len(exons) > 1 or strand == "-" or (cds and (cds[0] == 0 or cds[1] == ln)):
        res.nontriv(("tx", exons, strand, cds, pk))
    # ---- point conversions -----------------------------------------------------------------------------------
    for p in range(-1, N + 1):
        c = dict(p=p, **case0)
        in_tx = p in Ptx
        expect_pos(res, "sequence_pos_to_transcript", dict(op="sequence_pos_to_transcript", **c), lib.outcome(tx.sequence_pos_to_transcript, p), Ptx.index(p) if in_tx else None, "s2t")
        if cds:
            in_cds = p in Pcds
            expect_pos(res, "sequence_pos_to_cds", dict(op="sequence_pos_to_cds", **c), lib.outcome(tx.sequence_pos_to_cds, p), Pcds.index(p) if in_cds else None, "s2c")
            expect_pos(res, "sequence_pos_to_amino_acid", dict(op="sequence_pos_to_amino_acid", **c), lib.outcome(tx.cds.sequence_pos_to_amino_acid, p), Pcds.index(p) // 3 if in_cds else None, "s2aa")
        else:
            o = lib.outcome(tx.sequence_pos_to_cds, p)
            res.trans()
            if o[0] == "ok" or not isinstance(o[2], NoncodingTranscriptError):
                res.deviation("sequence_pos_to_cds", dict(op="sequence_pos_to_cds", **c), o[1], "NoncodingTranscriptError", sig="noncoding")
    for r in range(-1, ln + 1):
        c = dict(r=r, **case0)
        ok = 0 <= r < ln
        expect_pos(res, "transcript_pos_to_sequence", dict(op="transcript_pos_to_sequence", **c), lib.outcome(tx.transcript_pos_to_sequence, r), Ptx[r] if ok else None, "t2s")
        if cds:
            in_cds = ok and cds[0] <= r < cds[1]
            expect_pos(res, "transcript_pos_to_cds", dict(op="transcript_pos_to_cds", **c), lib.outcome(tx.transcript_pos_to_cds, r), r - cds[0] if in_cds else None, "t2c")
        else:
            o = lib.outcome(tx.transcript_pos_to_cds, r)
            res.trans()
            if o[0] == "ok" or not isinstance(o[2], (NoncodingTranscriptError, InvalidPositionException, ValueError)):
                res.deviation("transcript_pos_to_cds", dict(op="transcript_pos_to_cds", **c), o[1], "NoncodingTranscriptError", sig="noncoding")
    if cds:
        lc = len(Pcds)
        for q in range(-1, lc + 1):
            c = dict(q=q, **case0)
            ok = 0 <= q < lc
            expect_pos(res, "cds_pos_to_sequence", dict(op="cds_pos_to_sequence", **c), lib.outcome(tx.cds_pos_to_sequence, q), Pcds[q] if ok else None, "c2s")
            expect_pos(res, "cds_pos_to_transcript", dict(op="cds_pos_to_transcript", **c), lib.outcome(tx.cds_pos_to_transcript, q), q + cds[0] if ok else None, "c2t")
            # path independence and inverses on the implementation itself
            if ok:
                o = lib.outcome(lambda: tx.sequence_pos_to_cds(tx.transcript_pos_to_sequence(tx.cds_pos_to_transcript(q))))
                res.trans()
                if o[0] != "ok" or o[1] != q:
                    res.deviation("roundtrip", dict(op="cds->tx->seq->cds", **c), o[1], q, sig="path")
    # ---- the same questions in chunk-relative coordinates (chunk position q <-> chromosome position a + q), asked on the
    # same object right after the chromosome-level ones, with the same integers -----------------------------------------
    if pk == "chunk":
        a0 = min(s_ for s_, e_ in exons)
        for q in range(-1, N - a0 + 1):
            c = dict(q=q, **case0)
            p = a0 + q
            in_tx = q >= 0 and p in Ptx
            expect_pos(res, "chunk_relative_pos_to_transcript", dict(op="chunk_relative_pos_to_transcript", **c), lib.outcome(tx.chunk_relative_pos_to_transcript, q), Ptx.index(p) if in_tx else None, "k2t")
            if cds:
                in_cds = q >= 0 and p in Pcds
                expect_pos(res, "chunk_relative_pos_to_cds", dict(op="chunk_relative_pos_to_cds", **c), lib.outcome(tx.chunk_relative_pos_to_cds, q), Pcds.index(p) if in_cds else None, "k2c")
            # and the chromosome-level question once more, after the chunk-level one
            expect_pos(res, "sequence_pos_to_transcript", dict(op="sequence_pos_to_transcript", p=q, **case0), lib.outcome(tx.sequence_pos_to_transcript, q), Ptx.index(q) if q in Ptx else None, "s2t-after-chunk")
        for r in range(-1, ln + 1):
            ok = 0 <= r < ln
            expect_pos(res, "transcript_pos_to_chunk_relative", dict(op="transcript_pos_to_chunk_relative", r=r, **case0), lib.outcome(tx.transcript_pos_to_chunk_relative, r), Ptx[r] - a0 if ok else None, "t2k")
        if cds:
            for q in range(-1, len(Pcds) + 1):
                ok = 0 <= q < len(Pcds)
                expect_pos(res, "cds_pos_to_chunk_relative", dict(op="cds_pos_to_chunk_relative", q=q, **case0), lib.outcome(tx.cds_pos_to_chunk_relative, q), Pcds[q] - a0 if ok else None, "c2k")
    # ---- interval conversions ------------------------------------------------------------------------------------
    # (scale family: interval ends at exon / CDS boundaries of the transcript, and one base to either side of them)
    tpts = range(0, ln + 1)
    if scale:
        tpts = sorted(set(worlds.boundary_points(sorted(exons), around=1 if len(exons) <= 6 else 0)[:: 1 if len(exons) <= 6 else 3]) | {ln} | ({c + d for c in cds for d in (-1, 0, 1) if 0 <= c + d <= ln} if cds else set()))
    for a in tpts:
        for b in tpts:
            if b <= a:
                continue
            for rho in "+-":
                E = Ptx[a:b] if rho == "+" else list(reversed(Ptx[a:b]))
                o = lib.outcome(tx.transcript_interval_to_sequence, a, b, lib.STRAND[rho])
                res.trans()
                c = dict(op="transcript_interval_to_sequence", a=a, b=b, rho=rho, **case0)
                if o[0] != "ok" or loc_positions(o[1]) != E or lib.loc_strand(o[1]) != M.strand_rel(strand, rho):
                    res.deviation("transcript_interval_to_sequence", c, loc_positions(o[1]) if o[0] == "ok" else o[1], E, sig="ti2s")
    if cds:
        lc = len(Pcds)
        cpts = range(0, lc + 1) if not scale else sorted({t - cds[0] for t in tpts if cds[0] <= t <= cds[1]} | {0, lc})
        for a in cpts:
            for b in cpts:
                if b <= a:
                    continue
                for rho in "+-":
                    E = Pcds[a:b] if rho == "+" else list(reversed(Pcds[a:b]))
                    o = lib.outcome(tx.cds_interval_to_sequence, a, b, lib.STRAND[rho])
                    res.trans()
                    c = dict(op="cds_interval_to_sequence", a=a, b=b, rho=rho, **case0)
                    if o[0] != "ok" or loc_positions(o[1]) != E or lib.loc_strand(o[1]) != M.strand_rel(strand, rho):
                        res.deviation("cds_interval_to_sequence", c, loc_positions(o[1]) if o[0] == "ok" else o[1], E, sig="ci2s")
    gpts = range(0, N + 1)
    if scale:
        ar = (-1, 0, 1) if len(exons) <= 6 else (0,)
        gpts = sorted({c + d for s_, e_ in exons[:: 1 if len(exons) <= 6 else 3] for c in (s_, e_) for d in ar if 0 <= c + d <= N} | ({c for p_ in (min(Pcds), max(Pcds) + 1) for c in (p_ - 1, p_, p_ + 1) if 0 <= c <= N} if cds else set()))
    for cs in gpts:
        for ce in gpts:
            if ce <= cs:
                continue
            for rho in "+-":
                PQ = list(range(cs, ce)) if rho == "+" else list(range(ce - 1, cs - 1, -1))
                for name, Pref in (("sequence_interval_to_transcript", Ptx), ("sequence_interval_to_cds", Pcds)):
                    if Pref is None:
                        continue
                    E = [p for p in PQ if p in Pref]
                    o = lib.outcome(getattr(tx, name), cs, ce, lib.STRAND[rho])
                    res.trans()
                    c = dict(op=name, a=cs, b=ce, rho=rho, **case0)
                    if not E:
                        if o[0] == "ok" and len(o[1]) != 0:
                            res.deviation(name, c, lib.canon_loc(o[1]), "LocationOverlapException", sig="si2x-accepts-disjoint")
                        elif o[0] == "exc" and not isinstance(o[2], (LocationOverlapException, EmptyLocationException)):
                            res.deviation(name, c, o[1], "LocationOverlapException", sig="si2x-wrong-exc")
                        continue
                    if o[0] != "ok":
                        res.deviation(name, c, o[1], E, sig="si2x-raises")
                        continue
                    R = o[1]
                    rb = lib.loc_blocks(R)
                    if any(s < 0 or e > len(Pref) for s, e in rb):
                        res.deviation(name, c, rb, "in range", sig="si2x-range")
                        continue
                    O = [Pref[i] for i in loc_positions(R)]
                    if O != E or lib.loc_strand(R) != M.strand_rel(rho, strand):
                        res.deviation(name, c, O, E, sig="si2x")
    # ---- UTRs, CDS, introns ------------------------------------------------------------------------------------------
    span = set(range(min(s for s, e in exons), max(e for s, e in exons)))
    o = lib.outcome(lambda: tx.chromosome_gaps_location)
    res.trans()
    expi = span - set(Ptx)
    if o[0] != "ok" or set(loc_positions(o[1])) != expi or (expi and lib.loc_strand(o[1]) != strand):
        res.deviation("chromosome_gaps_location", dict(op="chromosome_gaps_location", **case0), loc_positions(o[1]) if o[0] == "ok" else o[1], sorted(expi), sig="introns")
    o = lib.outcome(lambda: tx.chromosome_intron_location)
    res.trans()
    if o[0] != "ok" or set(loc_positions(o[1])) != expi:
        res.deviation("chromosome_intron_location", dict(op="chromosome_intron_location", **case0), o[1], sorted(expi), sig="introns")
    o = lib.outcome(lambda: tx.chromosome_span)
    res.trans()
    if o[0] != "ok" or set(loc_positions(o[1])) != span:
        res.deviation("chromosome_span", dict(op="chromosome_span", **case0), o[1], sorted(span), sig="span")
    if cds:
        parts = {}
        for name, fn, E in (("get_5p_interval", tx.get_5p_interval, Ptx[: cds[0]]), ("cds_location", lambda: tx.cds_location, Pcds), ("get_3p_interval", tx.get_3p_interval, Ptx[cds[1] :])):
            o = lib.outcome(fn)
            res.trans()
            c = dict(op=name, **case0)
            res.note(name, "empty" if not E else "nonempty")
            if o[0] != "ok":
                res.deviation(name, c, o[1], E, sig=f"{name}-raises", empty_expected=not E, multi_exon=len(exons) > 1)
                continue
            got = loc_positions(o[1]) if len(o[1]) else []
            if pk == "chunk" and name != "cds_location":
                # documented: on a chunk the UTR intervals are chunk-relative; lift them back by the chunk offset
                got = [p + min(s_ for s_, e_ in exons) for p in got]
            if got != E:
                res.deviation(name, c, got, E, sig=name)
            elif E and lib.loc_strand(o[1]) != strand:
                res.deviation(name, c, lib.loc_strand(o[1]), strand, sig=f"{name}-strand")
            parts[name] = got
        if len(parts) == 3:
            res.trans()
            if parts["get_5p_interval"] + parts["cds_location"] + parts["get_3p_interval"] != Ptx:
                res.deviation("utr-partition", dict(op="partition", **case0), parts, Ptx, sig="partition")
        for name, fn, e in (("cds_start", lambda: tx.cds_start, min(Pcds)), ("cds_end", lambda: tx.cds_end, max(Pcds) + 1), ("cds_size", lambda: tx.cds_size, len(Pcds)), ("is_coding", lambda: tx.is_coding, True)):
            o = lib.outcome(fn)
            res.trans()
            if o[0] != "ok" or o[1] != e:
                res.deviation(name, dict(op=name, **case0), o[1], e, sig="cds-bounds")
    else:
        for name, fn in (("get_5p_interval", tx.get_5p_interval), ("get_3p_interval", tx.get_3p_interval), ("cds_location", lambda: tx.cds_location), ("cds_start", lambda: tx.cds_start)):
            o = lib.outcome(fn)
            res.trans()
            res.note(name, "noncoding")
            if o[0] == "ok" or not isinstance(o[2], NoncodingTranscriptError):
                res.deviation(name, dict(op=name, **case0), o[1], "NoncodingTranscriptError", sig="noncoding")
        o = lib.outcome(lambda: (tx.is_coding, tx.cds_size))
        res.trans()
        if o[0] != "ok" or o[1] != (False, 0):
            res.deviation("is_coding", dict(op="is_coding", **case0), o[1], (False, 0), sig="noncoding-flags")
    # sequence agreement when a sequence is attached
    if pk in ("chrom", "chunk"):
        o = lib.outcome(lambda: str(tx.get_spliced_sequence()))
        res.trans()
        e = F.splice(genome, Ptx, strand)
        if o[0] != "ok" or o[1] != e:
            res.deviation("get_spliced_sequence", dict(op="get_spliced_sequence", **case0), o[1], e, sig="spliced-seq")


def run_shard(shard):
    res = ShardResult()
    w = WORLD[shard["tier"]]
    if shard.get("part") == "scale":
        for idx, (exons, strand, cds) in enumerate(scale_cases(shard["tier"])):
            if idx % NSH != shard["i"]:
                continue
            N = exons[-1][1] + 2
            for pk in ("chrom", "chunk", "none"):
                if pk != "chrom" and cds is not None and cds[0] != 0:
                    continue
                check_tx(res, N, exons, strand, cds, pk, scale=True)
            if cds and cds[0] == 0:
                for f0 in (1, 2):
                    check_tx(res, N, exons, strand, cds, "chrom", f0, scale=True)
        res.sample({"scale": "many-exon transcripts", "ks": list(SCALE_KS[shard["tier"]])})
        return res
    N = w["N"]
    idx = 0
    for exons in worlds.layouts(N, w["k"], "disjoint"):
        ln = sum(e - s for s, e in exons)
        for strand in "+-":
            idx += 1
            if idx % NSH != shard["i"]:
                continue
            placements = [None] + [(c0, c1) for c0 in range(ln) for c1 in range(c0 + 1, ln + 1)]
            for cds in placements:
                for pk in ("none", "chrom", "chunk"):
                    if pk == "chunk" and exons[0][0] == 0:
                        continue
                    check_tx(res, N, exons, strand, cds, pk)
                    if pk != "none" and len(exons) > 1:
                        check_tx(res, N, exons, strand, cds, pk, after_seq=True)
                # 5'-incomplete CDS (start frame 1 / 2): coordinates and amino-acid index = CDS position // 3 all the same
                if cds and (cds[0] == 0 or cds[1] == ln or cds[1] - cds[0] <= 4):
                    for f0 in (1, 2):
                        check_tx(res, N, exons, strand, cds, "chrom", f0)
            # CDS with two overlapping blocks inside the first exon / across the first two exons
            e0 = exons[0]
            if e0[1] - e0[0] >= 3:
                for ov in (1, 2):
                    mid = e0[0] + 1 + ov
                    if mid < e0[1]:
                        check_overlapping_cds(res, N, exons, strand, ((e0[0], mid), (mid - ov, e0[1])))
                        if e0[1] - e0[0] >= 5 and mid + 1 < e0[1]:
                            # staggered overlap with UTR bases on both sides inside the exon
                            check_overlapping_cds(res, N, exons, strand, ((e0[0] + 1, mid + 1), (mid + 1 - ov, e0[1] - 1)))
    res.sample({"exons": [[0, 2], [3, 5]], "strand": "-", "cds": [1, 3], "P_tx": F.tx_positions(((0, 2), (3, 5)), "-")})
    return res


def replay(case):
    res = ShardResult()
    if case.get("kind") == "ovlcds":
        check_overlapping_cds(res, case["N"], tuple(tuple(b) for b in case["exons"]), case["strand"], tuple(tuple(b) for b in case["cds_blocks"]))
        return res.deviations
    check_tx(res, case["N"], tuple(tuple(b) for b in case["exons"]), case["strand"], tuple(case["cds"]) if case["cds"] else None, case["pk"], case.get("f0", 0), case.get("after_seq", False), scale=case.get("scale", False))
    devs = [d for d in res.deviations if d["case"].get("op") == case.get("op")]
    return devs or res.deviations


def _m_empty_3p(d):
    return False


MATCHERS = {}
