"""C11 - GFF3 export is well-formed and gene models survive export -> parse.

Three legs on every generated collection (see DESIGN section 5, C11):
  leg 1  the text written by ``collection_to_gff3`` is read by an independent GFF3 reader (``c11_gff``) and compared with the
         rows that the source specification must produce (``c11_model.expected_forest``);
  (legs 2 and 3 run on collections without feature collections only: the property's quantifier lists gene models)
  leg 2  the file is parsed back with ``parse_standard_gff3`` / ``parse_gff3_embedded_fasta`` and every gene is compared with
         the source (exons, CDS blocks, frames, strand, identifiers, biotypes, qualifiers, attached sequence);
  leg 3  F1 = export(C), C2 = parse(F1), F2 = export(C2), C3 = parse(F2), F3 = export(C3): the gene comparison holds on the
         second hop too and F3 reproduces F2 (rows compared up to the order of rows sharing a start coordinate).
"""
import collections
import copy
import io
import os
import tempfile
import warnings
from urllib.parse import unquote

from vlib import lib
from vlib.model import frame as FM
from vlib.runner import ShardResult

from checks import c11_gff as R
from checks import c11_model as M
from checks import c11_world as W

from inscripta.biocantor.io.models import AnnotationCollectionModel
from inscripta.biocantor.io.gff3.writer import collection_to_gff3
from inscripta.biocantor.io.gff3.parser import parse_standard_gff3, parse_gff3_embedded_fasta
from inscripta.biocantor.io.gff3.exc import ReservedKeyWarning

PROPERTY = "C11"
TITLE = "GFF3 export is well-formed and gene models survive export -> parse"
RULE = (
    "collections are enumerated exhaustively from small parameters: every disjoint exon layout x strand x every contiguous CDS "
    "placement x start frame (single-transcript genes) in every export mode (chromosome / chunk-relative for every containing "
    "window / no parent, with and without FASTA); all frame vectors; all pairs and triples of isoforms of a tiny transcript world; "
    "all gene pairs (+ feature collection); feature collections; qualifier keys and values = all 342 strings of length 1-2 over "
    "the 18-atom special-character alphabet in 5 positions and on all identifier fields; reserved keys x flag; missing "
    "identifiers; biotype combinations; FASTA line-width boundary; multi-sequence files; refused flag combinations. Every exported "
    "text is decoded by an independent reader and compared with a model of the rows (leg 1); collections without feature collections "
    "are also re-parsed by the library (leg 2) and driven twice through export/parse (leg 3). The quick tier runs legs 2/3 on a stated "
    "sub-family (see world description). Non-trivial = >=2 blocks, minus strand, coding, chunk mode or special characters."
)
ASSUMPTIONS = [
    "compatibility layer vlib/compat (marshmallow 4 / Biopython 1.88 shims) is part of the trusted base: io.models and the GFF3 parser do not import without it",
    "collections are built through AnnotationCollectionModel.Schema().load(spec).to_annotation_collection(parent), the route the parsers use",
    "a fresh collection object is built for every export (to_gff merges parent qualifiers into the children's sets, which is C10's subject)",
    "the strand column of container rows (gene, biological_region) is only required to be a valid symbol: the data model gives containers no strand",
    "a source identifier or biotype that is None is 'unspecified': whatever the parser infers for it (the locus tag as transcript id, the gene's "
    "biotype for a transcript without one, ...) is accepted, and so are the qualifiers provided_biotype / provided_transcript_biotype=unspecified",
    "legs 2 and 3 exclude strings containing ',' or '\"' (gffutils cannot carry them; excluded by the property statement)",
    "chunk-relative mode is exercised with windows that contain every interval of the collection",
    "literal '&' and non-ASCII characters in column 9 are accepted unescaped (they decode to themselves; the statement asks for decodability only)",
    "the quantifier of the property lists gene models only: legs 2 and 3 (library re-parse, fixpoint) run only on collections WITHOUT feature "
    "collections; collections with feature collections are checked by leg 1 (syntax and row model) alone",
    "observations outside the statement (not checked, not findings): the GFF3 parser takes the row ID as feature_collection_id and adds the container "
    "row types to feature_type, so files with a feature collection never reach an export/parse fixpoint; a feature collection with features on both "
    "strands cannot be parsed back (GFF3ChildParentMismatchError); subregion rows are never read, so multi-block features come back as their span and "
    "the features of one collection are merged into one",
]
NSH = 64
GENE_TYPES = ("gene", "transcript", "exon", "CDS")


def world_description(tier):
    return W.describe(tier)


def shards(tier, seed):
    return [{"tier": tier, "i": i} for i in range(NSH)]


# ---- driving the implementation -------------------------------------------------------------------------------------------------
def build(spec, parent_desc, genome):
    name = spec["sequence_name"]
    if parent_desc is None:
        parent = None
    elif parent_desc == "chrom":
        parent = lib.chrom_parent(genome, name=name)
    else:
        parent = lib.chunk_parent(genome, parent_desc[1], parent_desc[2], name=name)
    return AnnotationCollectionModel.Schema().load(copy.deepcopy(spec)).to_annotation_collection(parent)


def export(colls, fasta, crc=True, rra=True, **kw):
    buf = io.StringIO()
    with warnings.catch_warnings(record=True) as ws:
        warnings.simplefilter("always")
        collection_to_gff3(colls, buf, add_sequences=fasta, chromosome_relative_coordinates=crc, raise_on_reserved_attributes=rra, **kw)
    return buf.getvalue(), [w for w in ws if issubclass(w.category, ReservedKeyWarning)]


def parse(text, fasta):
    fd, path = tempfile.mkstemp(prefix="c11_", suffix=".gff3", dir=os.environ.get("TMPDIR") or None)
    try:
        with os.fdopen(fd, "w", encoding="utf-8", newline="") as fh:
            fh.write(text)
        fn = parse_gff3_embedded_fasta if fasta else parse_standard_gff3
        with warnings.catch_warnings():
            warnings.simplefilter("ignore")
            return list(fn(path))
    finally:
        try:
            os.unlink(path)
        except OSError:
            pass


def expected_refusal(case, specs):
    """documented refusals of collection_to_gff3 / to_gff for this flag combination (None = must succeed)"""
    parent, crc, fasta, rra = case["parent"], case["crc"], case["fasta"], case["rra"]
    is_chunk = isinstance(parent, list)
    out = set()
    if fasta and crc and is_chunk:
        return {"GFF3ExportException"}
    if fasta and parent is None:
        out.add("GFF3ExportException")
    if not crc and not is_chunk:
        out.add("NoSuchAncestorException")
    if rra and any(M.spec_has_dropped_keys(s) for s in specs):
        out.add("GFF3ExportException")
    return out or None


# ---- comparisons -------------------------------------------------------------------------------------------------------------------
def flat(node, out, depth=0):
    out.append((node[1], node[2], node[3], "*" if depth == 0 else node[4], node[5], node[6]))
    for c in node[7]:
        flat(c, out, depth + 1)
    return out


def forest_diff(obs, exp):
    """short signature + details of the first kind of disagreement between two canonical forests"""
    fo, fe = [], []
    for n in obs:
        flat(n, fo)
    for n in exp:
        flat(n, fe)
    co = collections.Counter(r[:5] for r in fo)
    ce = collections.Counter(r[:5] for r in fe)
    if co != ce:
        return "rows-coords", dict(missing=sorted((ce - co).elements()), extra=sorted((co - ce).elements()))
    ao = collections.Counter((r[0], k, v) for r in fo for k, v in r[5])
    ae = collections.Counter((r[0], k, v) for r in fe for k, v in r[5])
    if ao != ae:
        missing = sorted((ae - ao).elements())
        extra = sorted((ao - ae).elements())
        mk = {(t, k) for t, k, _ in missing}
        ek = {(t, k) for t, k, _ in extra}
        if mk & ek:
            kind = "value"
        elif mk and ek:
            kind = "key"
        elif mk:
            kind = "missing"
        else:
            kind = "extra"
        keys = sorted({k for _, k, _ in missing} | {k for _, k, _ in extra})
        return "attrs-" + kind, dict(missing=missing[:6], extra=extra[:6], keys=keys)
    return "parent-wiring", dict(observed=repr(obs)[:300], expected=repr(exp)[:300])


def wildcard(forest):
    return sorted(M.wildcard_root_strand(n) for n in forest)


def leg1_file(res, case, text, specs, genomes, warns, off, tag="F1"):
    """syntax + structure + (for F1) row model.  Returns the decoded file or None."""
    dev = lambda sig, obs, exp, **kw: res.deviation("leg1", case, obs, exp, sig=f"{tag}-{sig}", **kw)  # noqa: E731
    g = R.read_gff3(text)
    seen = set()
    for code, detail in g["problems"]:
        if code not in seen:
            seen.add(code)
            dev("syntax-" + code, detail, "well-formed GFF3")
    if any(code in ("columns", "non-integer-coordinate", "empty-column") for code, _ in g["problems"]):
        return None
    seen = set()
    for code, detail in R.structure_problems(g):
        key = (code, detail.split(" ")[0])  # one report per rule and row type
        if key not in seen:
            seen.add(key)
            dev("struct-" + code, detail, "GFF3 ID/Parent/order rules")
    if specs is None:
        return g
    parent, fasta = case["parent"], case["fasta"]
    is_chunk = isinstance(parent, list)
    # headers / FASTA
    order = sorted(range(len(specs)), key=lambda i: specs[i]["sequence_name"])
    exp_headers = ["##gff-version 3"]
    exp_fasta = None
    if fasta:
        exp_fasta = []
        for i in order:
            seq = genomes[i][parent[1]:parent[2]] if is_chunk else genomes[i]
            exp_headers.append(f"##sequence-region {specs[i]['sequence_name']} 1 {len(seq)}")
            exp_fasta.append((specs[i]["sequence_name"], seq))
    if g["headers"] != exp_headers:
        dev("headers", g["headers"], exp_headers)
    if (g["fasta"] is None) != (exp_fasta is None):
        dev("fasta-presence", g["fasta"] is not None, exp_fasta is not None)
    elif exp_fasta is not None:
        got = [(n, s) for n, _, s in g["fasta"]]
        if [s for _, s in got] != [s for _, s in exp_fasta]:
            dev("fasta-sequence", got, exp_fasta)
        elif got != exp_fasta:
            dev("fasta-name-not-seqid", [n for n, _ in got], [n for n, _ in exp_fasta], chunk=is_chunk)
    # row model
    exp = []
    for s in specs:
        exp.extend(n for _, n, _ in M.expected_forest(s, off))
    exp = sorted(exp)
    obs = wildcard(R.forest(g))
    if obs != exp:
        sig, det = forest_diff(obs, exp)
        dev("model-" + sig, det.get("extra", det.get("observed")), det.get("missing", det.get("expected")), keys=det.get("keys"))
    # source and type columns
    for r in g["rows"]:
        if r["source"] != "BioCantor":
            dev("source-column", r["source"], "BioCantor")
            break
    # reserved keys: warning + drop when the flag is off
    dropped = any(M.spec_has_dropped_keys(s) for s in specs)
    if dropped and not case["rra"] and not warns:
        dev("reserved-dropped-without-warning", 0, "ReservedKeyWarning")
    return g


FIELDS_TX = ("exons", "cds", "frames", "strand", "transcript_id", "transcript_symbol", "transcript_type", "protein_id", "product")
FIELDS_GENE = ("gene_id", "gene_symbol", "locus_tag", "gene_type")
STRUCT_FIELDS = ("exons", "cds", "frames", "strand")


def match_by_key(exp, obs):
    """pairs (expected, observed); falls back to positional matching of the single element when an id is unspecified"""
    if None not in exp and set(exp) == set(obs):
        return [(exp[k], obs[k]) for k in sorted(exp, key=repr)], None
    if len(exp) == 1 and len(obs) == 1:
        return [(next(iter(exp.values())), next(iter(obs.values())))], None
    if None in exp and len(exp) == len(obs):
        # match on structure when ids are unspecified
        pairs = []
        left = dict(obs)
        for k in sorted(exp, key=repr):
            e = exp[k]
            cand = [ok for ok, o in left.items() if all(o.get(f) == e.get(f) for f in STRUCT_FIELDS if f in e)]
            if not cand:
                return None, (sorted(map(repr, obs)), sorted(map(repr, exp)))
            pairs.append((e, left.pop(sorted(cand, key=repr)[0])))
        return pairs, None
    return None, (sorted(map(repr, obs)), sorted(map(repr, exp)))


def compare_genes(res, case, exp, obs, dup, hop, strict_none=False):
    """exp/obs: gene_id -> gene dict (c11_model).  One deviation per (field kind)."""
    def dev(sig, o, e, **kw):
        res.deviation("leg2" if hop == 1 else "leg3", case, o, e, sig=f"hop{hop}-{sig}", hop=hop, **kw)

    n = 0
    for kind, ident in dup:
        dev("parse-duplicate-" + kind, ident, "unique")
    pairs, err = match_by_key(exp, obs)
    if pairs is None:
        dev("parse-gene-set", err[0], err[1])
        return 1
    for e, o in pairs:
        for f in FIELDS_GENE:
            n += 1
            if e[f] is None and not strict_none:
                continue
            if o[f] != e[f]:
                dev("parse-" + f, o[f], e[f], gene_type=e["gene_type"])
        oq = dict(o["qualifiers"])
        if e["gene_type"] is None and oq.get("provided_biotype") == [M.UNKNOWN_BIOTYPE] and "provided_biotype" not in e["qualifiers"]:
            del oq["provided_biotype"]
        n += 1
        if oq != e["qualifiers"]:
            dev("parse-gene-qualifiers" + qual_kind(oq, e["qualifiers"]), oq, e["qualifiers"])
        tp, terr = match_by_key(e["transcripts"], o["transcripts"])
        if tp is None:
            dev("parse-transcript-set", terr[0], terr[1])
            continue
        for et, ot in tp:
            for f in FIELDS_TX:
                n += 1
                if et[f] is None and f not in ("cds", "frames") and not strict_none:
                    continue
                if f in ("protein_id", "product") and et["cds"] is None:
                    continue
                if ot[f] != et[f]:
                    dev("parse-" + f, ot[f], et[f], gene_type=e["gene_type"], transcript_id=et["transcript_id"])
            oq = dict(ot["qualifiers"])
            eq = dict(et["qualifiers"])
            for k in ("provided_biotype", "provided_transcript_biotype"):
                if k in oq and k not in eq and (e["gene_type"] is None or et["transcript_type"] is None) and set(oq[k]) <= {M.UNKNOWN_BIOTYPE}:
                    del oq[k]
            n += 1
            if oq != eq:
                dev("parse-transcript-qualifiers" + qual_kind(oq, eq), oq, eq)
    return n


def qual_kind(o, e):
    """shape of a qualifier disagreement: keys that come back percent-encoded are singled out"""
    if o == e:
        return ""
    dec = {}
    for k, v in o.items():
        dec.setdefault(unquote(k), []).extend(v)
    dec = {k: sorted(set(v)) for k, v in dec.items()}
    if dec == e and set(o) != set(e):
        return "-key-still-encoded"
    if set(o) == set(e):
        return "-values"
    return "-keys"


def decode_keys_once(g):
    """copy of a decoded file whose attribute keys are percent-decoded one more time (shape test for re-encoded keys)"""
    g2 = dict(g)
    rows = []
    for r in g["rows"]:
        r2 = dict(r)
        a = {}
        for k, v in r["attrs"].items():
            a.setdefault(unquote(k), []).extend(v)
        r2["attrs"] = a
        rows.append(r2)
    g2["rows"] = rows
    return g2


def split_rows(g, gene_part):
    g2 = dict(g)
    g2["rows"] = [r for r in g["rows"] if (r["type"] in GENE_TYPES) == gene_part]
    return g2


def compare_files(res, case, f2, f3):
    """F3 must reproduce F2: header lines, FASTA lines, and rows up to the order inside one start coordinate."""
    g2, g3 = R.read_gff3(f2), R.read_gff3(f3)
    if g2["headers"] != g3["headers"]:
        res.deviation("leg3", case, g3["headers"], g2["headers"], sig="fixpoint-headers")
    if g2["fasta_lines"] != g3["fasta_lines"]:
        res.deviation("leg3", case, g3["fasta_lines"][:4], g2["fasta_lines"][:4], sig="fixpoint-fasta")
    if R.rows_by_start(g2) == R.rows_by_start(g3):
        return True
    # classify the disagreement (files that reach leg 3 contain gene rows only; anything else is reported under 'other')
    for gene_part, label in ((True, "gene"), (False, "other")):
        a, b = split_rows(g2, gene_part), split_rows(g3, gene_part)
        if R.rows_by_start(a) == R.rows_by_start(b):
            continue
        fa, fb = R.forest(a), R.forest(b)
        if fa == fb:
            if [r["start"] for r in a["rows"]] != [r["start"] for r in b["rows"]]:
                sig, det = "row-order", ([r["start"] for r in b["rows"]], [r["start"] for r in a["rows"]])
            else:
                sig, det = "ids-only", ("same rows, different ID values", "identical IDs")
            res.deviation("leg3", case, det[0], det[1], sig=f"fixpoint-{label}-{sig}", part=label)
            continue
        keys_a = {k for r in a["rows"] for k in r["attrs"]}
        keys_b = {k for r in b["rows"] for k in r["attrs"]}
        b1 = decode_keys_once(b)
        keys_b1 = {k for r in b1["rows"] for k in r["attrs"]}
        if keys_b != keys_a and keys_b1 == keys_a:
            # F3's keys are F2's keys percent-encoded once more
            res.deviation("leg3", case, sorted(keys_b - keys_a), sorted(keys_a - keys_b), sig=f"fixpoint-{label}-key-reencoded", part=label)
            fb = R.forest(b1)
            if fb == fa:
                continue
        s, d = forest_diff(fb, fa)
        sig = s
        if s.startswith("attrs"):
            sig = s + ":" + ",".join(d["keys"][:4])
        res.deviation("leg3", case, d.get("extra", d.get("observed")), d.get("missing", d.get("expected")), sig=f"fixpoint-{label}-{sig}",
                      part=label, keys=d.get("keys"))
    return False


# ---- one case -----------------------------------------------------------------------------------------------------------------------
def is_nontrivial(case, specs):
    if isinstance(case["parent"], list) or case.get("string"):
        return True
    for s in specs:
        for g in s.get("genes", []):
            for t in g["transcripts"]:
                if len(t["exon_starts"]) > 1 or t["strand"] == "MINUS" or t.get("cds_starts"):
                    return True
        for fc in s.get("feature_collections", []):
            for f in fc["feature_intervals"]:
                if len(f["interval_starts"]) > 1 or f["strand"] == "MINUS":
                    return True
    return False


def run_trunc_case(res, case):
    """Chunk-relative export on a window that cuts the 3' end of the transcript (5' end intact).  Judged: GFF3 syntax and
    ID/Parent/order rules; exon and CDS rows = source blocks clipped to the window and shifted; phase of every CDS row (all kept
    rows keep their 5' end, so the phase is the source phase).  Not judged: gene/transcript rows, attributes.  A documented
    refusal of the export is accepted."""
    spec, genome, (_, a, b) = case["spec"], case["genome"], case["parent"]
    o = lib.outcome(lambda: export([build(spec, case["parent"], genome)], False, False, True))
    res.trans()
    if o[0] != "ok":
        if lib.is_documented_exc(o[2]):
            res.note("export", "trunc-refused:" + o[1])
        else:
            res.deviation("leg1", case, f"{o[1]}: {o[2]}"[:200], "GFF3 text or documented refusal", sig="trunc-export-raises-" + o[1])
        return
    f1 = o[1][0]
    res.note("export", "trunc-chunk")
    res.state(("F", f1))
    res.nontriv((spec, a, b))
    g = leg1_file(res, case, f1, None, None, None, a, tag="T1")
    if g is None:
        return
    exp = []
    for gene in spec["genes"]:
        for t in gene["transcripts"]:
            st = M.STRAND_SYM[t["strand"]]
            for s0, e0 in zip(t["exon_starts"], t["exon_ends"]):
                if s0 < b and e0 > a:
                    exp.append(("exon", max(s0, a) + 1 - a, min(e0, b) - a, st, "."))
            for s0, e0, f in zip(t.get("cds_starts") or [], t.get("cds_ends") or [], t.get("cds_frames") or []):
                if s0 < b and e0 > a:
                    cut5 = (s0 < a) if st == "+" else (e0 > b)
                    exp.append(("CDS", max(s0, a) + 1 - a, min(e0, b) - a, st, "?" if cut5 else M.PHASE_OF_FRAME[f]))
    obs = [(r["type"], r["start"], r["end"], r["strand"], r["phase"]) for r in g["rows"] if r["type"] in ("exon", "CDS")]
    # a row whose 5' end is cut is not judged on its phase
    unjudged = {e[:4] for e in exp if e[4] == "?"}
    obs = [o_[:4] + ("?",) if o_[:4] in unjudged else o_ for o_ in obs]
    res.trans()
    if sorted(obs) != sorted(exp):
        co, ce = collections.Counter(obs), collections.Counter(exp)
        only_phase = collections.Counter(x[:4] for x in obs) == collections.Counter(x[:4] for x in exp)
        res.deviation("leg1", case, sorted((co - ce).elements()), sorted((ce - co).elements()),
                      sig="T1-trunc-" + ("phase" if only_phase else "rows"))


def run_case(res, case):
    specs = case.get("specs") or [case["spec"]]
    genomes = case["genome"] if isinstance(case["genome"], list) else [case["genome"]]
    parent, crc, fasta, rra, legs = case["parent"], case["crc"], case["fasta"], case["rra"], case["legs"]
    is_chunk = isinstance(parent, list)
    off = parent[1] if (is_chunk and not crc) else 0
    if case.get("trunc"):
        return run_trunc_case(res, case)
    colls = [build(s, parent, gn) for s, gn in zip(specs, genomes)]
    refusal = expected_refusal(case, specs)
    o = lib.outcome(export, colls, fasta, crc, rra)
    res.trans()
    if refusal:
        if o[0] == "ok":
            res.deviation("leg1", case, "exported", sorted(refusal), sig="export-not-refused")
        elif o[1] not in refusal:
            res.deviation("leg1", case, o[1], sorted(refusal), sig="export-refused-with-undocumented-" + o[1])
        res.note("export", "refused:" + (o[1] if o[0] == "exc" else "NOT"))
        return
    if o[0] != "ok":
        res.deviation("leg1", case, f"{o[1]}: {o[2]}"[:200], "GFF3 text", sig="export-raises-" + o[1])
        res.note("export", "raised")
        return
    f1, warns = o[1]
    res.note("export", ("chunk" if off or (is_chunk and not crc) else "chrom") + ("+fasta" if fasta else ""))
    res.state(("F", f1))
    if is_nontrivial(case, specs):
        res.nontriv((specs, parent, crc, fasta))
    # exporting is read-only: the SAME collection objects exported a second time write the same text
    o_2 = lib.outcome(export, colls, fasta, crc, rra)
    res.trans()
    if o_2[0] != "ok" or o_2[1][0] != f1:
        res.deviation("leg1", case, o_2[1][0] if o_2[0] == "ok" else o_2[1], f1, sig="export-second-time-differs")
    # the writer takes any ITERABLE of collections: a one-shot iterator in the given order (ordered=False) writes what the
    # list in the given order writes (the sorted file f1 when the given order is the sorted one)
    o_l = lib.outcome(export, [build(s, parent, gn) for s, gn in zip(specs, genomes)], fasta, crc, rra, ordered=False)
    o_i = lib.outcome(export, iter([build(s, parent, gn) for s, gn in zip(specs, genomes)]), fasta, crc, rra, ordered=False)
    res.trans(2)
    if o_l[0] != "ok" or o_i[0] != "ok" or o_l[1][0] != o_i[1][0] or (len(specs) == 1 and o_l[1][0] != f1):
        res.deviation("leg1", case, [x[1][0] if x[0] == "ok" else x[1] for x in (o_l, o_i)], f1 if len(specs) == 1 else "one text for list and iterator",
                      sig="export-iterable-differs")
    g1 = leg1_file(res, case, f1, specs, genomes, warns, off)
    if any(s.get("feature_collections") for s in specs):
        # the quantifier of the property lists gene models only: feature collections are checked by leg 1 alone
        res.note("legs", "feature-collection:leg1-only")
        return
    if g1 is None or 2 not in legs:
        return
    # ---- leg 2 ---------------------------------------------------------------------------------------------------------------
    o = lib.outcome(parse, f1, fasta)
    res.trans()
    if o[0] != "ok":
        res.deviation("leg2", case, f"{o[1]}: {o[2]}"[:200], "parsed records", sig="hop1-parse-raises-" + o[1], chunk=is_chunk, fasta=fasta)
        res.note("parse", "raised:" + o[1])
        return
    recs = o[1]
    res.note("parse", f"{len(recs)} record(s)")
    by_name = {}
    for r in recs:
        by_name.setdefault(r.annotation.sequence_name, []).append(r)
    if sorted(by_name) != sorted(s["sequence_name"] for s in specs) or any(len(v) != 1 for v in by_name.values()):
        res.deviation("leg2", case, sorted(by_name), sorted(s["sequence_name"] for s in specs), sig="hop1-parse-record-set")
        return
    colls2, dicts2 = [], []
    for s, gn in zip(specs, genomes):
        r = by_name[s["sequence_name"]][0]
        seq = gn[parent[1]:parent[2]] if is_chunk else gn
        if fasta:
            got = None if r.seqrecord is None else str(r.seqrecord.seq)
            if got != seq:
                res.deviation("leg2", case, got, seq, sig="hop1-parse-seqrecord")
        oc = lib.outcome(r.to_annotation_collection)
        if oc[0] != "ok":
            res.deviation("leg2", case, f"{oc[1]}: {oc[2]}"[:200], "AnnotationCollection", sig="hop1-to-collection-raises-" + oc[1])
            return
        ac2 = oc[1]
        if fasta:
            got = None if ac2.sequence is None else str(ac2.sequence)
            if got != seq:
                res.deviation("leg2", case, got, seq, sig="hop1-collection-sequence")
            else:
                # the attached sequence is the one the gene models read: spliced transcript sequences against an independent splice
                for gene in ac2.genes:
                    for tx in gene.transcripts:
                        pos = FM.tx_positions(tuple((b.start, b.end) for b in tx.chromosome_location.blocks), lib.SYM[tx.strand])
                        want = FM.splice(seq, pos, lib.SYM[tx.strand])
                        osq = lib.outcome(lambda: str(tx.get_spliced_sequence()))
                        res.trans()
                        if osq[0] != "ok" or osq[1] != want:
                            res.deviation("leg2", case, osq[1], want, sig="hop1-transcript-sequence")
        d2 = ac2.to_dict()
        exp = M.expected_genes(s, off)
        obs, dup = M.observed_genes(d2)
        res.trans(compare_genes(res, case, exp, obs, dup, hop=1))
        res.state(("C2", repr(sorted(obs.items(), key=repr))))
        colls2.append(ac2)
        dicts2.append(d2)
    if 3 not in legs:
        return
    # ---- leg 3 ---------------------------------------------------------------------------------------------------------------
    o = lib.outcome(export, colls2, fasta, True, True)
    res.trans()
    if o[0] != "ok":
        res.deviation("leg3", case, f"{o[1]}: {o[2]}"[:200], "GFF3 text", sig="F2-export-raises-" + o[1])
        return
    f2 = o[1][0]
    g2 = leg1_file(res, case, f2, None, None, None, 0, tag="F2")
    if g2 is not None:
        # the gene rows of F2 against the row model of the parsed collection it was exported from
        exp2 = sorted(n for d2 in dicts2 for _, n, _ in M.expected_forest(M.spec_from_dict(d2), 0))
        obs2 = wildcard(R.forest(split_rows(g2, True)))
        res.trans()
        if obs2 != exp2:
            sig, det = forest_diff(obs2, exp2)
            res.deviation("leg1", case, det.get("extra", det.get("observed")), det.get("missing", det.get("expected")), sig="F2-model-" + sig,
                          keys=det.get("keys"))
    o = lib.outcome(parse, f2, fasta)
    res.trans()
    if o[0] != "ok":
        res.deviation("leg3", case, f"{o[1]}: {o[2]}"[:200], "parsed records", sig="hop2-parse-raises-" + o[1])
        return
    by_name3 = {}
    for r in o[1]:
        by_name3.setdefault(r.annotation.sequence_name, []).append(r)
    if sorted(by_name3) != sorted(by_name) or any(len(v) != 1 for v in by_name3.values()):
        res.deviation("leg3", case, sorted(by_name3), sorted(by_name), sig="hop2-parse-record-set")
        return
    colls3 = []
    for s, d2 in zip(specs, dicts2):
        r = by_name3[s["sequence_name"]][0]
        oc = lib.outcome(r.to_annotation_collection)
        if oc[0] != "ok":
            res.deviation("leg3", case, f"{oc[1]}: {oc[2]}"[:200], "AnnotationCollection", sig="hop2-to-collection-raises-" + oc[1])
            return
        ac3 = oc[1]
        exp = M.expected_genes(M.spec_from_dict(d2), 0)
        obs, dup = M.observed_genes(ac3.to_dict())
        res.trans(compare_genes(res, case, exp, obs, dup, hop=2))
        colls3.append(ac3)
    o = lib.outcome(export, colls3, fasta, True, True)
    res.trans()
    if o[0] != "ok":
        res.deviation("leg3", case, f"{o[1]}: {o[2]}"[:200], "GFF3 text", sig="F3-export-raises-" + o[1])
        return
    f3 = o[1][0]
    same = compare_files(res, case, f2, f3)
    res.note("fixpoint", "identical" if f2 == f3 else "same-up-to-order" if same else "different")


def run_shard(shard):
    res = ShardResult()
    tier, i = shard["tier"], shard["i"]
    for idx, case in enumerate(W.world(tier)):
        if idx % NSH != i:
            continue
        run_case(res, case)
        res.extra["cases:" + case["family"]] += 1
        if idx in (0, 1000, 10000, 100000):
            res.sample({k: case[k] for k in ("family", "spec", "parent", "crc", "fasta") if k in case})
    return res


def replay(case):
    res = ShardResult()
    run_case(res, case)
    return res.deviations


# ---- matcher of the one recorded library defect (accepts only its own input class AND its own wrong-answer shape) ----------------
def _specs(d):
    c = d["case"]
    return c.get("specs") or [c["spec"]]


def _cds_key(t):
    if not t.get("cds_starts"):
        return None
    return (tuple(t["cds_starts"]), tuple(t["cds_ends"]), tuple(t["cds_frames"]), t["strand"], t.get("protein_id"), t.get("product"))


def m_shared_cds_duplicate_id(d):
    """isoforms with an identical CDS (blocks, frames, strand, protein id, product): the CDS row IDs are digests of that content,
    so both isoforms write rows with the same IDs"""
    if d["sig"] not in ("F1-struct-duplicate-ID", "F2-struct-duplicate-ID") or not str(d["observed"]).startswith("CDS "):
        return False
    if "(first on a CDS row)" not in str(d["observed"]):
        return False
    for s in _specs(d):
        keys = [_cds_key(t) for g in s.get("genes") or [] for t in g["transcripts"]]
        keys = [k for k in keys if k is not None]
        if len(set(keys)) < len(keys):
            return True
    return False


MATCHERS = {"c11_shared_cds_duplicate_id": m_shared_cds_duplicate_id}

# Entry for /verif/known_findings.json (not read by the runner; the builder of this check does not edit that file).
PROPOSED_FINDINGS = [
    {
        "id": "C11-shared-cds-duplicate-id",
        "property": "C11",
        "status": "known",
        "matcher": "c11_shared_cds_duplicate_id",
        "what": "CDS row IDs are '<digest of CDS content>-<i>'; two isoforms with the same CDS (blocks, frames, protein_id, product) therefore write CDS rows with identical IDs but different Parents - IDs are not unique in the file",
        "minimal_input": "gene with t0 exons [1,2) CDS [1,2) and t1 exons [0,1),[1,2) CDS [1,2), no protein_id: both CDS rows have the same ID",
        "call_site": "inscripta/biocantor/gene/cds.py CDSInterval.to_gff: id=f'{cds_guid}-{i}'",
    }
]
