"""C18, GenBank clause: "GenBank features grouped by locus tag produce the same genes whatever the order of records in
the file" - all permutations of the feature records of a locus-tag-complete GenBank record, LOCUS_TAG parser mode.

World: records of the C12 world (checks/c12_world.py) whose file has <= 5 (quick) / <= 6 (thorough) feature rows, every
row carrying a /locus_tag: 1 gene, 1 gene + 1 feature collection, every ordered pair (3 arrangements) and every ordered
triple of a 5-structure menu, both flavours.  The file is written by the library's own writer; the feature blocks of
the text are permuted (ALL n! orders) and every permuted file is parsed with
parse_genbank(gbk_type=GenBankParserType.LOCUS_TAG); the canonical, order-free set of gene models must equal that of
the unpermuted file.  Feature collections are not genes: differences there are counted (counter
'fc_grouping_differs'), not judged.
"""
import itertools
import json

from vlib import lib

from checks import c12_world as W
from checks import c12_io as IO

NSH = 16
MAXROWS = {"quick": 5, "thorough": 6}
SUBMENU = (0, 1, 4, 5, 6)  # coding 1 exon +, coding 2 exons - (frame 1), tRNA -, ncRNA 2 exons +, rRNA 3 exons -


def records(tier):
    """(rec, flavour) pairs of the tier, deterministic order"""
    menu = [W.MENU[i] for i in SUBMENU]
    recs = []
    for m in menu:
        recs.append({"genome": "A", "genes": [W.place(m, 3)], "fcs": []})
        for fc in W.FC_MENU:
            for foff in (0, 25):
                recs.append({"genome": "A", "genes": [W.place(m, 12)],
                             "fcs": [dict(blocks=[[s + foff, e + foff] for s, e in fc["blocks"]], strand=fc["strand"])]})
    for a, b in itertools.product(menu, repeat=2):
        for offs in W.ARR2:
            recs.append({"genome": "A", "genes": [W.place(a, offs[0]), W.place(b, offs[1])], "fcs": []})
    for a, b, c in itertools.product(menu, repeat=3):
        recs.append({"genome": "A", "genes": [W.place(a, 1), W.place(b, 14), W.place(c, 27)], "fcs": []})
    # locus tags that differ only in letter case are different tags: grouping must not confuse or split them
    CASE_TAGS = ("ab_1", "AB_1", "Ab_1")
    for a, b in itertools.product(menu, repeat=2):
        for offs in W.ARR2:
            recs.append({"genome": "A", "genes": [dict(W.place(a, offs[0]), lt=CASE_TAGS[0]), dict(W.place(b, offs[1]), lt=CASE_TAGS[1])], "fcs": []})
    for a, b, c in itertools.product(menu[:3], repeat=3):
        recs.append({"genome": "A", "genes": [dict(W.place(a, 1), lt=CASE_TAGS[1]), dict(W.place(b, 14), lt=CASE_TAGS[0]), dict(W.place(c, 27), lt=CASE_TAGS[2])], "fcs": []})
    # look-alike tag families: tags that differ only in zero padding, tags that are prefixes of one another, tags whose
    # numeric and alphabetic orders differ, tags with separators - all different tags
    for fam in (("b001", "b0001", "b01"), ("lt1", "lt10", "lt2"), ("x_9", "x_10", "x-9"), ("t", "t1", "t1a")):
        for a, b in itertools.product(menu[:3], repeat=2):
            for t1, t2 in itertools.permutations(fam, 2):
                recs.append({"genome": "A", "genes": [dict(W.place(a, W.ARR2[0][0]), lt=t1), dict(W.place(b, W.ARR2[0][1]), lt=t2)], "fcs": []})
        for a in menu[:2]:
            for perm in itertools.permutations(fam):
                recs.append({"genome": "A", "genes": [dict(W.place(a, 1), lt=perm[0]), dict(W.place(menu[2], 14), lt=perm[1]), dict(W.place(menu[2], 27), lt=perm[2])], "fcs": []})
    out = []
    for rec in recs:
        for flavour in W.FLAVOURS:
            if W.n_rows(rec, flavour) <= MAXROWS[tier]:
                out.append((rec, flavour))
    return out


def shards(tier):
    return [{"tier": tier, "part": "genbank", "i": i, "n": NSH} for i in range(NSH)]


def _genes_key(parsed):
    return json.dumps(parsed["genes"], sort_keys=True)


def check_perm(res, rec, flavour, head, blocks, tail, perm, base, count=True):
    case = {"kind": "genbank", "rec": rec, "flavour": flavour, "perm": list(perm)}
    text = IO.join_feature_blocks(head, [blocks[i] for i in perm], tail)
    o = lib.outcome(IO.parse, text, "LOCUS_TAG")
    res.trans()
    if count:
        res.state(("gbperm", text))
        if list(perm) != sorted(perm):
            res.nontriv(("gbperm", text))
    if o[0] != "ok":
        res.note("genbank-perm", "raises")
        res.deviation("parse_genbank:LOCUS_TAG(permuted rows)", case, o[1] + ": " + str(o[2])[:200],
                      [g["locus_tag"] for g in base["genes"]], sig="gbperm-raises")
        return
    if _genes_key(o[1]) != _genes_key(base):
        res.note("genbank-perm", "different-genes")
        res.deviation("parse_genbank:LOCUS_TAG(permuted rows)", case, o[1]["genes"], base["genes"], sig="gbperm-genes-differ")
    else:
        res.note("genbank-perm", f"same-genes:{len(base['genes'])}")
    if o[1]["fcs"] != base["fcs"]:
        res.extra["fc_grouping_differs"] += 1


def prepare(rec, flavour):
    text = IO.export(rec, flavour, True)
    head, blocks, tail = IO.split_feature_blocks(text)
    if IO.join_feature_blocks(head, blocks, tail) != text:
        raise RuntimeError("feature-table surgery is not the identity on the unpermuted file")
    _, _, rows = IO.read_rows(text)
    if len(rows) != len(blocks) or len(blocks) != W.n_rows(rec, flavour):
        raise RuntimeError("feature blocks != feature rows")
    if any("locus_tag" not in r["q"] for r in rows):
        raise RuntimeError("record is not locus-tag complete")
    base = IO.parse(text, "LOCUS_TAG")
    if len(base["genes"]) != len(rec["genes"]):
        raise RuntimeError("unpermuted file does not give one gene per source gene")
    return head, blocks, tail, base


def dup_records(tier):
    """records in which two gene features carry the SAME locus tag: whatever the parser does with them (refuse, as today,
    or answer), it must do the same for every order of the rows"""
    menu = [W.MENU[i] for i in SUBMENU]
    out = []
    for a, b in itertools.product(menu[:3], repeat=2):
        rec = {"genome": "A", "genes": [dict(W.place(a, W.ARR2[0][0]), lt="dup_1"), dict(W.place(b, W.ARR2[0][1]), lt="dup_1")], "fcs": []}
        for flavour in W.FLAVOURS:
            if W.n_rows(rec, flavour) <= MAXROWS[tier]:
                out.append((rec, flavour))
    return out


def check_dup(res, rec, flavour):
    text = IO.export(rec, flavour, True)
    head, blocks, tail = IO.split_feature_blocks(text)
    outcomes = {}
    for perm in itertools.permutations(range(len(blocks))):
        o = lib.outcome(IO.parse, IO.join_feature_blocks(head, [blocks[i] for i in perm], tail), "LOCUS_TAG")
        res.trans()
        key = ("refused", o[1]) if o[0] != "ok" else ("genes", _genes_key(o[1]))
        outcomes.setdefault(key, perm)
    res.state(("gbdup", text))
    res.nontriv(("gbdup", text))
    res.note("genbank-dup", "refused-in-every-order" if all(k[0] == "refused" for k in outcomes) else "answered")
    if len(outcomes) > 1:
        ks = sorted(outcomes, key=repr)
        res.deviation("parse_genbank:LOCUS_TAG(duplicate locus tag, permuted rows)", {"kind": "genbank-dup", "rec": rec, "flavour": flavour},
                      [[k[0], str(k[1])[:120], list(outcomes[k])] for k in ks[:4]], "one outcome for every order of the rows", sig="gbdup-order-dependent")


def check_fc_types(res, types_per_feature, strand, order):
    """"feature types are collected from every type-like qualifier" - of the feature they are written on: a feature collection
    of two or three features with DIFFERENT types (one locus tag for all its rows) is written and read back; every interval
    that comes back carries its row type plus its own type values, whatever its neighbours carry and in whatever order the
    rows stand in the file"""
    import io as _io

    from inscripta.biocantor.gene import AnnotationCollection
    from inscripta.biocantor.gene.collections import FeatureIntervalCollection
    from inscripta.biocantor.io.genbank.writer import collection_to_genbank
    from inscripta.biocantor.io.genbank.parser import parse_genbank, GenBankParserType

    genome = W.GENOMES["A"]
    par = lib.chrom_parent(genome, name=IO.SEQNAME)
    feats, exp = [], {}
    for i, types in enumerate(types_per_feature):
        bl = ((2 + 9 * i, 6 + 9 * i),)
        feats.append(lib.mk_feat(bl, strand, par, feature_name=f"n{i}", feature_id=f"i{i}", feature_types=list(types), sequence_name=IO.SEQNAME))
        exp[bl[0]] = {"feat_interval"} | set(types)
    case = {"kind": "genbank-fctypes", "types": [list(t) for t in types_per_feature], "strand": strand, "order": list(order)}

    def roundtrip():
        fc = FeatureIntervalCollection(feats, feature_collection_name="fc", feature_collection_id="fcid", locus_tag="LTfc", sequence_name=IO.SEQNAME, parent_or_seq_chunk_parent=par)
        ac = AnnotationCollection(feature_collections=[fc], sequence_name=IO.SEQNAME, parent_or_seq_chunk_parent=par)
        buf = _io.StringIO()
        collection_to_genbank([ac], buf)
        head, blocks, tail = IO.split_feature_blocks(buf.getvalue())
        text = IO.join_feature_blocks(head, [blocks[i] for i in order if i < len(blocks)] + [b for i, b in enumerate(blocks) if i not in order], tail)
        d = list(parse_genbank(_io.StringIO(text), gbk_type=GenBankParserType.LOCUS_TAG))[0].to_annotation_collection().to_dict()
        got = {}
        for c in d["feature_collections"]:
            for f in c["feature_intervals"]:
                got[(f["interval_starts"][0], f["interval_ends"][-1])] = set(f["feature_types"])
        return got

    o = lib.outcome(roundtrip)
    res.trans()
    res.state(("fctypes", tuple(types_per_feature), strand, tuple(order)))
    res.nontriv(("fctypes", tuple(types_per_feature), strand, tuple(order)))
    res.note("genbank-fctypes", f"{len(types_per_feature)}-features")
    if o[0] != "ok":
        res.deviation("parse_genbank:feature types", case, o[1], {str(k): sorted(v) for k, v in exp.items()}, sig="fctypes-raises")
        return
    bad = {str(k): [sorted(o[1].get(k, [])), sorted(v)] for k, v in exp.items() if o[1].get(k) != v}
    if bad:
        res.deviation("parse_genbank:feature types", case, bad, "row type + the feature's own type values", sig="fctypes-wrong")


def run(res, shard):
    tier = shard["tier"]
    if shard["i"] == 0:
        menus = [(("promoter",), ("terminator",)), (("promoter", "enhancer"), ("terminator",), ("promoter",)), (("a_type",), ("a_type",), ("b_type",))]
        for tp in menus:
            n_rows = len(tp) + 1
            for order in itertools.permutations(range(n_rows)):
                for strand in "+-":
                    check_fc_types(res, tp, strand, order)
    for idx, (rec, flavour) in enumerate(dup_records(tier)):
        if idx % shard["n"] == shard["i"]:
            check_dup(res, rec, flavour)
    for idx, (rec, flavour) in enumerate(records(tier)):
        if idx % shard["n"] != shard["i"]:
            continue
        head, blocks, tail, base = prepare(rec, flavour)
        res.note("genbank-rows", str(len(blocks)))
        for perm in itertools.permutations(range(len(blocks))):
            check_perm(res, rec, flavour, head, blocks, tail, perm, base)
    res.sample({"kind": "genbank", "rec": {"genome": "A", "genes": [W.place(W.MENU[1], 1), W.place(W.MENU[4], 14)], "fcs": []},
                "flavour": "EUKARYOTIC", "perm": [4, 2, 0, 3, 1]}, cap=4)


def replay(res, case):
    if case.get("kind") == "genbank-fctypes":
        check_fc_types(res, tuple(tuple(t) for t in case["types"]), case["strand"], tuple(case["order"]))
        return
    if case.get("kind") == "genbank-dup":
        check_dup(res, case["rec"], case["flavour"])
        return
    head, blocks, tail, base = prepare(case["rec"], case["flavour"])
    check_perm(res, case["rec"], case["flavour"], head, blocks, tail, tuple(case["perm"]), base, count=False)
