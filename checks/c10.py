"""C10 - answers do not depend on call history; operations never change their operands.

E2 history search (DESIGN section 1): a state is (object, memo vector of the object and of what it shares, condition of
the global caches); it is represented by the history that reaches it and rebuilt on a FRESH object by replaying the
prefix (live objects with lru wrappers cannot be copied).  Transitions = accessor calls, argument-menu calls, macro
calls that overflow a per-method cache, and environment actions (evict / clear the global Parent cache, build an
equal-content twin first, build a differently-spelled alias first).  Oracle on every transition: the answer equals -
normalised value AND concrete type - the answer of a freshly built twin in a process state with cleared caches.
"""
import collections
import copy
import enum
import inspect
import itertools
import types
import uuid
import warnings

from vlib import lib, bootstrap
from vlib.model import frame as F
from vlib.runner import ShardResult, h64

from inscripta.biocantor.gene.gene import GeneInterval
from inscripta.biocantor.gene.feature import FeatureInterval, FeatureIntervalCollection
from inscripta.biocantor.gene.transcript import TranscriptInterval
from inscripta.biocantor.gene.cds import CDSInterval
from inscripta.biocantor.gene.cds_frame import CDSFrame
from inscripta.biocantor.gene.codon import Codon, TranslationTable
from inscripta.biocantor.gene.collections import AnnotationCollection
from inscripta.biocantor.gene.variants import VariantInterval, VariantIntervalCollection
from inscripta.biocantor.gene.biotype import Biotype
from inscripta.biocantor.gene.interval import AbstractInterval
from inscripta.biocantor.location.location import Location
from inscripta.biocantor.location.location_impl import SingleInterval, CompoundInterval, EmptyLocation, _EmptyLocation
from inscripta.biocantor.location.strand import Strand
from inscripta.biocantor.parent import Parent
from inscripta.biocantor.parent import parent as parent_mod
from inscripta.biocantor.sequence import Sequence
from inscripta.biocantor.sequence.alphabet import Alphabet
from inscripta.biocantor import SequenceType

PROPERTY = "C10"
TITLE = "Answers do not depend on call history; operations never change their operands"
RULE = (
    "for every object of the catalogue (locations, nested parents, located sequences, features, transcripts +-CDS on "
    "chromosome and chunk, single/multi-exon, start frames, CDS, genes, feature collections, annotation collections "
    "+-variants): breadth-first search over call histories (public zero-argument accessors found by reflection, "
    "argument menus, macro calls that overflow method caches, environment actions evict/clear/twin/alias), "
    "de-duplicated on the memo vector, to closure or the stated depth; every answer compared in value and type with a "
    "cold fresh twin. Operand immutability: every binary/export operation of the catalogue with snapshots of every "
    "operand before/after. Non-trivial = history of length >= 2 (an earlier call can influence a later answer)."
)
ASSUMPTIONS = [
    "a state is identified by its memo vector (lru wrappers' cache sizes, lazy slots, the CDS path flag, recursively for "
    "owned sub-objects and shared Parents) plus the global-cache condition; two histories with equal vectors have equal futures",
    "sequence_type spellings that compare equal ('chromosome' vs SequenceType.CHROMOSOME) are the same answer",
    "depth bound as reported; macro operations (22 windows, 6 translations) reach cache-overflow states within the bound",
]

DEPTH = {"quick": 3, "thorough": 4}
HEAVY = ("tx", "cds", "cds_direct")  # large accessor alphabets: one level shallower, and the first operation is split over sub-shards
NSUB = 4


def depth_for(tier, spec):
    d = DEPTH[tier]
    return d - 1 if spec["kind"] in HEAVY else d
GENOME = "ATGACTTGATAGGCATGCCTAAGTAA"
DENY = {
    # not questions about the object / deliberately excluded
    "scan_codon_locations",  # deprecated alias that only warns and delegates
}


# ---- normalisation --------------------------------------------------------------------------------------------------
def norm(v, depth=0):
    if depth > 8:
        return ("deep",)
    if v is None or isinstance(v, (bool, int, float, str, bytes)):
        if isinstance(v, SequenceType):
            return ("str", v.value)
        return (type(v).__name__, v)
    if isinstance(v, enum.Enum):
        return (type(v).__name__, v.name)
    if isinstance(v, uuid.UUID):
        return ("UUID", str(v))
    if isinstance(v, Location):
        if type(v) is _EmptyLocation:
            return ("EmptyLocation",)
        return (type(v).__name__, lib.loc_blocks(v), lib.loc_strand(v), pchain(v.parent))
    if isinstance(v, Sequence):
        return ("Sequence", str(v), v.alphabet.name, v.id, norm(v.sequence_type), norm(v.location_on_parent, depth + 1))
    if type(v).__name__ == "Parent":
        return ("Parent", pchain(v), norm(v.location, depth + 1), norm(v.strand))
    if isinstance(v, Codon):
        return ("Codon", str(v))
    if isinstance(v, AbstractInterval):
        try:
            d = v.to_dict()
        except Exception as e:  # noqa
            d = ("exc", type(e).__name__)
        try:
            cl = norm(v.chunk_relative_location, depth + 1)
        except Exception as e:  # noqa
            cl = ("exc", type(e).__name__)
        return (type(v).__name__, norm(d, depth + 1), cl)
    if isinstance(v, dict):
        return ("dict", tuple(sorted(((norm(k, depth + 1), norm(x, depth + 1)) for k, x in v.items()), key=repr)))
    if isinstance(v, (set, frozenset)):
        return (type(v).__name__, tuple(sorted((norm(x, depth + 1) for x in v), key=repr)))
    if isinstance(v, (list, tuple)):
        return (type(v).__name__, tuple(norm(x, depth + 1) for x in v))
    if isinstance(v, (types.GeneratorType, map, filter, zip)) or (hasattr(v, "__next__") and hasattr(v, "__iter__")):
        return ("iterator", tuple(norm(x, depth + 1) for x in v))
    tn = type(v).__name__
    if tn in ("GFFRow", "GFFAttributes", "BED12", "BED6", "BED3", "RGB"):
        return (tn, str(v))
    if tn in ("SimpleLocation", "FeatureLocation", "CompoundLocation", "SeqFeature", "Seq"):
        return (tn, repr(v))
    r = repr(v)
    if " at 0x" in r:
        return (tn,)
    return (tn, r)


def pchain(p):
    out = []
    n = 0
    while p is not None and n < 8:
        st = p.sequence_type.value if isinstance(p.sequence_type, SequenceType) else p.sequence_type
        out.append((p.id, st, None if p.sequence is None else (str(p.sequence), p.sequence.alphabet.name)))
        p = p.parent
        n += 1
    return tuple(out)


def answer(fn):
    try:
        with warnings.catch_warnings():
            warnings.simplefilter("ignore")
            return norm(fn())
    except Exception as e:  # noqa
        return ("exc", type(e).__name__)


# ---- memo vector ------------------------------------------------------------------------------------------------------
LAZY = ("_sequence", "_single_interval_store", "_is_overlapping", "_strand_property", "_chunk_relative_codon_locations_cached",
        "_alternative_sequence", "_parent_with_alternative_sequence", "_alternative_genomic_sequence")


def memo_vector(obj, seen=None, depth=0):
    """finite vector describing which memo tables of obj (and of the objects it owns/shares) are filled"""
    if seen is None:
        seen = set()
    if obj is None or id(obj) in seen or depth > 6:
        return ()
    seen.add(id(obj))
    out = []
    d = getattr(obj, "__dict__", None)
    attrs = dict(d) if d else {}
    for slot in LAZY:
        if slot not in attrs and hasattr(obj, slot):
            try:
                attrs[slot] = getattr(obj, slot)
            except Exception:  # noqa
                pass
    for k in sorted(attrs, key=str):
        v = attrs[k]
        if isinstance(k, str) and k.startswith("__wire|"):
            try:
                out.append((k, v.cache_info().currsize))
            except Exception:  # noqa
                out.append((k, "?"))
        elif k in LAZY:
            out.append((k, v if isinstance(v, bool) else v is not None))
        elif isinstance(k, str) and k.startswith("_") and not k.startswith("__"):
            # any other private slot: created / filled / grown since construction (a hand-rolled memo shows up here)
            if isinstance(v, (dict, list, set)):
                out.append((k, "len", len(v)))
            else:
                out.append((k, v is not None))
    # owned / shared sub-objects that carry memo state
    subs = []
    for name in ("cds", "_location", "parent", "location", "sequence", "_parent_or_seq_chunk_parent", "primary_transcript"):
        if name in attrs or hasattr(obj, name):
            try:
                subs.append((name, getattr(obj, name)))
            except Exception:  # noqa
                pass
    for name in ("transcripts", "feature_intervals", "genes", "feature_collections", "variant_collections", "variant_intervals", "_single_interval_store"):
        seq = attrs.get(name) if name in attrs else getattr(obj, name, None)
        if isinstance(seq, (list, tuple)):
            for i, x in enumerate(seq):
                subs.append((f"{name}[{i}]", x))
    for name, sub in subs:
        if sub is None or isinstance(sub, (str, int, bool, enum.Enum)):
            continue
        mv = memo_vector(sub, seen, depth + 1)
        if mv:
            out.append((name, mv))
    return tuple(out)


def global_condition():
    ci = parent_mod.Parent.cache_info()
    return ("parent_cache", "empty" if ci.currsize == 0 else ("full" if ci.currsize >= ci.maxsize else "warm"))


# ---- object catalogue ---------------------------------------------------------------------------------------------------
def _tx(exons, strand, cds, f0, par, **kw):
    if cds:
        cb = F.cds_blocks_for(exons, strand, cds[0], cds[1])
        frames = F.consistent_frames_plus_order(cb, strand, f0)
        return lib.mk_tx(exons, strand, cb, frames, par, sequence_name="chrV", transcript_id="t", transcript_symbol="s", protein_id="p", **kw)
    return lib.mk_tx(exons, strand, parent=par, sequence_name="chrV", transcript_id="t", transcript_symbol="s", **kw)


def _parent(kind, alias=False):
    g = GENOME
    if kind == "chrom":
        return lib.chrom_parent(g)
    if kind == "chrom2":
        st = SequenceType.CHROMOSOME if alias else "chromosome"
        return Parent(id="chrV", sequence_type=st, sequence=Sequence(g, Alphabet.NT_EXTENDED_GAPPED, id="chrV", type=st))
    if kind == "none":
        return None
    a, b = kind
    return lib.chunk_parent(g, a, b)


def build(spec, alias=False):
    k = spec["kind"]
    par = _parent(spec.get("parent", "chrom"), alias) if k not in ("nested",) else None
    if k == "loc":
        return lib.mk_loc([tuple(b) for b in spec["blocks"]], spec["strand"], par)
    if k == "nested":
        from checks import c04

        L, _ = c04.build(GENOME[:8], [(((1, 4), (5, 8)), "-")], (((0, 2), (3, 5)), spec["strand"]))
        return L
    if k == "seq":
        L = lib.mk_loc([tuple(b) for b in spec["blocks"]], spec["strand"], Parent(id="chrV", sequence_type="chromosome"))
        text = F.splice(GENOME, lib.M.P(tuple(tuple(b) for b in spec["blocks"]), spec["strand"]) if False else _P(spec), spec["strand"])
        return Sequence(text, Alphabet.NT_EXTENDED_GAPPED, id="piece", type="sequence_chunk", parent=Parent(location=L))
    if k == "feat":
        # (own qualifiers carry the reserved export keys with OTHER values than the attributes of the same name)
        return lib.mk_feat([tuple(b) for b in spec["blocks"]], spec["strand"], par, sequence_name="chrV", feature_name="f", feature_id="fid", feature_types=["b", "a"],
                           qualifiers={"q": ["2", "1"], "k": ["x"], "feature_id": ["own-fid"], "feature_name": ["own-name"], "feature_type": ["own-type"]})
    if k == "cds_direct":
        # a CDS built directly (not through a transcript): own qualifiers with reserved keys, any frame vector (programmed frameshifts)
        return lib.mk_cds([tuple(b) for b in spec["blocks"]], spec["strand"], spec["frames"], par, sequence_name="chrV", protein_id="p", product="prod",
                          qualifiers={"k": ["c-own"], "protein_id": ["own-pid"], "product": ["own-product"]})
    if k == "tx":
        return _tx([tuple(b) for b in spec["exons"]], spec["strand"], spec.get("cds"), spec.get("f0", 0), par, qualifiers={"k": ["v"], "gene": ["shared"]})
    if k == "cds":
        return _tx([tuple(b) for b in spec["exons"]], spec["strand"], spec["cds"], spec.get("f0", 0), par).cds
    if k == "gene":
        t1 = _tx([tuple(b) for b in spec["exons"]], spec["strand"], spec.get("cds"), 0, par, qualifiers={"k": ["tx-own"], "t": ["1"], "transcript_name": ["txalias"], "protein_id": ["p0"]})
        t2 = _tx([tuple(spec["exons"][0])], spec["strand"], None, 0, par, qualifiers={"k": ["tx2-own"]})
        return GeneInterval([t1, t2], gene_id="g", gene_symbol="G", gene_type=Biotype["protein_coding"], locus_tag="LT1", sequence_name="chrV",
                            qualifiers={"k": ["gene-own"], "g": ["1"], "gene_name": ["alias"], "locus_tag": ["LT0"], "protein_id": ["gene-level-pid"],
                                        "transcript_id": ["gene-level-tid"], "product": ["gene-level-product"]}, parent_or_seq_chunk_parent=par)
    if k == "fcoll":
        f1 = lib.mk_feat([tuple(b) for b in spec["exons"]], spec["strand"], par, sequence_name="chrV", feature_name="f1", feature_types=["a"], qualifiers={"k": ["f-own"]})
        f2 = lib.mk_feat([tuple(spec["exons"][0])], spec["strand"], par, sequence_name="chrV", feature_name="f2", feature_types=["b"])
        return FeatureIntervalCollection([f1, f2], feature_collection_name="fc", feature_collection_id="fcid", sequence_name="chrV",
                                         qualifiers={"k": ["fc-own"], "feature_collection_name": ["fcalias"], "feature_id": ["fc-level-fid"], "feature_name": ["fc-level-name"]},
                                         parent_or_seq_chunk_parent=par)
    if k == "variant":
        return VariantInterval(start=spec["s"], end=spec["e"], sequence=spec["alt"], variant_type="x", variant_name="v", qualifiers={"k": ["v"]}, parent_or_seq_chunk_parent=par)
    if k == "vcoll":
        vs = [VariantInterval(start=a, end=b, sequence=alt, variant_type="x", parent_or_seq_chunk_parent=par) for a, b, alt in spec["vs"]]
        return VariantIntervalCollection(vs, variant_collection_id="vc", sequence_name="chrV", qualifiers={"k": ["vc-own"]}, parent_or_seq_chunk_parent=par)
    if k == "ac":
        gene = build(dict(spec, kind="gene"), alias)
        fc = build(dict(spec, kind="fcoll", exons=[[14, 17], [19, 22]]), alias)
        vcs = None
        if spec.get("variants"):
            v = VariantInterval(start=3, end=4, sequence="G", variant_type="SNV", parent_or_seq_chunk_parent=par)
            vcs = [VariantIntervalCollection([v], variant_collection_id="vc", sequence_name="chrV", parent_or_seq_chunk_parent=par)]
        return AnnotationCollection(feature_collections=[fc], genes=[gene], variant_collections=vcs, name="ac", sequence_name="chrV",
                                    qualifiers={"k": ["ac-own"]}, parent_or_seq_chunk_parent=par)
    raise ValueError(k)


def _P(spec):
    from vlib.model import loc as M

    return M.P(tuple(tuple(b) for b in spec["blocks"]), spec["strand"])


def catalogue(tier):
    out = []
    for s in "+-":
        out.append(dict(kind="loc", blocks=[[2, 9]], strand=s))
        out.append(dict(kind="loc", blocks=[[1, 4], [6, 9], [9, 12]], strand=s))
        out.append(dict(kind="loc", blocks=[[1, 6], [4, 9]], strand=s))  # genuinely overlapping blocks
        out.append(dict(kind="loc", blocks=[[0, 10], [2, 5], [10, 12]], strand=s))  # nested + adjacent
        out.append(dict(kind="nested", strand=s))
        out.append(dict(kind="seq", blocks=[[1, 4], [6, 9]], strand=s))
        out.append(dict(kind="feat", blocks=[[1, 4], [6, 9]], strand=s))
        out.append(dict(kind="feat", blocks=[[1, 4], [6, 9]], strand=s, parent=(2, 12)))
        out.append(dict(kind="tx", exons=[[1, 4], [6, 12]], strand=s))
        out.append(dict(kind="tx", exons=[[0, 12]], strand=s, cds=[0, 12], f0=0))
        out.append(dict(kind="tx", exons=[[0, 13]], strand=s, cds=[1, 12], f0=1))
        out.append(dict(kind="tx", exons=[[0, 5], [7, 14]], strand=s, cds=[1, 11], f0=0))
        out.append(dict(kind="tx", exons=[[0, 5], [7, 14]], strand=s, cds=[0, 12], f0=2, parent=(2, 13)))
        out.append(dict(kind="tx", exons=[[0, 12]], strand=s, cds=[0, 12], f0=0, parent=(3, 10)))
        out.append(dict(kind="cds", exons=[[0, 5], [7, 14]], strand=s, cds=[0, 12], f0=0))
        out.append(dict(kind="cds", exons=[[0, 5], [7, 14]], strand=s, cds=[0, 12], f0=1, parent=(1, 13)))
        out.append(dict(kind="gene", exons=[[0, 5], [7, 14]], strand=s, cds=[1, 11]))
        out.append(dict(kind="fcoll", exons=[[0, 5], [7, 14]], strand=s))
        # frameshift between the exons (the cached codons do not tile the spliced CDS), on the chromosome and on a chunk
        out.append(dict(kind="cds_direct", blocks=[[0, 7], [10, 20]], strand=s, frames=[0, 0]))
        out.append(dict(kind="cds_direct", blocks=[[0, 7], [10, 20]], strand=s, frames=[0, 0], parent=(0, 22)))
        # a CDS of exactly ONE codon (whole, and as what a start frame / a chunk leaves of a longer one)
        out.append(dict(kind="cds_direct", blocks=[[2, 5]], strand=s, frames=[0]))
        out.append(dict(kind="cds_direct", blocks=[[2, 7]], strand=s, frames=[2]))
        out.append(dict(kind="cds_direct", blocks=[[2, 8]], strand=s, frames=[0], parent=(2, 6) if s == "+" else (4, 9)))
        # built without a parent (and adopted later by a gene / feature collection that has one: ENV:adopt)
        out.append(dict(kind="tx", exons=[[0, 5], [7, 14]], strand=s, cds=[1, 11], f0=0, parent="none"))
        out.append(dict(kind="feat", blocks=[[1, 4], [6, 9]], strand=s, parent="none"))
    out.append(dict(kind="gene", exons=[[0, 5], [7, 14]], strand="+", cds=[1, 11], parent=(0, 20)))
    out.append(dict(kind="variant", s=3, e=5, alt="G"))
    out.append(dict(kind="variant", s=3, e=4, alt="GTT", parent=(1, 15)))
    out.append(dict(kind="vcoll", vs=[[2, 3, "T"], [6, 8, ""]]))
    out.append(dict(kind="vcoll", vs=[[4, 5, "AC"]], parent=(2, 14)))
    out.append(dict(kind="ac", exons=[[0, 5], [7, 12]], strand="+", cds=[1, 10]))
    out.append(dict(kind="ac", exons=[[0, 5], [7, 12]], strand="-", cds=[1, 10], parent=(0, 24)))
    out.append(dict(kind="ac", exons=[[0, 5], [7, 12]], strand="+", cds=[1, 10], variants=True))
    if tier == "thorough":
        for s in "+-":
            for f0 in (0, 1, 2):
                for a, b in ((1, 14), (3, 12), (0, 9)):
                    out.append(dict(kind="tx", exons=[[0, 6], [6, 9], [10, 14]], strand=s, cds=[0, 13], f0=f0, parent=(a, b)))
                    out.append(dict(kind="cds", exons=[[2, 14]], strand=s, cds=[0, 12], f0=f0, parent=(a, b)))
            out.append(dict(kind="loc", blocks=[[1, 4], [6, 9]], strand=s, parent="none"))
            for fv in ([0, 1], [1, 0], [2, 2]):
                out.append(dict(kind="cds_direct", blocks=[[0, 7], [10, 20]], strand=s, frames=fv, parent=(3, 18)))
    return out


# ---- operations ------------------------------------------------------------------------------------------------------------
def zero_arg_ops(obj):
    ops = {}
    cls = type(obj)
    for name in dir(cls):
        if name.startswith("_") or name in DENY:
            continue
        try:
            static = inspect.getattr_static(cls, name)
        except AttributeError:
            continue
        if isinstance(static, (staticmethod, classmethod)):
            continue
        if isinstance(static, property) or type(static).__name__ in ("_LruCacheWire", "CachedProperty"):
            ops[name] = (lambda o, n=name: getattr(o, n))
            continue
        f = getattr(cls, name, None)
        if callable(f):
            try:
                sig = inspect.signature(f)
            except (TypeError, ValueError):
                continue
            params = [p for p in list(sig.parameters.values())[1:] if p.default is inspect._empty and p.kind in (p.POSITIONAL_ONLY, p.POSITIONAL_OR_KEYWORD)]
            if not params:
                ops[name + "()"] = (lambda o, n=name: getattr(o, n)())
        else:
            ops[name] = (lambda o, n=name: getattr(o, n))
    # instance attributes
    for name in getattr(obj, "__dict__", {}):
        if isinstance(name, str) and not name.startswith("_") and name not in ops and name not in ("guid_map",):
            ops[name] = (lambda o, n=name: getattr(o, n))
    return ops


WINDOWS22 = [(a, a + w) for w in (4, 7) for a in range(0, 11)]
TRANSL6 = [(t, tab) for t in (False, True) for tab in (TranslationTable.DEFAULT, TranslationTable.STANDARD, TranslationTable.PROKARYOTE)]


def menu_ops(obj):
    ops = {}
    PQ = {"k": {"from-parent"}, "extra": {"e"}}
    if isinstance(obj, Location) and type(obj) is not _EmptyLocation:
        short = obj.parent is not None and obj.parent.sequence is not None and len(obj.parent.sequence) < 10
        partner = lib.mk_loc(((1, 3),) if short else ((3, 7),), "+", obj.parent.strip_location_info() if obj.parent else None)
        ops["intersection(P)"] = lambda o: o.intersection(partner, match_strand=False)
        ops["union(Psame)"] = lambda o: o.union(partner.reset_strand(o.strand))
        cpartner = lib.mk_loc(((0, 2), (3, 4)) if short else ((0, 2), (5, 8)), lib.loc_strand(obj), obj.parent.strip_location_info() if obj.parent else None)
        ops["union(Pcompound)"] = lambda o: o.union(cpartner)
        ops["reset_strand(-).blocks"] = lambda o: [(b.start, b.end, b.strand) for b in o.reset_strand(Strand.MINUS).blocks]
        ops["minus(P)"] = lambda o: o.minus(partner, match_strand=False)
        ops["has_overlap(P)"] = lambda o: o.has_overlap(partner)
        ops["location_relative_to"] = lambda o: partner.location_relative_to(o)
        ops["rel_interval(1,4,-)"] = lambda o: o.relative_interval_to_parent_location(1, 4, Strand.MINUS)
        ops["p2r(3)"] = lambda o: o.parent_to_relative_pos(3)
        ops["hash"] = lambda o: hash(o)
        ops["eq-twin"] = lambda o: o == lib.mk_loc(lib.loc_blocks(o), lib.loc_strand(o), o.parent.strip_location_info() if o.parent else None)
        if o_has_chrom(obj):
            ops["lift(t0)"] = lambda o: o.lift_over_to_first_ancestor_of_type("t0")
    if isinstance(obj, Sequence):
        ops["slice(1,4)"] = lambda o: o[1:4]
        ops["slice(:3)"] = lambda o: o[:3]
        ops["rc.rc"] = lambda o: o.reverse_complement().reverse_complement()
        ops["append-slices"] = lambda o: o[0:2].append(o[2:5])
        ops["hash"] = lambda o: hash(o)
    if isinstance(obj, (TranscriptInterval, FeatureInterval, CDSInterval)):
        ops["to_gff(PQ)"] = lambda o: list(o.to_gff(parent="par", parent_qualifiers=copy.deepcopy(PQ))) if not isinstance(o, CDSInterval) else list(o.to_gff(parent="par", parent_qualifiers=copy.deepcopy(PQ)))
        ops["export_qualifiers(PQ)"] = lambda o: o.export_qualifiers(copy.deepcopy(PQ))
        ops["to_dict(chunk)"] = lambda o: o.to_dict(chromosome_relative_coordinates=False)
        ops["hash"] = lambda o: hash(o)
        ops["p2f(3)"] = lambda o: o.sequence_pos_to_feature(3)
    if isinstance(obj, (TranscriptInterval, FeatureInterval)):
        ops["to_bed12(chunk)"] = lambda o: o.to_bed12(chromosome_relative_coordinates=False)
        ops["to_gff(chunk)"] = lambda o: list(o.to_gff(chromosome_relative_coordinates=False))
    if isinstance(obj, TranscriptInterval) and obj.is_coding:
        for t, tab in TRANSL6:
            ops[f"get_protein_sequence({t},{int(tab)})"] = lambda o, t=t, tab=tab: o.get_protein_sequence(truncate_at_in_frame_stop=t, translation_table=tab)
        ops["MACRO:6-translations"] = lambda o: [str(o.get_protein_sequence(truncate_at_in_frame_stop=t, translation_table=tab)) for t, tab in TRANSL6]
        ops["cds.codons"] = lambda o: o.cds.chunk_relative_codon_locations
        ops["cds.chrom_codons"] = lambda o: o.cds.chromosome_codon_locations
        ops["cds.extract_sequence()"] = lambda o: o.cds.extract_sequence()
        ops["cds.has_valid_stop"] = lambda o: o.cds.has_valid_stop
        ops["cds.translate()"] = lambda o: o.cds.translate()
        ops["cds.num_codons"] = lambda o: o.cds.num_codons
    if isinstance(obj, CDSInterval):
        for t, tab in TRANSL6[:3]:
            ops[f"translate({t},{int(tab)})"] = lambda o, t=t, tab=tab: o.translate(truncate_at_in_frame_stop=t, translation_table=tab)
        ops["MACRO:6-translations"] = lambda o: [str(o.translate(truncate_at_in_frame_stop=t, translation_table=tab)) for t, tab in TRANSL6]
        ops["scan_chrom(2,9)"] = lambda o: list(o.scan_chromosome_codon_locations(2, 9))
        ops["scan_chunk(2,9,expand)"] = lambda o: list(o.scan_chunk_relative_codon_locations(2, 9, True))
        ops["MACRO:22-windows"] = lambda o: [tuple(lib.loc_blocks(c) for c in o.scan_chromosome_codon_locations(a, b)) for a, b in WINDOWS22]
        ops["scan_codons(True)"] = lambda o: list(o.scan_codons(True))
    if isinstance(obj, (GeneInterval, FeatureIntervalCollection)):
        ops["to_gff(chunk)"] = lambda o: list(o.to_gff(chromosome_relative_coordinates=False))
        ops["children.to_dict"] = lambda o: [c.to_dict() for c in o.iter_children()]
        ops["children.qualifiers"] = lambda o: [c.qualifiers for c in o.iter_children()]
        ops["query_by_guids(first)"] = lambda o: o.query_by_guids([next(iter(o.iter_children())).guid])
        ops["hash"] = lambda o: hash(o)
    if isinstance(obj, (VariantInterval, VariantIntervalCollection)):
        tgt = lib.mk_loc(((1, 4), (6, 11)), "-")
        ops["lift_over_location(L)"] = lambda o: o.lift_over_location(tgt)
        ops["lift_over_location(L2)"] = lambda o: o.lift_over_location(lib.mk_loc(((9, 12),), "+"))
        ops["hash"] = lambda o: hash(o)
        ops["to_dict(chunk)"] = lambda o: o.to_dict(chromosome_relative_coordinates=False)
    if isinstance(obj, AnnotationCollection):
        ops["query(2,13,strict)"] = lambda o: o.query_by_position(2, 13)
        ops["query(2,13,relaxed)"] = lambda o: o.query_by_position(2, 13, completely_within=False)
        ops["query(0,8,relaxed,expand)"] = lambda o: o.query_by_position(0, 8, completely_within=False, expand_location_to_children=True)
        ops["query(coding)"] = lambda o: o.query_by_position(0, 20, coding_only=True)
        ops["query_by_feature_identifiers(G)"] = lambda o: o.query_by_feature_identifiers(["G"])
        ops["children.to_dict"] = lambda o: [c.to_dict() for c in o.iter_children()]
        ops["grandchildren.qualifiers"] = lambda o: [g.qualifiers for c in o.iter_children() for g in c.iter_children()]
        ops["to_dict(parent)"] = lambda o: o.to_dict(export_parent=True)
        ops["gff3-text"] = _gff3_text
        ops["hash"] = lambda o: hash(o)
    return ops


def _gff3_text(o):
    import io
    from inscripta.biocantor.io.gff3.writer import collection_to_gff3

    buf = io.StringIO()
    collection_to_gff3([o], buf, add_sequences=False)
    return buf.getvalue()


def o_has_chrom(obj):
    try:
        return obj.has_ancestor_of_type("t0")
    except Exception:  # noqa
        return False


ENV = ("ENV:evict", "ENV:clear", "ENV:twin", "ENV:alias")
ADOPT = "ENV:adopt"  # the object becomes the child of a gene / feature collection that brings a chromosome parent


def adoptable(spec):
    return spec["kind"] in ("tx", "feat") and spec.get("parent", "chrom") in ("none", "chrom")


def adopt(obj):
    """the adopter has a second child of its own, with other types and qualifiers than the adoptee (listed AFTER it)"""
    par = lib.chrom_parent(GENOME)
    if isinstance(obj, TranscriptInterval):
        sib = _tx([(15, 18)], "+", None, 0, None, qualifiers={"sib": ["1"]})
        return GeneInterval([obj, sib], gene_id="adopter", qualifiers={"adopter": ["q"]}, parent_or_seq_chunk_parent=par)
    sib = lib.mk_feat([(15, 18)], "+", None, sequence_name="chrV", feature_name="sib", feature_types=["zz"], qualifiers={"sib": ["1"]})
    return FeatureIntervalCollection([obj, sib], feature_collection_id="adopter", qualifiers={"adopter": ["q"]}, parent_or_seq_chunk_parent=par)


ADOPT_BARE = "ENV:adopt-bare"  # ... of a gene / feature collection that brings NO parent: nothing about the child may change


def adopt_bare(obj):
    if isinstance(obj, TranscriptInterval):
        sib = _tx([(15, 18)], "+", None, 0, None, qualifiers={"sib": ["1"]})
        return GeneInterval([obj, sib], gene_id="bare-adopter")
    sib = lib.mk_feat([(15, 18)], "+", None, sequence_name="chrV", feature_name="sib", feature_types=["zz"])
    return FeatureIntervalCollection([obj, sib], feature_collection_id="bare-adopter")


def content(obj):
    """what an interval says about ITSELF (its dictionary form and type set), independent of who adopted it"""
    import copy

    o = answer(lambda: copy.deepcopy(obj.to_dict()))
    return (o, sorted(getattr(obj, "feature_types", None) or []), str(getattr(obj, "guid", None)))


def env_action(name, spec, obj=None):
    if name == ADOPT:
        answer(lambda: adopt(obj))
        return
    if name == ADOPT_BARE:
        answer(lambda: adopt_bare(obj))
        return
    if name == "ENV:evict":
        for i in range(parent_mod.PARENT_CACHE_SIZE + 1):
            Parent(id=f"evict{i}")
    elif name == "ENV:clear":
        bootstrap.clear_global_caches()
    elif name == "ENV:twin":
        t = build(spec)
        for opn, fn in zero_arg_ops(t).items():
            answer(lambda: fn(t))
    elif name == "ENV:alias":
        t = build(spec, alias=True)
        answer(lambda: getattr(t, "to_dict", lambda: None)())
        # a chromosome parent spelled with the enum instead of the string (equal and equally hashed)
        Parent(id="chrV", sequence_type=SequenceType.CHROMOSOME)
        Parent(id="chrV", sequence_type="chromosome")


# ---- the search ---------------------------------------------------------------------------------------------------------------
def rebuild(spec, history, all_ops):
    bootstrap.clear_global_caches()
    # pre-object environment actions act before construction (twin/alias first), later ones act on the live object
    pre = []
    h = list(history)
    while h and h[0] in ("ENV:twin", "ENV:alias"):
        pre.append(h.pop(0))
    for e in pre:
        env_action(e, spec)
    obj = build(spec)
    for opn in h:
        if opn.startswith("ENV:"):
            env_action(opn, spec, obj)
        else:
            answer(lambda: all_ops[opn](obj))
    return obj


def explore(res, spec, depth, sub=(0, 1)):
    bootstrap.clear_global_caches()
    probe = build(spec)
    all_ops = {}
    all_ops.update(zero_arg_ops(probe))
    all_ops.update(menu_ops(probe))
    names = sorted(all_ops)
    # reference answers: one cold fresh twin per question
    ref = {}
    for n in names:
        bootstrap.clear_global_caches()
        t = build(spec)
        ref[n] = answer(lambda: all_ops[n](t))
    res.extra["operations_in_alphabet"] += len(names)
    # adoption legitimately changes the object (it gains the adopter's parent): after it, the reference is a cold twin that
    # was adopted the same way and asked nothing before
    ref_ad = {}
    envs = list(ENV)
    if adoptable(spec):
        envs.append(ADOPT)
        envs.append(ADOPT_BARE)
        for n in names:
            bootstrap.clear_global_caches()
            t = build(spec)
            env_action(ADOPT, spec, t)
            ref_ad[n] = answer(lambda: all_ops[n](t))
    seen = set()
    frontier = collections.deque([()])
    bootstrap.clear_global_caches()
    seen.add(h64((memo_vector(build(spec)), ("parent_cache", "warm"))))
    n_states = 1
    truncated = 0
    while frontier:
        hist = frontier.popleft()
        for oi, opn in enumerate(names + envs):
            if not hist and oi % sub[1] != sub[0]:
                continue  # the first operation of a history is split over sub-shards
            if opn in ("ENV:twin", "ENV:alias") and any(x not in ("ENV:twin", "ENV:alias") for x in hist):
                continue  # twin/alias are only meaningful before the object exists
            if opn in (ADOPT, ADOPT_BARE) and (ADOPT in hist or ADOPT_BARE in hist):
                continue  # adopted at most once
            obj = rebuild(spec, hist, all_ops)
            if opn.startswith("ENV:"):
                if opn in ("ENV:twin", "ENV:alias"):
                    newh = hist + (opn,)
                    obj = rebuild(spec, newh, all_ops)
                else:
                    before = content(obj) if opn == ADOPT else None
                    before_all = snapshot(obj) if opn == ADOPT_BARE else None
                    env_action(opn, spec, obj)
                    newh = hist + (opn,)
                    if opn == ADOPT_BARE and snapshot(obj) != before_all:
                        # a collection that has no parent of its own has nothing to give: the child keeps parent, hash, everything
                        res.deviation("adopt-bare", dict(spec=spec, history=list(hist), op=ADOPT_BARE), _short(snapshot(obj)), _short(before_all), sig="bare-adoption-changes-child")
                    if opn == ADOPT and content(obj) != before:
                        # being placed in a collection gives the child a parent, never other content (its siblings' types ...)
                        res.deviation("adopt", dict(spec=spec, history=list(hist), op=ADOPT), _short(content(obj)), _short(before), sig="adoption-changes-content")
                res.trans()
            else:
                got = answer(lambda: all_ops[opn](obj))
                res.trans()
                if len(hist) >= 1:
                    res.nontriv((spec_key(spec), hist, opn))
                res.note("answer", "exc" if got[0] == "exc" else "value")
                want = ref_ad[opn] if ADOPT in hist else ref[opn]
                if got != want:
                    res.deviation(
                        opn,
                        dict(spec=spec, history=list(hist), op=opn),
                        _short(got),
                        _short(want),
                        sig=_sig(opn, got, want),
                        stale_pre_adopt=bool(ADOPT in hist and got == ref[opn]),
                        first_op=hist[0] if hist else None,
                    )
                newh = hist + (opn,)
            key = h64((memo_vector(obj), global_condition()))
            if key not in seen:
                seen.add(key)
                n_states += 1
                res.state((spec_key(spec), key))
                if len(newh) < depth:
                    frontier.append(newh)
                else:
                    truncated += 1
    res.extra["frontier_states_at_depth_bound"] += truncated
    res.extra["objects_explored"] += 1
    if truncated == 0:
        res.extra["objects_closed_before_depth_bound"] += 1
    return n_states


def spec_key(spec):
    return repr(sorted(spec.items(), key=lambda kv: kv[0]))


def _short(x):
    s = repr(x)
    return s if len(s) < 300 else s[:300] + "..."


def _sig(opn, got, ref):
    base = opn.split("(")[0]
    if got[0] != ref[0]:
        return f"history-type:{base}:{ref[0]}->{got[0]}"
    return f"history-value:{base}"


# ---- operand immutability --------------------------------------------------------------------------------------------------------
def snapshot(o):
    out = []
    for name, fn in (("norm", lambda: norm(o)), ("hash", lambda: hash(o)), ("qualifiers", lambda: norm(copy.deepcopy(getattr(o, "qualifiers", None)))),
                     ("guid", lambda: str(getattr(o, "guid", None))), ("children", lambda: [norm(c) for c in o.iter_children()] if hasattr(o, "iter_children") else None),
                     ("grand", lambda: [norm(g.qualifiers) for c in o.iter_children() for g in (c.iter_children() if hasattr(c, "iter_children") else [])] if hasattr(o, "iter_children") else None)):
        out.append((name, answer(fn) if name != "hash" else _try(fn)))
    return tuple(out)


def _try(fn):
    try:
        return fn()
    except Exception as e:  # noqa
        return ("exc", type(e).__name__)


def immut_ops(obj):
    """operations that take other operands or export: (name, fn(obj) -> None, [other operands])"""
    ops = []
    g = GENOME
    if isinstance(obj, AnnotationCollection):
        import io
        from inscripta.biocantor.io.gff3.writer import collection_to_gff3
        from inscripta.biocantor.io.genbank.writer import collection_to_genbank
        from inscripta.biocantor.io.ncbi.tbl_writer import collection_to_tbl
        from inscripta.biocantor.io.models import AnnotationCollectionModel

        ops.append(("collection_to_gff3", lambda o: collection_to_gff3([o], io.StringIO(), add_sequences=True), []))
        ops.append(("collection_to_genbank", lambda o: collection_to_genbank([o], io.StringIO()), []))
        ops.append(("collection_to_tbl", lambda o: collection_to_tbl([o], io.StringIO(), locus_tag_prefix="LT", random_seed=7), []))
        ops.append(("model-roundtrip", lambda o: AnnotationCollectionModel.Schema().load(o.to_dict()).to_annotation_collection(), []))
        ops.append(("query_by_position", lambda o: o.query_by_position(1, 13, completely_within=False), []))
        ops.append(("to_gff", lambda o: list(o.to_gff()), []))
    # conversion from the dictionary form: the dictionary handed to from_dict is an operand like any other (also the
    # nested parent description an AnnotationCollection exports on request)
    if hasattr(obj, "to_dict") and hasattr(type(obj), "from_dict"):
        D = _try(lambda: obj.to_dict())
        if isinstance(D, dict):
            ops.append(("from_dict(D)", lambda o, D=D: type(o).from_dict(D), [D]))
        if isinstance(obj, AnnotationCollection):
            DP = _try(lambda: obj.to_dict(export_parent=True))
            if isinstance(DP, dict):
                ops.append(("from_dict(DP)", lambda o, DP=DP: AnnotationCollection.from_dict(DP), [DP]))
                ops.append(("from_dict(DP)-twice", lambda o, DP=DP: (AnnotationCollection.from_dict(DP), AnnotationCollection.from_dict(DP)), [DP]))
    if isinstance(obj, (GeneInterval, FeatureIntervalCollection)):
        ops.append(("to_gff", lambda o: list(o.to_gff()), []))
        ops.append(("to_gff-twice", lambda o: (list(o.to_gff()), list(o.to_gff())), []))
        ops.append(("get_merged", lambda o: o.get_merged_transcript() if isinstance(o, GeneInterval) else o.get_merged_feature(), []))
        ops.append(("liftover_to_chunk", lambda o: o.liftover_to_parent_or_seq_chunk_parent(lib.chunk_parent(g, 0, 20)), []))
    if isinstance(obj, (TranscriptInterval, FeatureInterval)):
        PQ = {"k": {"from-parent"}, "n": {"1"}, "transcript_id": {"pq-tid"}, "protein_id": {"pq-pid"}, "feature_id": {"pq-fid"},
              "feature_name": {"pq-name"}, "transcript_name": {"pq-tname"}, "product": {"pq-product"}}
        ops.append(("to_gff(PQ)", lambda o, pq=PQ: list(o.to_gff(parent="p", parent_qualifiers=pq)), [PQ]))
        ops.append(("export_qualifiers(PQ)", lambda o, pq=PQ: o.export_qualifiers(pq), [PQ]))
        # parent qualifiers that share only ONE key with the interval's own, and none at all
        PQ1 = {"k": {"from-parent"}}
        ops.append(("to_gff(PQ1)", lambda o, pq=PQ1: list(o.to_gff(parent="p", parent_qualifiers=pq)), [PQ1]))
        ops.append(("export_qualifiers(PQ1)", lambda o, pq=PQ1: o.export_qualifiers(pq), [PQ1]))
        ops.append(("to_gff()", lambda o: list(o.to_gff()), []))
        ops.append(("export_qualifiers()", lambda o: o.export_qualifiers(), []))
        ops.append(("to_bed12", lambda o: o.to_bed12(), []))
        v = VariantInterval(start=3, end=4, sequence="GG", variant_type="insertion", parent_or_seq_chunk_parent=lib.chrom_parent(g))
        if not getattr(obj, "is_chunk_relative", False):
            ops.append(("incorporate_variants", lambda o, v=v: o.incorporate_variants(v), [v]))
    if isinstance(obj, CDSInterval):
        for tag, pq in (("PQ", {"k": {"from-parent"}, "protein_id": {"pq-pid"}, "product": {"pq-product"}}), ("PQ1", {"k": {"from-parent"}}), ("", None)):
            ops.append((f"to_gff({tag})", lambda o, pq=pq: list(o.to_gff(parent="p", parent_qualifiers=pq)), [pq] if pq else []))
            ops.append((f"export_qualifiers({tag})", lambda o, pq=pq: o.export_qualifiers(pq), [pq] if pq else []))
        ops.append(("to_bed12", lambda o: o.to_bed12(), []))
        ops.append(("translate+codons", lambda o: (o.translate(), o.chunk_relative_codon_locations, o.extract_sequence()), []))
    if isinstance(obj, Location) and type(obj) is not _EmptyLocation:
        short = obj.parent is not None and obj.parent.sequence is not None and len(obj.parent.sequence) < 10
        p = lib.mk_loc(((0, 2), (3, 4)) if short else ((3, 7), (8, 10)), lib.loc_strand(obj), obj.parent.strip_location_info() if obj.parent else None)
        for nm in ("intersection", "union", "minus", "union_preserve_overlaps", "has_overlap", "contains", "distance_to", "location_relative_to"):
            ops.append((nm, lambda o, p=p, nm=nm: getattr(o, nm)(p), [p]))
        ops.append(("extract_sequence", lambda o: o.extract_sequence(), []))
    if isinstance(obj, Sequence):
        t = obj[0:2]
        ops.append(("append", lambda o, t=t: t.append(o[2:4]), [t]))
        ops.append(("reverse_complement", lambda o: o.reverse_complement(), []))
    return ops


def check_immut(res, spec):
    bootstrap.clear_global_caches()
    probe = build(spec)
    for name, fn, others in immut_ops(probe):
        bootstrap.clear_global_caches()
        obj = build(spec)
        ops = dict(immut_ops(obj) and [(n, (f, oth)) for n, f, oth in immut_ops(obj)])
        fn, others = ops[name]
        before = snapshot(obj)
        before_o = [norm(copy.deepcopy(x)) if isinstance(x, dict) else snapshot(x) for x in others]
        answer(lambda: fn(obj))
        after = snapshot(obj)
        after_o = [norm(x) if isinstance(x, dict) else snapshot(x) for x in others]
        res.trans()
        res.state(("immut", spec_key(spec), name))
        res.nontriv(("immut", spec_key(spec), name))
        res.note("immut", name)
        if before != after:
            which = [b[0] for b, a in zip(before, after) if b != a]
            res.deviation(name, dict(spec=spec, immut=name, op=name), _short(after), _short(before), sig=f"operand-mutated:{name.split('(')[0]}:{'+'.join(which)}")
        if before_o != after_o:
            res.deviation(name, dict(spec=spec, immut=name, op=name), _short(after_o), _short(before_o), sig=f"argument-mutated:{name.split('(')[0]}")


# ---- shard plumbing ------------------------------------------------------------------------------------------------------------------
def world_description(tier):
    return (f"{len(catalogue(tier))} objects; history depth <= {DEPTH[tier]} ({DEPTH[tier] - 1} for transcripts/CDS whose alphabets have 70-90 "
            f"operations); closure reported per object; environment actions {ENV}")


def bound_description(tier):
    return (f"all call histories up to length {DEPTH[tier]} ({DEPTH[tier] - 1} for transcripts/CDS) are enumerated completely; the bound IS hit: "
            "counter frontier_states_at_depth_bound = number of distinct states first reached at the bound whose successors were "
            "not expanded; counter objects_closed_before_depth_bound = objects whose state graph closed below the bound")


def shards(tier, seed):
    cat = catalogue(tier)
    out = []
    for i, spec in enumerate(cat):
        n = NSUB if spec["kind"] in HEAVY else (2 if spec["kind"] in ("ac", "gene") else 1)
        out += [{"tier": tier, "part": "history", "idx": i, "sub": [k, n]} for k in range(n)]
    out += [{"tier": tier, "part": "lochist", "i": i} for i in range(16)]
    return out + [{"tier": tier, "part": "immut", "idx": i} for i in range(len(cat))]


def loc_world(tier):
    """every location of a small layout world (disjoint, zero-length, overlapping blocks; both strands) as a history-search
    object: the cached block list / lazy slots of locations are shared by most operations"""
    from vlib import worlds

    N, k = (4, 2) if tier == "quick" else (5, 3)
    out = []
    for mode in ("disjoint", "empty", "overlap"):
        for bl in worlds.layouts(N, k, mode):
            for s_ in "+-":
                out.append(dict(kind="loc", blocks=[list(b) for b in bl], strand=s_, parent="chrom"))
    return out


def run_shard(shard):
    res = ShardResult()
    if shard["part"] == "lochist":
        for idx, spec in enumerate(loc_world(shard["tier"])):
            if idx % 16 == shard["i"]:
                explore(res, spec, 2)
        res.sample({"lochist": "history search (depth 2) on every location of the layout world"})
        bootstrap.clear_global_caches()
        return res
    spec = catalogue(shard["tier"])[shard["idx"]]
    if shard["part"] == "history":
        n = explore(res, spec, depth_for(shard["tier"], spec), tuple(shard.get("sub", (0, 1))))
        res.sample({"object": spec, "states": n})
    else:
        check_immut(res, spec)
    bootstrap.clear_global_caches()
    return res


def replay(case):
    res = ShardResult()
    spec = case["spec"]
    if "immut" in case:
        check_immut(res, spec)
        return [d for d in res.deviations if d["case"].get("immut") == case["immut"]]
    bootstrap.clear_global_caches()
    probe = build(spec)
    all_ops = {}
    all_ops.update(zero_arg_ops(probe))
    all_ops.update(menu_ops(probe))
    opn = case["op"]
    bootstrap.clear_global_caches()
    t = build(spec)
    if ADOPT in case["history"]:
        env_action(ADOPT, spec, t)
    ref = answer(lambda: all_ops[opn](t))
    obj = rebuild(spec, tuple(case["history"]), all_ops)
    got = answer(lambda: all_ops[opn](obj))
    if got != ref:
        bootstrap.clear_global_caches()
        pre = answer(lambda: all_ops[opn](build(spec)))
        res.deviation(opn, case, _short(got), _short(ref), sig=_sig(opn, got, ref), first_op=case["history"][0] if case["history"] else None,
                      stale_pre_adopt=bool(ADOPT in case["history"] and got == pre))
    return res.deviations


STALE_AFTER_ADOPT = ("has_sequence", "chunk_relative_span", "chunk_relative_gaps_location", "chunk_relative_intron_location")


def _m_adopt_stale(d):
    # the defect's own input class (interval built WITHOUT a parent, one of the four result-cached questions asked
    # before a collection adopted it) and its own shape (the answer given is exactly the pre-adoption answer)
    c = d["case"]
    h = c.get("history", [])
    # (chunk_relative_intron_location is a plain alias of chunk_relative_gaps_location: one result cache, two names)
    same_cache = lambda n: {"chunk_relative_intron_location": "chunk_relative_gaps_location"}.get(n, n)
    return (
        c.get("op") in STALE_AFTER_ADOPT
        and c.get("spec", {}).get("parent") == "none"
        and ADOPT in h
        and same_cache(c["op"]) in {same_cache(x) for x in h[: h.index(ADOPT)]}
        and d.get("stale_pre_adopt") is True
    )


MATCHERS = {"c10_adopt_stale": _m_adopt_stale}
