"""World of C11: exhaustive enumeration of collection specs x export modes.  Nothing samples.

A case is a JSON-able dict:
    family  : name of the generating family
    spec    : collection spec (AnnotationCollectionModel dictionary) - or ``specs`` (list) for multi-sequence files
    genome  : sequence text of the chromosome
    parent  : "chrom" | ["chunk", a, b] | None
    crc     : chromosome_relative_coordinates flag
    fasta   : add_sequences flag
    rra     : raise_on_reserved_attributes flag
    legs    : subset of [1, 2, 3]
"""
import itertools

from vlib import worlds
from vlib.model import frame as F

SEQ = "chrV"
# designed genome: start/stop rich, every window of 3 distinct enough; 64 bases so that FASTA wrapping (60) is crossed
GENOME64 = "ATGGCCTAAGTCATGAAACCCGGGTTTTAGCATGCGTACGATCGTTAACCGGATGCCATAGTGA"
ATOMS = [";", "=", "%", "\t", "\n", "\r", " ", ">", "&", '"', "'", ",", "é", "中", "A", "a", "1", "%3B"]
FRAME_NAME = {0: "ZERO", 1: "ONE", 2: "TWO"}
STRAND_NAME = {"+": "PLUS", "-": "MINUS"}


def strings():
    """all strings of length 1 and 2 over the atom alphabet (18 + 324)"""
    out = list(ATOMS)
    for a in ATOMS:
        for b in ATOMS:
            out.append(a + b)
    return out


def tx_spec(exons, strand, cds=None, f0=0, tid="t0", sym="ts0", ttype=None, pid=None, product=None, quals=None, frames=None):
    """cds = None | (c0, c1) in transcript coordinates"""
    ex = sorted(exons)
    d = dict(exon_starts=[b[0] for b in ex], exon_ends=[b[1] for b in ex], strand=STRAND_NAME[strand], transcript_id=tid,
             transcript_symbol=sym, sequence_name=SEQ)
    if cds is not None:
        cb = F.cds_blocks_for(ex, strand, cds[0], cds[1])
        fr = frames if frames is not None else F.consistent_frames_plus_order(cb, strand, f0)
        d.update(cds_starts=[b[0] for b in cb], cds_ends=[b[1] for b in cb], cds_frames=[FRAME_NAME[f] for f in fr],
                 protein_id=pid, product=product)
    d["transcript_type"] = ttype if ttype is not None else ("protein_coding" if cds is not None else "lncRNA")
    if ttype == "NONE":
        d["transcript_type"] = None
    if quals:
        d["qualifiers"] = quals
    return d


def gene_spec(txs, gid="g0", sym="gs0", gtype=None, locus="lt0", quals=None):
    if gtype is None:
        gtype = "protein_coding" if any(t.get("cds_starts") for t in txs) else "lncRNA"
    if gtype == "NONE":
        gtype = None
    d = dict(transcripts=txs, gene_id=gid, gene_symbol=sym, gene_type=gtype, locus_tag=locus, sequence_name=SEQ)
    if quals:
        d["qualifiers"] = quals
    return d


def feat_spec(blocks, strand, fid="f0", name="fn0", types=None, quals=None):
    bl = sorted(blocks)
    d = dict(interval_starts=[b[0] for b in bl], interval_ends=[b[1] for b in bl], strand=STRAND_NAME[strand], feature_id=fid,
             feature_name=name, sequence_name=SEQ)
    if types:
        d["feature_types"] = types
    if quals:
        d["qualifiers"] = quals
    return d


def fc_spec(feats, cid="fc0", name="fcn0", ctype="fct0", locus="flt0", quals=None):
    d = dict(feature_intervals=feats, feature_collection_id=cid, feature_collection_name=name, feature_collection_type=ctype,
             locus_tag=locus, sequence_name=SEQ)
    if quals:
        d["qualifiers"] = quals
    return d


def coll_spec(genes=None, fcs=None, seq=SEQ):
    d = dict(sequence_name=seq)
    if genes:
        d["genes"] = genes
    if fcs:
        d["feature_collections"] = fcs
    if seq != SEQ:
        _rename(d, seq)
    return d


def _rename(d, seq):
    for g in d.get("genes", []):
        g["sequence_name"] = seq
        for t in g["transcripts"]:
            t["sequence_name"] = seq
    for fc in d.get("feature_collections", []):
        fc["sequence_name"] = seq
        for f in fc["feature_intervals"]:
            f["sequence_name"] = seq


def case(family, spec, genome, parent="chrom", crc=True, fasta=True, rra=True, legs=(1, 2, 3), **kw):
    if spec is not None and spec.get("feature_collections"):
        legs = (1,)  # the property's re-parse / fixpoint clauses speak of gene models only
    d = dict(family=family, spec=spec, genome=genome, parent=parent, crc=crc, fasta=fasta, rra=rra, legs=list(legs))
    d.update(kw)
    return d


def span(spec):
    lo, hi = [], []
    for g in spec.get("genes", []):
        for t in g["transcripts"]:
            lo.append(min(t["exon_starts"]))
            hi.append(max(t["exon_ends"]))
    for fc in spec.get("feature_collections", []):
        for f in fc["feature_intervals"]:
            lo.append(min(f["interval_starts"]))
            hi.append(max(f["interval_ends"]))
    return min(lo), max(hi)


def mode_cases(family, spec, genome, N, full_legs=(1, 2, 3), all_windows=True, chunk_full="both"):
    """One spec in every export mode.  Leg 1 (syntax) runs in every mode and window.  Legs 2/3 (re-parse, fixpoint) run in
    chromosome mode with FASTA and, in chunk-relative mode, on the tightest window: with and without FASTA (chunk_full='both') or
    with FASTA only and only when the window really shifts the coordinates (chunk_full='fasta'), or leg 1 only (chunk_full='none',
    quick tier, where the chunk-relative re-parse is exercised by the fasta family)."""
    lo, hi = span(spec)
    yield case(family, spec, genome, "chrom", True, True, legs=full_legs)
    yield case(family, spec, genome, "chrom", True, False, legs=(1,))
    yield case(family, spec, genome, None, True, False, legs=(1,))
    wins = [(a, b) for a in range(0, lo + 1) for b in range(hi, N + 1)] if all_windows else [(lo, hi)]
    for a, b in wins:
        tight = (a, b) == (lo, hi)
        # with a == 0 the chunk-relative rows are the chromosome rows: legs 2/3 would repeat the chromosome-mode run
        plain = full_legs if (tight and a > 0 and chunk_full == "both") else (1,)
        with_fasta = full_legs if (tight and chunk_full != "none" and (a > 0 or chunk_full == "both")) else (1,)
        yield case(family, spec, genome, ["chunk", a, b], False, False, legs=plain)
        yield case(family, spec, genome, ["chunk", a, b], False, True, legs=with_fasta)
        yield case(family, spec, genome, ["chunk", a, b], True, False, legs=(1,))


# ---- family: struct ------------------------------------------------------------------------------------------------------
def transcripts(N, k, f0s=(0, 1, 2), placements="all"):
    """every (exons, strand, cds, f0) over layouts(N, k)"""
    for exons in worlds.layouts(N, k, "disjoint"):
        ln = sum(e - s for s, e in exons)
        for strand in "+-":
            yield exons, strand, None, 0
            if placements == "all":
                pl = [(c0, c1) for c0 in range(ln) for c1 in range(c0 + 1, ln + 1)]
            elif placements == "full":
                pl = [(0, ln)]
            else:  # 'ends': full, and the placements that leave one base of UTR on one/both sides
                pl = sorted({(0, ln), (min(1, ln - 1), ln), (0, max(1, ln - 1))})
            for cds in pl:
                for f0 in f0s:
                    yield exons, strand, cds, f0


def fam_struct(N, k, all_windows, chunk_full="both", reduced_frames=False):
    """reduced_frames (quick tier): legs 2/3 with start frame 0 for every CDS placement and start frames 1, 2 for the full-length
    placement only; leg 1 still sees every (placement, start frame); the frames family runs legs 2/3 on all frame vectors"""
    genome = GENOME64[:N]
    for exons, strand, cds, f0 in transcripts(N, k):
        t = tx_spec(exons, strand, cds, f0, pid="p0" if cds else None, product="prod0" if cds else None, quals={"tq": ["tv"]})
        spec = coll_spec([gene_spec([t], quals={"gq": ["gv"]})])
        ln = sum(e - s for s, e in exons)
        full = (1, 2, 3) if (not reduced_frames or cds is None or f0 == 0 or cds == (0, ln)) else (1,)
        yield from mode_cases("struct", spec, genome, N, full_legs=full, all_windows=all_windows, chunk_full=chunk_full)


# ---- family: frames (all frame vectors, not only consistent ones) ----------------------------------------------------------
def fam_frames(N, k):
    genome = GENOME64[:N]
    for exons in worlds.layouts(N, k, "disjoint"):
        if len(exons) < 2:
            continue
        ln = sum(e - s for s, e in exons)
        for strand in "+-":
            cb = F.cds_blocks_for(exons, strand, 0, ln)
            for fr in itertools.product((0, 1, 2), repeat=len(cb)):
                t = tx_spec(exons, strand, (0, ln), frames=list(fr), pid="p0", product="prod0")
                yield case("frames", coll_spec([gene_spec([t])]), genome, "chrom", True, True)
                # the same gene built on a sequence chunk that contains it, exported in CHROMOSOME coordinates: the phases are
                # those of the stored frames, whatever frames a chunk-relative view would infer
                yield case("frames", coll_spec([gene_spec([t])]), genome, ["chunk", 0, N], True, False, legs=(1,))
                if exons[0][0] > 0:
                    yield case("frames", coll_spec([gene_spec([t])]), genome, ["chunk", exons[0][0], N], True, False, legs=(1,))


# ---- family: multi (2..3 isoforms per gene) -----------------------------------------------------------------------------------
def fam_multi(N, k, N3, with_pid, tri_pid=("distinct", "none"), tri_placements="ends"):
    """all pairs of transcripts over layouts(N, k) (f0 = 0) and all triples over layouts(N3, 1); protein ids distinct /
    absent where at least two isoforms are coding (isoforms sharing one CDS); CDS placements: full length and one base of UTR on
    either side"""
    genome = GENOME64[:N]
    T = list(transcripts(N, k, f0s=(0,), placements="ends"))
    T3 = list(transcripts(N3, 1, f0s=(0,), placements=tri_placements))
    combos = [tuple(T[i] for i in c) for c in itertools.combinations(range(len(T)), 2)]
    combos += [tuple(T3[i] for i in c) for c in itertools.combinations(range(len(T3)), 3)]
    for combo in combos:
        ncoding = sum(1 for t in combo if t[2] is not None)
        modes = (with_pid if len(combo) == 2 else tri_pid) if ncoding >= 2 else ("distinct",)
        for pid_mode in modes:
            txs = []
            for j, (exons, strand, cds, f0) in enumerate(combo):
                pid = (f"p{j}" if pid_mode == "distinct" else "pshared" if pid_mode == "shared" else None) if cds else None
                txs.append(tx_spec(exons, strand, cds, f0, tid=f"t{j}", sym=f"ts{j}", pid=pid, product=("prod" if cds and pid else None),
                                   quals={f"tq{j}": [f"tv{j}"]}))
            spec = coll_spec([gene_spec(txs, quals={"gq": ["gv"]})])
            yield case("multi", spec, genome, "chrom", True, True)


# ---- family: coll (several genes and feature collections in one collection) ---------------------------------------------------
def fam_coll(N):
    """full product: all unordered gene pairs (incl. identical coordinates) over layouts(N, 2) x strand x {non-coding, full-length
    CDS}  x  {no feature collection, every feature layout touching both ends of the region, on either strand}"""
    genome = GENOME64[:N]
    G = []
    for exons in worlds.layouts(N, 2, "disjoint"):
        ln = sum(e - s for s, e in exons)
        for strand in "+-":
            G.append((exons, strand, None))
            G.append((exons, strand, (0, ln)))
    feats = [None]
    for bl in worlds.layouts(N, 2, "disjoint"):
        if bl[0][0] == 0 and bl[-1][1] == N:
            feats.append((bl, "+"))
            feats.append((bl, "-"))
    for (a, b) in itertools.combinations_with_replacement(range(len(G)), 2):
        ga, gb = G[a], G[b]
        for fb in feats:
            # genes are distinguished by their identifiers even when their coordinates coincide
            g0 = gene_spec([tx_spec(ga[0], ga[1], ga[2], tid="t0", sym="ts0", pid="p0" if ga[2] else None)], gid="g0", sym="gs0", locus="lt0")
            g1 = gene_spec([tx_spec(gb[0], gb[1], gb[2], tid="t1", sym="ts1", pid="p1" if gb[2] else None)], gid="g1", sym="gs1", locus="lt1")
            fcs = None
            if fb is not None:
                fcs = [fc_spec([feat_spec(fb[0], fb[1], types=["ft0"], quals={"fq": ["fv"]})], quals={"cq": ["cv"]})]
            yield case("coll", coll_spec([g0, g1], fcs), genome, "chrom", True, True)


def fam_featcoll(N, k, N2):
    """feature collections alone: every layout(N, k) x strand in every export mode; two features per collection: all ordered
    pairs of layouts(N2, 2) x all strand pairs, next to a gene"""
    genome = GENOME64[:N]
    for bl in worlds.layouts(N, k, "disjoint"):
        for strand in "+-":
            f0 = feat_spec(bl, strand, types=["ft0"], quals={"fq": ["fv"]})
            spec = coll_spec(None, [fc_spec([f0], quals={"cq": ["cv"]})])
            yield from mode_cases("featcoll", spec, genome, N, all_windows=False)
    L2 = list(worlds.layouts(N2, 2, "disjoint"))
    for b0 in L2:
        for b1 in L2:
            for s0 in "+-":
                for s1 in "+-":
                    f0 = feat_spec(b0, s0, types=["ft0"], quals={"fq": ["fv"]})
                    f1 = feat_spec(b1, s1, fid="f1", name="fn1", types=["ft1"])
                    g = gene_spec([tx_spec(b0, s0, None)])
                    yield case("featcoll", coll_spec([g], [fc_spec([f0, f1])]), GENOME64[:N2], "chrom", True, True)


# ---- family: strings ------------------------------------------------------------------------------------------------------------
POSITIONS = ("gene", "tx_nc", "tx_cds", "feature", "featcoll")


def template(quals_at=None, quals=None, ids=None):
    """one gene with a coding and a non-coding isoform plus one feature collection, on 12 bases"""
    ids = ids or {}
    q = {p: None for p in POSITIONS}
    if quals_at:
        q[quals_at] = quals
    t0 = tx_spec(((1, 4), (6, 10)), "+", (1, 7), 0, tid=ids.get("transcript_id", "t0"), sym=ids.get("transcript_symbol", "ts0"),
                 pid=ids.get("protein_id", "p0"), product=ids.get("product", "prod0"), quals=q["tx_cds"])
    t1 = tx_spec(((1, 10),), "+", None, tid="t1", sym="ts1", ttype="protein_coding", quals=q["tx_nc"])
    g = gene_spec([t0, t1], gid=ids.get("gene_id", "g0"), sym=ids.get("gene_symbol", "gs0"), locus=ids.get("locus_tag", "lt0"),
                  gtype="protein_coding", quals=q["gene"])
    f = feat_spec(((0, 3), (8, 12)), "-", fid=ids.get("feature_id", "f0"), name=ids.get("feature_name", "fn0"), types=["ft0"], quals=q["feature"])
    fc = fc_spec([f], quals=q["featcoll"])
    return g, fc


def has_excluded(s):
    return "," in s or '"' in s


GENE_POSITIONS = ("gene", "tx_nc", "tx_cds")


def fam_strings(strs, all_positions_full):
    """every string as a qualifier key and as a qualifier value in each of the 5 positions (leg 1 everywhere), and on all identifier
    fields.  Legs 2/3 on the three gene-model positions: all of them (thorough) or one per (string, role), rotating with the index of
    the string so that every position meets every atom (quick)."""
    genome = GENOME64[:12]
    for i, s in enumerate(strs):
        full = (1,) if has_excluded(s) else (1, 2, 3)
        for ri, role in enumerate(("key", "value")):
            chosen = GENE_POSITIONS[(i + ri) % len(GENE_POSITIONS)]
            for pos in POSITIONS:
                quals = {s: ["pv"]} if role == "key" else {"zq": [s, "w"]}
                g, fc = template(pos, quals)
                spec = coll_spec(None, [fc]) if pos in ("feature", "featcoll") else coll_spec([g])
                legs = full if (all_positions_full or pos == chosen) else (1,)
                yield case("strings", spec, genome, "chrom", True, True, legs=legs, string=s, pos=pos, role=role)
        ids = {k: pre + s for k, pre in (("gene_id", "gi"), ("gene_symbol", "gs"), ("locus_tag", "lt"), ("transcript_id", "ti"),
                                         ("transcript_symbol", "ts"), ("protein_id", "pi"), ("product", "pr"))}
        g, fc = template(ids=ids)
        yield case("strings", coll_spec([g]), genome, "chrom", True, True, legs=full, string=s, pos="identifiers", role="value")
    # the documented substitution for an empty value
    for pos in POSITIONS:
        g, fc = template(pos, {"zq": [""]})
        spec = coll_spec(None, [fc]) if pos in ("feature", "featcoll") else coll_spec([g])
        yield case("strings", spec, genome, "chrom", True, True, legs=(1,), string="", pos=pos, role="value")


# ---- family: reserved --------------------------------------------------------------------------------------------------------------
RESERVED_KEYS = ["ID", "Name", "Parent", "id", "name", "parent", "Alias", "Target", "Dbxref", "Gap", "Derives_from", "Note", "Ontology_term",
                 "alias", "NOTE"]


def fam_reserved():
    genome = GENOME64[:12]
    for key in RESERVED_KEYS:
        for pos in POSITIONS:
            for rra in (True, False):
                for extra in (False, True):
                    quals = {key: ["rv"]}
                    if extra:
                        quals["zq"] = ["w"]
                    g, fc = template(pos, quals)
                    spec = coll_spec(None, [fc]) if pos in ("feature", "featcoll") else coll_spec([g])
                    yield case("reserved", spec, genome, "chrom", True, False, rra=rra, legs=(1,), string=key, pos=pos, role="key")


# ---- family: ids (missing identifiers, biotype combinations) -----------------------------------------------------------------------
def fam_ids():
    genome = GENOME64[:12]
    fields = ("gene_id", "gene_symbol", "locus_tag", "transcript_id", "transcript_symbol", "protein_id", "product")
    for r in range(0, len(fields) + 1):
        for missing in itertools.combinations(fields, r):
            if r not in (0, 1, 2, len(fields)):
                continue
            ids = {k: None for k in missing}
            t0 = tx_spec(((1, 4), (6, 10)), "-", (1, 7), 1, tid=ids.get("transcript_id", "t0"), sym=ids.get("transcript_symbol", "ts0"),
                         pid=ids.get("protein_id", "p0"), product=ids.get("product", "prod0"))
            g = gene_spec([t0], gid=ids.get("gene_id", "g0"), sym=ids.get("gene_symbol", "gs0"), locus=ids.get("locus_tag", "lt0"))
            yield case("ids", coll_spec([g]), genome, "chrom", True, True, missing=list(missing))
    types = ("protein_coding", "lncRNA", "tRNA", "mRNA", "NONE")
    for gt in types:
        for t0t in types:
            for t1t in types:
                t0 = tx_spec(((1, 4), (6, 10)), "+", (1, 7), 0, tid="t0", sym="ts0", pid="p0", product="prod0", ttype=t0t)
                t1 = tx_spec(((2, 9),), "+", None, tid="t1", sym="ts1", ttype=t1t)
                yield case("ids", coll_spec([gene_spec([t0, t1], gtype=gt)]), genome, "chrom", True, True, biotypes=[gt, t0t, t1t])


# ---- family: big (coordinates of seven and more digits; no parent: the writer needs no sequence for the rows) --------------------------
def fam_big():
    for off in (999_990, 1_000_400, 12_345_678, 2 ** 29 + 5):
        for strand in "+-":
            t = tx_spec(((off + 1, off + 4), (off + 6, off + 10)), strand, (1, 7), 1, pid="p0", product="prod0")
            yield case("big", coll_spec([gene_spec([t])]), "", None, True, False, offset=off)


# ---- family: fasta (sequence lengths around the line width, several sequences in one file) ------------------------------------------
def fam_fasta():
    for L in (12, 59, 60, 61, 64):
        genome = GENOME64[:L]
        t = tx_spec(((1, 4), (6, 10)), "+", (1, 7), 0, pid="p0", product="prod0")
        spec = coll_spec([gene_spec([t])])
        yield case("fasta", spec, genome, "chrom", True, True)
        yield case("fasta", spec, genome, ["chunk", 1, L], False, True)
        yield case("fasta", spec, genome, ["chunk", 0, L], False, True)
    # two collections on two sequences written to one file, given in both orders
    for order in ((0, 1), (1, 0)):
        for fasta in (True, False):
            specs = []
            for i in order:
                name = ("chrA", "chrV")[i]
                t = tx_spec(((1 + i, 4), (6, 10)), "+-"[i], (1, 6), 0, tid=f"t{i}", sym=f"ts{i}", pid=f"p{i}", product="prod")
                specs.append(coll_spec([gene_spec([t], gid=f"g{i}", sym=f"gs{i}", locus=f"lt{i}")], seq=name))
            d = case("fasta", None, [GENOME64[:12], GENOME64[20:34]], "chrom", True, fasta)
            d["specs"] = specs
            del d["spec"]
            yield d


# ---- family: refusals ----------------------------------------------------------------------------------------------------------------
def fam_refusals():
    genome = GENOME64[:12]
    g, fc = template()
    for spec in (coll_spec([g]), coll_spec(None, [fc]), coll_spec([g], [fc])):
        for parent in ("chrom", None, ["chunk", 0, 12]):
            for crc in (True, False):
                for fasta in (True, False):
                    yield case("refusals", spec, genome, parent, crc, fasta, legs=(1,))


# ---- family: shared (the same qualifier key on a parent and on its child) ------------------------------------------------------------
def fam_shared():
    """gene vs transcript (coding / non-coding / both) and feature collection vs feature: the same key with every pair of value
    sets of size 1-2 over three values (equal, disjoint, nested, overlapping; both orders)"""
    genome = GENOME64[:12]
    vals = ("a", "b", "c")
    sets = [[x] for x in vals] + [list(c) for c in itertools.combinations(vals, 2)]
    for pv in sets:
        for cv in sets:
            for where in ("tx_cds", "tx_nc", "both"):
                t0 = tx_spec(((1, 4), (6, 10)), "+", (1, 7), 0, tid="t0", sym="ts0", pid="p0", product="prod0",
                             quals={"note": cv} if where in ("tx_cds", "both") else None)
                t1 = tx_spec(((1, 10),), "-", None, tid="t1", sym="ts1", ttype="protein_coding",
                             quals={"note": cv[::-1]} if where in ("tx_nc", "both") else None)
                g = gene_spec([t0, t1], gtype="protein_coding", quals={"note": pv})
                yield case("shared", coll_spec([g]), genome, "chrom", True, True, shared=[pv, cv, where])
            f = feat_spec(((0, 3), (8, 12)), "-", types=["ft0"], quals={"note": cv})
            yield case("shared", coll_spec(None, [fc_spec([f], quals={"note": pv})]), genome, "chrom", True, False, shared=[pv, cv, "feature"])


# ---- family: long (>= 10 CDS blocks, frames cycling) -----------------------------------------------------------------------------------
def fam_long(patterns, placements):
    """transcripts with 10, 11 and 12 exons of 1-3 bases separated by 1-base introns (exon lengths repeat ``pattern``), both
    strands, start frames 0-2; CDS over the whole transcript (and, with placements='ends', minus one base on either side)"""
    for pat in patterns:
        for nb in (10, 11, 12):
            exons, pos = [], 1
            for i in range(nb):
                ln = pat[i % len(pat)]
                exons.append((pos, pos + ln))
                pos += ln + 1
            if pos > len(GENOME64):
                continue
            total = sum(e - s for s, e in exons)
            pls = [(0, total)] if placements == "full" else [(0, total), (1, total), (0, total - 1)]
            for strand in "+-":
                for cds in pls:
                    for f0 in (0, 1, 2):
                        t = tx_spec(tuple(exons), strand, cds, f0, pid="p0", product="prod0")
                        yield case("long", coll_spec([gene_spec([t])]), GENOME64[:pos], "chrom", True, True, pattern=list(pat), nblocks=nb)


# ---- family: trunc (chunk window cutting the 3' end of the transcript) ------------------------------------------------------------------
def fam_trunc(N, k):
    """every coding/non-coding single-transcript gene over layouts(N, k) x every chunk window that removes a non-empty part of the
    3' end and nothing of the 5' end: plus strand [0, b) with lo < b < hi, minus strand [a, N) with lo < a < hi; chunk-relative
    export without FASTA; leg 1 restricted to syntax, exon/CDS rows and phase"""
    genome = GENOME64[:N]
    for exons, strand, cds, f0 in transcripts(N, k):
        lo, hi = exons[0][0], exons[-1][1]
        t = tx_spec(exons, strand, cds, f0, pid="p0" if cds else None, product="prod0" if cds else None)
        spec = coll_spec([gene_spec([t])])
        wins = [(0, b) for b in range(lo + 1, hi)] if strand == "+" else [(a, N) for a in range(lo + 1, hi)]
        for a, b in wins:
            yield case("trunc", spec, genome, ["chunk", a, b], False, False, legs=(1,), trunc=True)
            # the cut gene exported in chromosome coordinates: the rows are those of the whole-chromosome gene
            yield case("trunc", spec, genome, ["chunk", a, b], True, False, legs=(1,))


# ---- family: embedded (realistic keys that contain, but do not start with, an identifier word) ------------------------------------------
# the words the parser filters as identifiers (BioCantorQualifiers / reserved names, lower case as the writer emits keys)
IDENTIFIER_WORDS = ["protein_id", "feature_collection_id", "gene_name", "gene_biotype", "feature_collection_type", "transcript_biotype",
                    "feature_colletion_type", "locus_tag", "transcript_type", "feature_id", "feature_name", "gene_type", "parent", "gene_id",
                    "name", "feature_collection_name", "transcript_name", "id", "transcript_id", "gene_symbol", "product", "feature_type"]
EMBEDDED_KEYS = ["old_locus_tag", "evidence", "grandparent_assembly", "my_product_note", "valid", "rename", "pseudo_gene_idx",
                 "subfeature_typex", "byproducts", "hostname", "midpoint", "unnamed", "alt_transcript_names", "my_gene_symbolic"]


# keys that START with an identifier word without being one (a prefix match on the identifier list would swallow them)
PREFIXED_KEYS = ["identity", "name_source", "product_note", "gene_id_old", "parental_line", "names", "locus_tagged", "idx"]


def embedded_keys():
    keys = ["x_" + w for w in IDENTIFIER_WORDS] + EMBEDDED_KEYS + [w + "_x" for w in IDENTIFIER_WORDS] + PREFIXED_KEYS
    return [k for k in keys if k not in IDENTIFIER_WORDS]


def fam_embedded():
    """every key on the gene, on the coding transcript, and on both (different values); all legs"""
    genome = GENOME64[:12]
    for key in embedded_keys():
        for where in ("gene", "tx_cds", "both"):
            t0 = tx_spec(((1, 4), (6, 10)), "+", (1, 7), 0, tid="t0", sym="ts0", pid="p0", product="prod0",
                         quals={key: ["tval"]} if where in ("tx_cds", "both") else None)
            t1 = tx_spec(((1, 10),), "-", None, tid="t1", sym="ts1", ttype="protein_coding")
            g = gene_spec([t0, t1], gtype="protein_coding", quals={key: ["gval"]} if where in ("gene", "both") else None)
            yield case("embedded", coll_spec([g]), genome, "chrom", True, True, string=key, pos=where, role="key")


PATTERNS_QUICK = [(1,), (2,), (1, 2, 3), (2, 1), (3, 1, 2)]
PATTERNS_ALL = [p for n in (1, 2, 3) for p in itertools.product((1, 2, 3), repeat=n)]


def world(tier):
    if tier == "quick":
        yield from fam_struct(4, 3, all_windows=False, chunk_full="none", reduced_frames=True)
        yield from fam_frames(4, 2)
        yield from fam_multi(2, 2, 2, with_pid=("distinct", "none"), tri_pid=("distinct",), tri_placements="full")
        yield from fam_coll(2)
        yield from fam_featcoll(4, 2, 2)
        yield from fam_strings(strings(), all_positions_full=False)
        yield from fam_long(PATTERNS_QUICK, "full")
        yield from fam_trunc(5, 2)
    else:
        yield from fam_struct(7, 3, all_windows=True)
        yield from fam_frames(6, 3)
        yield from fam_multi(4, 2, 3, with_pid=("distinct", "none"))
        yield from fam_coll(3)
        yield from fam_featcoll(7, 3, 3)
        yield from fam_strings(strings(), all_positions_full=True)
        yield from fam_long(PATTERNS_ALL, "ends")
        yield from fam_trunc(7, 3)
    yield from fam_big()
    yield from fam_shared()
    yield from fam_embedded()
    yield from fam_reserved()
    yield from fam_ids()
    yield from fam_fasta()
    yield from fam_refusals()


def describe(tier):
    tail = ("shared: the same qualifier key on gene and transcript(s) / feature collection and feature with all pairs of value sets of size "
            "1-2; embedded: 66 realistic keys containing / starting with / ending in an identifier word (without being one), on gene / transcript / both; " + ("long: 10-12 CDS blocks, 5 exon-length patterns, both strands, start frames 0-2; trunc: layouts N=5 k<=2 x every "
                       "3'-truncating chunk window (leg 1: rows and phase); " if tier == "quick" else
                       "long: 10-12 CDS blocks, all 39 exon-length patterns of period <=3, 3 CDS placements, both strands, start frames 0-2; "
                       "trunc: layouts N=7 k<=3 x every 3'-truncating chunk window (leg 1: rows and phase); ") +
            "reserved keys x flag; missing identifiers; biotype combinations; FASTA lengths / multi-sequence files; refused flag combinations. "
            "Legs 2/3 only on collections without feature collections")
    if tier == "quick":
        return ("struct: layouts N=4 k<=3 x strands x every CDS placement x start frames 0-2 (single-transcript genes; legs 2/3: frame 0, and frames 1-2 on full-length CDS) x export modes (chunk "
                "mode: tightest window, leg 1; chunk-relative re-parse via the fasta family); frames: all frame vectors N=4 k=2; multi: all "
                "pairs of transcripts over N=2 k<=2 and all triples over N=2 k=1 (full-length CDS); coll: all gene pairs N=2 x every end-to-end feature collection; "
                "featcoll N=4 k<=2 (+ all two-feature collections N=2); strings: 342 strings x 5 positions x {key,value} (leg 1), legs 2/3 on "
                "one gene-model position per (string, role) + all identifier fields; " + tail)
    return ("struct: layouts N=7 k<=3 x strands x every CDS placement x start frames 0-2 x every containing chunk window x export modes; "
            "frames: all frame vectors N=6 k<=3; multi: all pairs of transcripts over N=4 k<=2 and all triples over N=3 k=1, protein ids "
            "distinct / absent; coll: all gene pairs N=3 x every end-to-end feature collection; featcoll N=7 k<=3 (+ all two-feature "
            "collections N=3); strings: 342 strings x 5 positions x {key,value} + all identifier fields, legs 2/3 on every gene-model "
            "position; " + tail)
