"""C17 - NCBI feature-table (.tbl) export lists the model's genes 5'->3', partial marks correct.

Bounded exhaustive check of ``inscripta.biocantor.io.ncbi.tbl_writer.collection_to_tbl`` on the real implementation.
Every case is a complete call: designed genome(s) + gene models + flavour + translation table + locus-tag prefix/step +
seed.  The text written is decoded by an independent 5-column reader (checks/c17_reader.py) and compared with the
expectation of the reference side (checks/c17_model.py: location model P(L) + reading-frame model).
"""
import io
import itertools
import random

from vlib import lib
from vlib.model import frame as F
from vlib.model import loc as M
from vlib.runner import ShardResult

from checks import c17_model as MOD
from checks import c17_reader as RD

from inscripta.biocantor.gene.biotype import Biotype
from inscripta.biocantor.gene.codon import TranslationTable
from inscripta.biocantor.gene.collections import AnnotationCollection
from inscripta.biocantor.gene.gene import GeneInterval
from inscripta.biocantor.io.genbank.constants import GenbankFlavor
from inscripta.biocantor.io.ncbi.tbl_writer import collection_to_tbl
from inscripta.biocantor.sequence.alphabet import Alphabet

PROPERTY = "C17"
TITLE = "NCBI feature-table export lists the model's genes 5'->3', partial marks correct"
RULE = (
    "every case is one collection_to_tbl call; four completely enumerated product worlds: A 'content' (every CDS content "
    "first codon x middle codons x last codon x trailing bases x start frame, on a menu of exon structures) x strand x "
    "translation table x flavour; B 'structure' (every set of <=2 exon boundaries over the transcript x every intron-length "
    "vector incl. 0-bp = adjacent blocks x UTR lengths, on a menu of CDS contents and non-coding biotypes) x strand x "
    "(table, flavour); C 'collections' (every ordered selection of 1..3 genes from a menu of coding/non-coding/two-"
    "transcript genes x listing order x locus-tag prefix x step x flavour x seed); D (two collections in one call, "
    "two-transcript genes with every pair of CDS contents, CDS without a complete codon).  Each case is exported twice "
    "with the same seed (7, 0, 2**31) from different global random states.  Non-trivial = minus strand, or >=2 blocks, or a "
    "partial/pseudo CDS, or start frame != 0, or >=2 genes."
)
ASSUMPTIONS = [
    "independent reader: NCBI 5-column feature table as documented at ncbi.nlm.nih.gov/genbank/feature_table (header "
    "'>Feature SeqId'; NCBI's reader ignores a non-blank suffix glued to the word Feature, so '>Features chrV' - what the "
    "library and its upstream reference files write - names chrV; trailing empty columns optional; blank lines ignored)",
    "features are matched to the model by (feature class, interval list), not by position in the file; gene = the span of "
    "all its transcripts on the transcripts' strand (all generated genes are single-strand); RNA feature = any INSDC RNA key",
    "adjacent (0-bp gap) blocks are expected merged (the statement's '(merged) source blocks'; TBL cannot carry them); "
    "all frame vectors are those of ONE uninterrupted reading frame with start frame 0..2, so merging never changes a codon",
    "partial marks, codon_start and pseudo are demanded on CDS features only (the statement is silent about marks on gene/"
    "mRNA/RNA rows); a stop in the last complete codon followed by 1-2 dangling bases may or may not count as 'in-frame "
    "stop' (both accepted); a CDS without a complete codon may be refused with any exception (C19's business) but if a "
    "file is written both marks must be present",
    "excluded: CDS whose 5'-most block is shorter than the start frame (1-base first block with start frame 2): there the "
    "per-block frame vector and 'codon_start = frame + 1 on the spliced CDS' name different reading frames (library and "
    "frame model agree with each other, the GenBank reading of codon_start differs) - frame bookkeeping is C05's business",
    "eukaryotic flavour: mRNA + CDS per coding transcript, prokaryotic: CDS only (docstring of collection_to_tbl)",
    "locus tags: the locus_tag qualifiers of the gene rows, in file order, are <prefix>_<n> with the requested prefix "
    "(when one is requested), n strictly increasing by exactly the step; the starting value is not demanded",
    "reproducibility is demanded for every fixed seed - 0 included - within one interpreter (PYTHONHASHSEED fixed by the "
    "launcher); what the writer does to the caller-visible global `random` state is recorded in the evidence counters "
    "(random_state:*), not judged",
    "genomes are upper-case ACGT (plus one lower-case slice in the thorough tier); tbl2asn-level validity is out of reach",
    "compatibility layer vlib/compat (marshmallow 4) is part of the trusted base: TblGene round-trips every gene through to_dict/from_dict",
]

NSH = 32
TABLES = {0: TranslationTable.DEFAULT, 1: TranslationTable.STANDARD, 11: TranslationTable.PROKARYOTE}
FLAVORS = {"EUKARYOTIC": GenbankFlavor.EUKARYOTIC, "PROKARYOTIC": GenbankFlavor.PROKARYOTIC}
LEAD = {0: "", 1: "T", 2: "AT"}
TRAIL = {0: "", 1: "T", 2: "TA"}
U5 = "GT"
U3 = "AG"


def world_description(tier):
    n = {}
    for w, _ in enumerate_cases(tier):
        n[w] = n.get(w, 0) + 1
    return f"collection_to_tbl calls per world ({tier}): " + ", ".join(f"{k}={v}" for k, v in sorted(n.items())) + f"; total {sum(n.values())}"


def shards(tier, seed):
    return [{"tier": tier, "i": i} for i in range(NSH)]


# =========================================================================================================
# world enumeration (pure Python, deterministic)
# =========================================================================================================
def content(first, mids, last, f, t):
    return LEAD[f] + first + "".join(mids) + last + TRAIL[t]


def one_gene_case(regions, strand, gtype, f0s, lead, trail, table, flavor, prefix="LT", step=5, seed=7, lab="lab", lower=False, products=None):
    """single collection, single gene made of the given transcript regions"""
    text, txs = MOD.place(regions, strand, lead)
    genome = "G" * lead + text + "G" * trail
    if lower:
        genome = genome.lower()
    gene = {
        "type": gtype, "strand": strand, "symbol": "sym1", "locus_tag": None,
        "txs": [{"exons": ex, "cds": cd, "f0": f0s[i] if cd is not None else None, "product": (products or {}).get(i)} for i, (ex, cd) in enumerate(txs)],
    }
    return {
        "colls": [{"seqname": "chrV", "genome": genome, "genes": [gene], "order": [0]}],
        "table": table, "flavor": flavor, "prefix": prefix, "step": step, "seed": seed, "lab": lab,
    }


def structs_A(Lc, f, tier):
    """menu of exon structures for a CDS content of length Lc: (u5, u3, cuts, lead spacer, trail spacer)"""
    out = [
        (0, 0, [], 0, 0),
        (2, 2, [], 2, 1),
        (1, 0, [(1 + f + 1, 2)], 1, 0),
        (0, 1, [(f + 4, 0)], 0, 2),
        (1, 1, [(1 + f + 2, 1), (1 + Lc - 2, 0)], 3, 0),
    ]
    if tier == "thorough":
        out += [
            (0, 0, [(f + 3, 1)], 0, 0),  # intron exactly behind the first codon
            (2, 0, [(2, 3), (2 + Lc - 3, 2)], 1, 1),  # exon 1 = 5' UTR only; last exon = last codon/trailing bases
            (0, 2, [(Lc - 1, 0), (Lc, 1)], 0, 3),
        ]
    good = []
    for u5, u3, cuts, lead, trail in out:
        T = u5 + Lc + u3
        ps = [p for p, _ in cuts]
        if all(0 < p < T for p in ps) and ps == sorted(set(ps)):
            good.append((u5, u3, cuts, lead, trail))
    return good


def world_A(tier):
    if tier == "quick":
        firsts = ["ATG", "TTG", "GTG", "ATA", "AAA"]
        mids = [("GCA",), ("TAG",)]
        lasts = ["TAA", "TGA", "GCA"]
        tabfl = [(t, fl) for t in (0, 1, 11) for fl in ("EUKARYOTIC", "PROKARYOTIC")]
        lowers = [False]
    else:
        firsts = ["ATG", "TTG", "CTG", "GTG", "ATT", "ATC", "ATA", "AAA", "TAA"]
        mids = [(), ("GCA",), ("TAG",), ("GCA", "TGA")]
        lasts = ["TAA", "TAG", "TGA", "GCA"]
        tabfl = [(t, fl) for t in (0, 1, 11) for fl in ("EUKARYOTIC", "PROKARYOTIC")]
        lowers = [False, True]
    for first, mid, last, t, f in itertools.product(firsts, mids, lasts, (0, 1, 2), (0, 1, 2)):
        c = content(first, mid, last, f, t)
        for si, (u5, u3, cuts, lead, trail) in enumerate(structs_A(len(c), f, tier)):
            for strand in "+-":
                reg = MOD.tx_region(U5[:u5], c, U3[:u3], cuts)
                if not first_block_ok(reg, f):
                    continue
                for table, fl in tabfl:
                    for lower in lowers:
                        if lower and (si != 2 or table != 11):
                            continue  # the lower-case slice: one structure, one table
                        yield "A", one_gene_case([reg], strand, "protein_coding", [f], lead, trail, table, fl, lower=lower)


def first_block_ok(reg, f):
    """the 5'-most CDS block (after merging adjacent blocks) must be at least as long as the start frame, so that
    'start frame' has one meaning (frame model and 'skip f bases of the spliced CDS' coincide)"""
    merged = M.runs(M.S(reg["cds"]))
    return (merged[0][1] - merged[0][0]) >= f


def cut_sets(T, kmax, gaps):
    for k in range(0, kmax + 1):
        for ps in itertools.combinations(range(1, T), k):
            for gs in itertools.product(gaps, repeat=k):
                yield list(zip(ps, gs))


B_CONTENTS = [
    ("ATG", ("GCA",), "TAA", 0, 0),
    ("TTG", ("TAG",), "GCA", 1, 1),
    ("AAA", ("GCA",), "TGA", 2, 0),
    ("GTG", ("GCA",), "TAG", 0, 2),
]
NC_TYPES = ["tRNA", "rRNA", "misc_RNA", "lncRNA", "ncRNA", "snoRNA"]


def world_B(tier):
    if tier == "quick":
        gaps = (0, 2)
        tabfl = [(1, "EUKARYOTIC"), (11, "PROKARYOTIC")]
        us = [(0, 0), (1, 1)]
    else:
        gaps = (0, 1, 2, 3)
        tabfl = [(t, fl) for t in (0, 1, 11) for fl in ("EUKARYOTIC", "PROKARYOTIC")]
        us = [(0, 0), (1, 0), (0, 1), (1, 1)]
    for first, mid, last, f, t in B_CONTENTS:
        c = content(first, mid, last, f, t)
        for u5, u3 in us:
            T = u5 + len(c) + u3
            for cuts in cut_sets(T, 2, gaps):
                reg = MOD.tx_region(U5[:u5], c, U3[:u3], cuts)
                if not first_block_ok(reg, f):
                    continue
                regs = [reg]
                if any(g == 0 for _, g in cuts):
                    # the same bases with the adjacent EXON blocks given as one block while the CDS keeps its adjacent
                    # blocks (a split CDS row inside one exon): the exon structure no longer announces that the CDS needs merging
                    regs.append(dict(reg, exons=[tuple(r) for r in M.runs(M.S(tuple(reg["exons"])))]))
                for reg_ in regs:
                    for strand in "+-":
                        for table, fl in tabfl:
                            yield "B", one_gene_case([reg_], strand, "protein_coding", [f], u5, u3, table, fl)
    # non-coding transcripts: every structure x biotype
    nc = "ACGTAC" if tier == "quick" else "ACGTACG"
    for cuts in cut_sets(len(nc), 2, gaps):
        reg = MOD.tx_region(nc, None, "", cuts)
        for gtype in NC_TYPES:
            for strand in "+-":
                for fl in ("EUKARYOTIC", "PROKARYOTIC"):
                    yield "B", one_gene_case([reg], strand, gtype, [None], 1, 0, 1, fl)
        # the plainest non-coding transcript carries no biotype of its own (the gene's type, or nothing at all, is all
        # there is): it is listed like any other RNA feature
        for gtype in NC_TYPES + [None]:
            for strand in "+-":
                case = one_gene_case([reg], strand, gtype, [None], 1, 0, 1, "EUKARYOTIC" if strand == "+" else "PROKARYOTIC")
                case["colls"][0]["genes"][0]["tx_type"] = None
                yield "B", case


def gene_menu():
    """(regions, strand, type, f0s, products)"""
    R = MOD.tx_region
    return [
        ([R("", content("ATG", ("GCA",), "TAA", 0, 0), "", [])], "+", "protein_coding", [0], {0: "kinase"}),
        ([R("G", content("TTG", ("TAG",), "GCA", 1, 0), "A", [(4, 2)])], "-", "protein_coding", [1], None),
        ([R("", content("ATG", ("GCA",), "TGA", 0, 0), "", []), R("G", content("ATG", ("TAA",), "TAG", 0, 0), "", [(3, 0), (6, 2)])], "+", "protein_coding", [0, 0], None),
        ([R("ACGTAC", None, "", [])], "+", "rRNA", [None], None),
        ([R("ACGTAC", None, "", [(3, 2)])], "-", "tRNA", [None], None),
        ([R("ACGTACGT", None, "", [(2, 0), (5, 1)])], "+", "misc_RNA", [None], None),
        ([R("ACGTA", None, "", [])], "-", "lncRNA", [None], None),
        ([R("", content("AAA", ("GCA",), "GCA", 2, 1), "", [(5, 1)])], "-", "protein_coding", [2], None),
    ]


NO_SYMBOL = (2, 3, 7)  # menu genes without a gene symbol (an optional identifier): coding and non-coding, with and without own locus tag


def multi_gene_coll(picks, order_rev, seqname="chrV", spacer=1, tag_base="L"):
    """lay the picked menu genes left to right; -> collection dict"""
    menu = gene_menu()
    genome = ""
    genes = []
    for n, gi in enumerate(picks):
        regions, strand, gtype, f0s, products = menu[gi]
        genome += "G" * (spacer if n else 0)
        text, txs = MOD.place(regions, strand, len(genome))
        genome += text
        genes.append({
            "type": gtype, "strand": strand, "symbol": None if gi in NO_SYMBOL else f"sym{gi}", "locus_tag": f"{tag_base}{gi}" if gi % 2 else None,
            "txs": [{"exons": ex, "cds": cd, "f0": f0s[i] if cd is not None else None, "product": (products or {}).get(i)} for i, (ex, cd) in enumerate(txs)],
        })
    order = list(range(len(picks)))
    if order_rev:
        order.reverse()
    return {"seqname": seqname, "genome": genome, "genes": genes, "order": order}


def world_C(tier):
    n = len(gene_menu())
    if tier == "quick":
        seqs = [p for k in (1, 2) for p in itertools.permutations(range(n), k)] + list(itertools.permutations(range(4), 3))
        prefixes = ["LT", "AB_C9", None]
        steps = [1, 5, 10]
        seeds = [7, 0]  # (0 is a seed like any other: `if random_seed:` used to ignore it)
        tables = [1]
    else:
        seqs = [p for k in (1, 2, 3) for p in itertools.permutations(range(n), k)]
        prefixes = ["LT", "AB_C9", None]
        steps = [1, 5, 10]
        seeds = [7, 0, 2 ** 31]
        tables = [0, 11]
    for picks in seqs:
        for rev in (False, True):
            if rev and len(picks) == 1:
                continue
            coll = multi_gene_coll(picks, rev)
            for prefix, step, fl, seed, table in itertools.product(prefixes, steps, ("EUKARYOTIC", "PROKARYOTIC"), seeds, tables):
                if tier == "quick" and seed == 0 and step != 1:
                    continue
                yield "C", {"colls": [coll], "table": table, "flavor": fl, "prefix": prefix, "step": step, "seed": seed,
                            "lab": None if prefix is None else "lab"}


D_CONTENTS = [
    ("ATG", ("GCA",), "TAA", 0, 0),  # clean
    ("ATG", ("TAG",), "TAA", 0, 0),  # in-frame stop
    ("ATG", ("GCA",), "TAA", 0, 1),  # stop in last complete codon + dangling base (ambiguous for pseudo)
    ("ATG", ("GCA",), "GCA", 0, 0),  # 3' partial
    ("TAA", ("GCA",), "TAA", 1, 0),  # first codon is a stop
]


def world_D(tier):
    # D1: two collections in one call (locus tags run on, one header each)
    pairs = [((0,), (1,)), ((3, 0), (4,)), ((2,), (5, 7)), ((6,), (6,))]
    for a, b in pairs:
        for step in (1, 5):
            for fl in ("EUKARYOTIC", "PROKARYOTIC"):
                for prefix in ("LT", None):
                    c1 = multi_gene_coll(a, False, seqname="chrV")
                    c2 = multi_gene_coll(b, False, seqname="gb|CM021127.1|", tag_base="M")
                    yield "D", {"colls": [c1, c2], "table": 1, "flavor": fl, "prefix": prefix, "step": step, "seed": 11, "lab": "lab"}
    # D2: two-transcript genes, every ordered pair of contents
    cuts_menu = [[], [(4, 2)]] if tier == "quick" else [[], [(4, 2)], [(2, 0), (7, 1)]]
    for ca, cb in itertools.product(D_CONTENTS, repeat=2):
        for cuts in cuts_menu:
            for strand in "+-":
                for fl in ("EUKARYOTIC", "PROKARYOTIC"):
                    for table in ((1,) if tier == "quick" else (0, 1, 11)):
                        ra = MOD.tx_region("", content(*ca), "", [])
                        rb = MOD.tx_region("G", content(*cb), "", cuts)
                        yield "D", one_gene_case([ra, rb], strand, "protein_coding", [ca[3], cb[3]], 1, 1, table, fl)
    # D3: CDS without a complete codon
    for txt, f in (("A", 0), ("AT", 0), ("AT", 1), ("ATG", 1), ("ATGA", 2), ("AT", 2)):
        for strand in "+-":
            for fl in ("EUKARYOTIC", "PROKARYOTIC"):
                reg = MOD.tx_region("G", txt, "A", [])
                yield "D", one_gene_case([reg], strand, "protein_coding", [f], 1, 1, 1, fl)


def enumerate_cases(tier):
    yield from world_A(tier)
    yield from world_B(tier)
    yield from world_C(tier)
    yield from world_D(tier)


# =========================================================================================================
# implementation side
# =========================================================================================================
def build(case):
    colls = []
    for c in case["colls"]:
        par = lib.chrom_parent(c["genome"], c["seqname"], Alphabet.NT_EXTENDED_GAPPED)
        genes = []
        for gi, g in enumerate(c["genes"]):
            btype = Biotype[g["type"]] if g["type"] else None
            ttype = btype if "tx_type" not in g else (Biotype[g["tx_type"]] if g["tx_type"] else None)
            txs = []
            for ti, t in enumerate(g["txs"]):
                kw = dict(
                    transcript_id=f"tx{gi}_{ti}", transcript_symbol=f"txsym{gi}_{ti}", transcript_type=ttype,
                    sequence_name=c["seqname"],
                )
                if t.get("product"):
                    kw["qualifiers"] = {"product": [t["product"]]}
                if t["cds"] is not None:
                    cds = [tuple(b) for b in t["cds"]]
                    frames = F.consistent_frames_plus_order(cds, g["strand"], t["f0"])
                    kw["protein_id"] = f"prot{gi}_{ti}"
                    txs.append(lib.mk_tx([tuple(b) for b in t["exons"]], g["strand"], cds, frames, par, **kw))
                else:
                    txs.append(lib.mk_tx([tuple(b) for b in t["exons"]], g["strand"], parent=par, **kw))
            genes.append(GeneInterval(
                txs, gene_id=f"gene{gi}", gene_symbol=g["symbol"], gene_type=btype, locus_tag=g["locus_tag"],
                sequence_name=c["seqname"], parent_or_seq_chunk_parent=par,
            ))
        genes = [genes[i] for i in c["order"]]
        colls.append(AnnotationCollection(genes=genes, sequence_name=c["seqname"], parent_or_seq_chunk_parent=par))
    return colls


def export(case, pre_seed, seed=None):
    """build the collections afresh, put the global random generator into a harness-chosen state, export.
    -> (('ok', text) | ('exc', name, exc), global random state changed?, state equals random.seed(seed) + draws?)"""
    colls = build(case)
    random.seed(pre_seed)
    before = random.getstate()
    buf = io.StringIO()
    o = lib.outcome(
        collection_to_tbl, colls, buf, translation_table=TABLES[case["table"]], locus_tag_prefix=case["prefix"],
        genbank_flavor=FLAVORS[case["flavor"]], locus_tag_jump_size=case["step"], submitter_lab_name=case["lab"],
        random_seed=case["seed"] if seed is None else seed,
    )
    after = random.getstate()
    if o[0] == "ok":
        o = ("ok", buf.getvalue())
    return o, before != after, after


# =========================================================================================================
# comparison
# =========================================================================================================
def expected(case):
    return [MOD.expected_section(c["genome"], [c["genes"][i] for i in c["order"]], case["table"], case["flavor"] == "EUKARYOTIC") for c in case["colls"]]


def n_codons_min(exp_sections):
    ns = [f["n_codons"] for sec in exp_sections for f in sec if f["cls"] == "CDS"]
    return min(ns) if ns else None


def compare(res, case, text, exp_sections):
    """-> number of deviations recorded"""
    nd = 0

    def dev(op, observed, exp, sig, **kw):
        nonlocal nd
        nd += 1
        res.deviation(op, case, observed, exp, sig=sig, **kw)

    try:
        secs = RD.parse_tbl(text)
    except RD.TblFormatError as e:
        dev("read", {"error": str(e), "text": text}, "5-column feature table", "tbl-unparseable")
        return nd
    if len(secs) != len(case["colls"]):
        dev("header", [s["seqid"] for s in secs], [c["seqname"] for c in case["colls"]], "header-count")
        return nd
    locus = []
    for si, (sec, coll, exp) in enumerate(zip(secs, case["colls"], exp_sections)):
        res.trans()
        if sec["seqid"] != coll["seqname"]:
            dev("header", sec["seqid"], coll["seqname"], "header-seqid")
        obs = []
        for ft in sec["features"]:
            cls = MOD.key_class(ft["key"])
            if cls is None:
                dev("feature-key", ft["key"], "gene|mRNA|CDS|RNA key", "unknown-feature-key")
                continue
            obs.append((cls, tuple(tuple(iv) for iv in RD.plain_intervals(ft)), ft))
            if cls == "gene":
                locus.append(RD.qual_values(ft, "locus_tag"))
        # multiset comparison of (class, intervals)
        res.trans(len(exp))
        exp_keys = sorted((f["cls"], tuple(tuple(iv) for iv in f["intervals"])) for f in exp)
        obs_keys = sorted((c, iv) for c, iv, _ in obs)
        if exp_keys != obs_keys:
            missing = [k for k in exp_keys if exp_keys.count(k) > obs_keys.count(k)]
            extra = [k for k in obs_keys if obs_keys.count(k) > exp_keys.count(k)]
            # the one other reading of "exactly the source blocks": RNA rows listing ADJACENT exon blocks unmerged
            alt_keys = sorted(
                (f["cls"], tuple(tuple(iv) for iv in (f["unmerged"] if f["cls"] == "RNA" else f["intervals"]))) for f in exp
            )
            if alt_keys == obs_keys:
                # literal reading of "lists exactly the source blocks": adjacent exon blocks of a non-coding transcript
                # are listed one by one (the mRNA/CDS rows of the same structure are merged). Both readings describe the
                # same bases 5'->3'; neither is a deviation from the statement. Counted, not judged.
                res.extra["rna_rows_with_adjacent_blocks_unmerged"] += 1
            else:
                first = (missing + extra)[0]
                strands = sorted({g["strand"] for g in coll["genes"]})
                dev("blocks", {"missing": missing, "extra": extra}, exp_keys, f"blocks-{first[0]}", section=si, strands=strands)
                continue
        # CDS facts
        by_key = {}
        for c, iv, ft in obs:
            by_key.setdefault((c, iv), []).append(ft)
        for f in exp:
            if f["cls"] != "CDS":
                continue
            fts = by_key[("CDS", tuple(tuple(iv) for iv in f["intervals"]))]
            if len(fts) != 1:
                continue  # (the generated worlds never contain two CDS with the same intervals)
            ft = fts[0]
            res.trans(4)
            five, three, bad = RD.partial_marks(ft)
            ctx = dict(section=si, gene=f["gene"], tx=f["tx"], codons=f["codons"], n_codons=f["n_codons"], ends_in_frame=f["ends_in_frame"],
                       table=case["table"], intervals=f["intervals"])
            if bad:
                dev("cds-marks", bad, "'<' only on the first start, '>' only on the last end", "mark-misplaced", **ctx)
            if five != f["five_partial"]:
                dev("cds-5p", five, f["five_partial"], "cds-5p-" + ("missing" if f["five_partial"] else "spurious"), **ctx)
            if three != f["three_partial"]:
                dev("cds-3p", three, f["three_partial"], "cds-3p-" + ("missing" if f["three_partial"] else "spurious"), **ctx)
            cs = RD.qual_values(ft, "codon_start")
            if cs != [str(f["codon_start"])]:
                dev("codon_start", cs, [str(f["codon_start"])], "codon-start", **ctx)
            ps = RD.has_qual(ft, "pseudo")
            if not f["pseudo_ambiguous"] and ps != f["pseudo"]:
                dev("pseudo", ps, f["pseudo"], "pseudo-" + ("missing" if f["pseudo"] else "spurious"), **ctx)
            res.note("cds", f"5p={int(five)} 3p={int(three)} pseudo={int(ps)} cs={cs[0] if cs else None}")
        for c, iv, ft in obs:
            if c != "CDS":
                res.note("feature", f"{c} n_intervals={min(len(iv), 3)} {'minus' if iv[0][0] > iv[0][1] else 'plus/1bp'}")
    # locus tags: gene rows in file order
    res.trans()
    exp_n = sum(len(c["genes"]) for c in case["colls"])
    tags = [v[0] if len(v) == 1 else None for v in locus]
    ok = len(tags) == exp_n and all(t is not None for t in tags)
    nums, prefixes = [], set()
    if ok:
        for t in tags:
            head, sep, tail = t.rpartition("_")
            if not sep or not tail.isdigit():
                ok = False
                break
            nums.append(int(tail))
            prefixes.add(head)
    if ok:
        ok = (
            len(prefixes) == 1
            and (case["prefix"] is None or prefixes == {case["prefix"]})
            and len(set(tags)) == len(tags)
            and all(b - a == case["step"] for a, b in zip(nums, nums[1:]))
        )
    if not ok:
        dev("locus_tag", locus, f"{case['prefix'] or '<any prefix>'}_<n>, n increasing by {case['step']}, unique, one per gene", "locus-tag")
    return nd


def is_nontrivial(case, exp_sections):
    if sum(len(c["genes"]) for c in case["colls"]) > 1:
        return True
    for sec in exp_sections:
        for f in sec:
            if len(f["intervals"]) > 1 or f["intervals"][0][0] > f["intervals"][0][1]:
                return True
            if f["cls"] == "CDS" and (f["five_partial"] or f["three_partial"] or f["pseudo"] or f["codon_start"] != 1):
                return True
    return False


def check_case(res, case, world="?"):
    saved = random.getstate()
    try:
        exp = expected(case)
        o1, changed1, after1 = export(case, pre_seed=101)
        res.trans()
        zero_codon = n_codons_min(exp) == 0
        # a refusal is accepted only for a CDS that has no in-frame base to speak of: no complete codon AND nothing dangling
        # behind the start offset (a CDS with 1-2 in-frame bases is 5'- and 3'-partial and is listed like any other)
        degenerate = any(f["cls"] == "CDS" and f["n_codons"] == 0 and f["ends_in_frame"] for sec in exp for f in sec)
        if o1[0] == "exc":
            if zero_codon and degenerate and lib.is_documented_exc(o1[2]):
                res.note("export", "zero-codon-cds-refused:" + o1[1])
                return
            res.deviation("export", case, o1[1] + ": " + str(o1[2])[:200], "a feature table", sig="export-raises-" + o1[1])
            return
        text = o1[1]
        res.note("export", "ok" + ("-zero-codon" if zero_codon else ""))
        res.state(("tbl", text))
        if is_nontrivial(case, exp):
            res.nontriv(("case", text, case["table"], case["flavor"]))
        compare(res, case, text, exp)
        # reproducibility: same seed, different global random state before the call
        o2, changed2, after2 = export(case, pre_seed=202)
        res.trans()
        if o2[0] != "ok" or o2[1] != text:
            res.deviation("reproducible", case, o2[1] if o2[0] == "ok" else "raises " + o2[1], text, sig="not-reproducible")
        # what happened to the caller-visible global random state (recorded, not judged)
        ref = random.Random()
        ref.seed(case["seed"])
        kind = "unchanged" if not changed1 else ("left-reseeded-by-the-call" if after1 == after2 else "advanced")
        res.extra["random_state:" + kind] += 1
        res.note("random", kind)
    finally:
        random.setstate(saved)


def run_shard(shard):
    res = ShardResult()
    tier = shard["tier"]
    nw = {}
    for idx, (world, case) in enumerate(enumerate_cases(tier)):
        if idx % NSH != shard["i"]:
            continue
        nw[world] = nw.get(world, 0) + 1
        check_case(res, case, world)
        if nw[world] == 1:
            res.sample({"world": world, "case": case}, cap=4)
    for w, n in nw.items():
        res.extra["cases_world_" + w] += n
    if shard["i"] == 0:
        seed_axis(res, tier)
    return res


def seed_axis(res, tier):
    """vacuity guard for the reproducibility clause: different seeds / no seed give different identifiers, so
    'byte-identical for a fixed seed' is not trivially true"""
    saved = random.getstate()
    try:
        case = next(c for w, c in world_C(tier) if c["prefix"] is None)
        texts = {}
        for s in (7, 8, 2 ** 31):
            o, _, _ = export(case, pre_seed=5, seed=s)
            texts[s] = o[1] if o[0] == "ok" else None
        res.note("seed-axis", "distinct-outputs=" + str(len(set(texts.values()))))
        # seed None / 0: identifiers come from the caller's generator state
        o1, ch, _ = export(dict(case, seed=0), pre_seed=5, seed=0)
        o2, _, _ = export(dict(case, seed=0), pre_seed=6, seed=0)
        res.note("seed-axis", "seed0-follows-global-state=" + str(o1[1] != o2[1]))
        res.extra["random_state:seed0-advanced"] += int(ch)
    finally:
        random.setstate(saved)


def replay(case):
    res = ShardResult()
    check_case(res, case)
    return res.deviations


def _norm(x):
    if isinstance(x, (list, tuple)):
        return [_norm(y) for y in x]
    if isinstance(x, dict):
        return {k: _norm(v) for k, v in x.items()}
    return x


def m_rna_adjacent_unmerged(d):
    """Input class: a non-coding transcript with ADJACENT (0-bp gap) exon blocks.  Wrong-answer shape: apart from that
    every row is right; each such transcript's RNA row lists exactly its source blocks unmerged (same positions,
    same 5'->3' order, same strand) where the merged interval list is expected."""
    if d.get("sig") != "rna-adjacent-blocks-unmerged" or not d.get("only_rna_rows_differ"):
        return False
    coll = d["case"]["colls"][d["section"]]
    merged, unmerged = [], []
    for g in coll["genes"]:
        for t in g["txs"]:
            if t["cds"] is None:
                u = MOD.tbl_intervals_unmerged(t["exons"], g["strand"])
                m = MOD.tbl_intervals(t["exons"], g["strand"])
                if u != m:
                    merged.append(["RNA", m])
                    unmerged.append(["RNA", u])
    obs = _norm(d["observed"])
    return bool(merged) and sorted(obs["missing"]) == sorted(merged) and sorted(obs["extra"]) == sorted(unmerged)


MATCHERS = {}  # (the unmerged-RNA-row reading is accepted in compare(); m_rna_adjacent_unmerged is unused)
