"""C09 world: JSON-able specifications of annotation collections over a designed chromosome, and the builders that
turn a specification into library objects (the implementation under exploration).

A collection spec is
    {"off": T, "L": chromosome length, "parent": "none"|"chrom"|"chunk"|"seqless", "win": [a, b] (chunk only),
     "children": [child, ...]}
a child is
    {"k": "gene"|"fc"|"vc", "id": str, "name": str|None, "gc": [grandchild, ...]}
a grandchild is (all coordinates are chromosome coordinates)
    gene: {"id", "ex": [[s, e], ...], "st": "+"|"-", "cds": [[s, e], ...]|None, "fr": [int, ...]|None}
    fc:   {"id", "ex": [[s, e], ...], "st"}
    vc:   {"id", "ex": [[s, e]], "alt": str}

Nothing here samples; every generator enumerates a finite menu completely.
"""
import itertools

# 32 distinct symbols of NT_EXTENDED_GAPPED: every position of a window of < 30 bases is distinguishable
ALPHA = "ACGTRYSWKMBDHVNacgtryswkmbdhvn"


def genome_text(L):
    """designed chromosome: position i carries the (i mod 30)-th symbol"""
    reps = L // len(ALPHA) + 1
    return (ALPHA * reps)[:L]


# ---------------------------------------------------------------------------------------------------------------------
# span arrangements (relative to a world of width N; scaled from a 12-grid)
# ---------------------------------------------------------------------------------------------------------------------
def arrangements(N):
    """name -> tuple of spans. All pairwise relations of the menu disjoint / touching / overlapping / nested (strict,
    shared start, shared end) / identical occur, with and without a child at position 0 and at N."""
    q = N // 4  # 3 for N=12, 4 for N=16
    A = {}
    # one span
    A["1-inner"] = ((2, N - 3),)
    A["1-full"] = ((0, N),)
    A["1-unit"] = ((q, q + 1),)
    # two spans
    A["2-disjoint"] = ((1, q + 1), (2 * q, N - 2))
    A["2-touching"] = ((1, q + 2), (q + 2, N - 2))
    A["2-overlap"] = ((1, 2 * q), (q + 1, N - 2))
    A["2-nested"] = ((1, N - 2), (q, 2 * q))
    A["2-nested-start"] = ((1, N - 2), (1, q + 2))
    A["2-nested-end"] = ((1, N - 2), (2 * q, N - 2))
    A["2-identical"] = ((2, N - 4), (2, N - 4))
    A["2-edges"] = ((0, q + 1), (N - q, N))
    # three spans
    A["3-disjoint"] = ((1, q), (q + 1, 2 * q + 1), (2 * q + 3, N - 1))
    A["3-touching"] = ((0, q), (q, 2 * q + 1), (2 * q + 1, N))
    A["3-chain"] = ((1, q + 2), (q, 2 * q + 2), (2 * q, N - 1))
    A["3-nested"] = ((0, N), (2, N - 3), (q + 1, 2 * q))
    A["3-two-in-one"] = ((1, N - 1), (2, q + 1), (q + 1, N - 3))
    A["3-mixed"] = ((1, q + 1), (q + 1, N - 2), (q + 2, N - 4))
    A["3-bridge"] = ((1, q + 1), (2 * q + 1, N - 1), (q, 2 * q + 2))
    return A


# ---------------------------------------------------------------------------------------------------------------------
# child templates
# ---------------------------------------------------------------------------------------------------------------------
KINDS = ("Gc", "Gn", "G2", "F1", "F2", "V1", "V2")
KIND_CLASS = {"Gc": "gene", "Gn": "gene", "G2": "gene", "F1": "fc", "F2": "fc", "V1": "vc", "V2": "vc"}


def _split_blocks(s, e):
    """two exons (s,s+1),(e-1,e) with an intron between when the span has >= 3 bases, else the span"""
    if e - s >= 3:
        return [[s, s + 1], [e - 1, e]]
    return [[s, e]]


def make_child(kind, idx, s, e, shared_name=None):
    """child `idx` of kind `kind` spanning exactly [s,e)"""
    L = e - s
    m = s + max(1, L // 2)
    cid = f"{kind.lower()}{idx}"
    if kind == "Gc":
        gc = [{"id": cid + "a", "ex": [[s, e]], "st": "+", "cds": [[s, e]], "fr": [0]}]
    elif kind == "Gn":
        gc = [{"id": cid + "a", "ex": _split_blocks(s, e), "st": "-", "cds": None, "fr": None}]
    elif kind == "G2":
        # coding isoform on the left part, non-coding two-exon isoform spanning the whole gene
        gc = [
            {"id": cid + "a", "ex": [[s, m]], "st": "+", "cds": [[s, m]], "fr": [0]},
            # (the NON-coding isoform is the one the data source flags as primary: the gene is coding all the same)
            {"id": cid + "b", "ex": _split_blocks(s, e), "st": "-", "cds": None, "fr": None, "prim": True},
        ]
        if L == 1:
            gc[1]["st"] = "-"
    elif kind == "F1":
        gc = [{"id": cid + "a", "ex": [[s, e]], "st": "-"}]
    elif kind == "F2":
        gc = [
            {"id": cid + "a", "ex": _split_blocks(s, e), "st": "+"},
            {"id": cid + "b", "ex": [[m if m < e else s, e]], "st": "-"},
        ]
    elif kind == "V1":
        gc = [{"id": cid + "a", "ex": [[s, e]], "alt": "T" * L}]
    elif kind == "V2":
        if L >= 2:
            gc = [{"id": cid + "a", "ex": [[s, s + 1]], "alt": "G"}, {"id": cid + "b", "ex": [[e - 1, e]], "alt": "C"}]
        else:
            gc = [{"id": cid + "a", "ex": [[s, e]], "alt": "G"}]
    else:
        raise ValueError(kind)
    return {"k": KIND_CLASS[kind], "id": cid, "name": shared_name, "gc": gc}


def shift_child(child, d):
    out = {"k": child["k"], "id": child["id"], "name": child["name"], "gc": []}
    for g in child["gc"]:
        h = dict(g)
        h["ex"] = [[s + d, e + d] for s, e in g["ex"]]
        if g.get("cds"):
            h["cds"] = [[s + d, e + d] for s, e in g["cds"]]
        out["gc"].append(h)
    return out


def child_span(child):
    return (min(b[0] for g in child["gc"] for b in g["ex"]), max(b[1] for g in child["gc"] for b in g["ex"]))


def child_coding(child):
    return child["k"] == "gene" and any(g.get("cds") for g in child["gc"])


# kind assignments per number of children ------------------------------------------------------------------------------
def _admissible(t):
    cls = [KIND_CLASS[k] for k in t]
    return cls.count("vc") <= 1 and cls.count("fc") <= 2 and cls.count("gene") <= 3


EXTRA_TRIPLES = [("G2", "Gn", "F2"), ("G2", "F2", "V1"), ("Gc", "Gn", "V2"), ("Gn", "F1", "F2"), ("Gc", "G2", "Gn")]


def kind_tuples(n, tier):
    """Admissible kind tuples (<=3 genes, <=2 feature collections, <=1 variant collection).
    compact menu = (G2 coding+non-coding gene, Gn, F2, V1).
    quick:    n<=2 every tuple over the compact menu (+ the three remaining kinds alone); n=3 the three rotations of
              the first three fixed multisets (every kind meets every span position).
    thorough: n<=2 every tuple over all seven kinds; n=3 every tuple over the compact menu plus the rotations of the
              multisets that bring in Gc, F1, V2."""
    compact = ("G2", "Gn", "F2", "V1")
    rot = []
    for ms in EXTRA_TRIPLES:
        for r in range(3):
            rot.append(ms[r:] + ms[:r])
    if n == 3:
        if tier == "quick":
            return rot[:9]
        out = [t for t in itertools.product(compact, repeat=3) if _admissible(t)]
        return out + [t for t in rot if t not in out]
    menu = KINDS if tier == "thorough" else compact
    out = [t for t in itertools.product(menu, repeat=n) if _admissible(t)]
    if n == 1 and tier == "quick":
        out += [("Gc",), ("F1",), ("V2",)]
    return out


def base_children_sets(N, tier):
    """yield (arrangement name, kinds, [child, ...]) for the whole menu of the tier (relative coordinates)"""
    arrs = arrangements(N)
    for name in sorted(arrs):
        spans = arrs[name]
        for kinds in kind_tuples(len(spans), tier):
            children = []
            for i, (k, (s, e)) in enumerate(zip(kinds, spans)):
                # children 0 and 2 share a (non unique) name
                shared = "shared" if i in (0, 2) else None
                children.append(make_child(k, i, s, e, shared))
            yield name, kinds, children


def parent_menu(N, children, tier):
    """parent kinds for a base collection: none, chromosome, chunk windows containing every child
    (quick: the loose window [lo-1,hi+1]; thorough: loose, tight [lo,hi] and - up to two children - the whole
    chromosome as a chunk)"""
    out = [("none", None), ("chrom", None)]
    if not children:
        return out + [("chunk", (1, N - 1))]
    lo = min(child_span(c)[0] for c in children)
    hi = max(child_span(c)[1] for c in children)
    wins = [(max(0, lo - 1), min(N, hi + 1))]
    if tier == "thorough":
        for w in ((lo, hi), (0, N)) if len(children) <= 2 else ((lo, hi),):
            if w not in wins:
                wins.append(w)
    return out + [("chunk", w) for w in wins]


# ---------------------------------------------------------------------------------------------------------------------
# builders (library objects)
# ---------------------------------------------------------------------------------------------------------------------
def build_parent(spec):
    from vlib import lib
    from inscripta.biocantor.parent import Parent

    kind = spec["parent"]
    if kind == "none":
        return None
    if kind == "seqless":
        return Parent(id="chrV", sequence_type="chromosome")
    g = genome_text(spec["L"])
    if kind == "chrom":
        return lib.chrom_parent(g)
    a, b = spec["win"]
    return lib.chunk_parent(g, a, b)


def build_child(child, parent):
    from vlib import lib
    from inscripta.biocantor.gene.gene import GeneInterval
    from inscripta.biocantor.gene.feature import FeatureIntervalCollection
    from inscripta.biocantor.gene.variants import VariantInterval, VariantIntervalCollection

    if child["k"] == "gene":
        txs = []
        for g in child["gc"]:
            kw = dict(transcript_id=g["id"], sequence_name="chrV")
            if g.get("prim"):
                kw["is_primary_tx"] = True
            if g.get("cds"):
                txs.append(lib.mk_tx(g["ex"], g["st"], g["cds"], g["fr"], parent, **kw))
            else:
                txs.append(lib.mk_tx(g["ex"], g["st"], parent=parent, **kw))
        return GeneInterval(txs, gene_id=child["id"], gene_symbol=child["name"], sequence_name="chrV", parent_or_seq_chunk_parent=parent)
    if child["k"] == "fc":
        fs = [lib.mk_feat(g["ex"], g["st"], parent, feature_id=g["id"], sequence_name="chrV", feature_types=["site"]) for g in child["gc"]]
        return FeatureIntervalCollection(fs, feature_collection_id=child["id"], feature_collection_name=child["name"], sequence_name="chrV", parent_or_seq_chunk_parent=parent)
    vs = [
        VariantInterval(g["ex"][0][0], g["ex"][0][1], g["alt"], "SNV" if len(g["alt"]) == g["ex"][0][1] - g["ex"][0][0] else "INDEL", variant_id=g["id"], parent_or_seq_chunk_parent=parent)
        for g in child["gc"]
    ]
    return VariantIntervalCollection(vs, variant_collection_id=child["id"], variant_collection_name=child["name"], sequence_name="chrV", parent_or_seq_chunk_parent=parent)


def build_collection(spec):
    from inscripta.biocantor.gene.collections import AnnotationCollection

    parent = build_parent(spec)
    genes, fcs, vcs = [], [], []
    for c in spec["children"]:
        obj = build_child(c, parent)
        {"gene": genes, "fc": fcs, "vc": vcs}[c["k"]].append(obj)
    kw = {}
    if spec.get("bounds"):
        kw = dict(start=spec["bounds"][0], end=spec["bounds"][1])
    return AnnotationCollection(fcs, genes, vcs, name="ac", sequence_name="chrV", parent_or_seq_chunk_parent=parent, **kw)
