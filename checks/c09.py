"""C09 - Collection queries return exactly the specified members, self-consistently."""
import itertools
from uuid import UUID

from vlib import lib
from vlib.runner import ShardResult

from checks import c09_world as W
from checks import c09_model as M

PROPERTY = "C09"
TITLE = "Collection queries return exactly the specified members, self-consistently"
RULE = (
    "every AnnotationCollection of a menu of span arrangements (1-3 children: disjoint, touching, overlapping, nested "
    "with shared start/end, identical, at position 0 and at N) x kind tuples (coding / non-coding / two-isoform genes, "
    "1-2-feature collections, 1-2-variant collections; <=3 genes, <=2 feature collections, <=1 variant collection) x "
    "parent {none, sequence-less chromosome, chromosome with sequence, chunk windows} on W(N), plus the empty collection, "
    "plus collections with EXPLICIT bounds strictly inside their chromosome / chunk sequence (family xb); "
    "the same arrangements translated across 2^17, 2^20, 2^23 (parentless) and, thorough, inside a 300 kb chromosome "
    "with sequence. For each collection EVERY (start,end) in [lo-1,hi+1]^2 plus None x all 8 flag combinations of "
    "query_by_position; every subset of child guids / grandchild guids / identifiers plus one unknown for the five "
    "identifier queries; every distinct result of a first-level position query of the depth-2 family is itself "
    "re-queried with the complete menu. Strict queries are repeated on a twin whose bin attributes are recomputed by an "
    "independent kent function (quick: only in the boundary worlds; inside W(N) all intervals share the first 128 kb bin). "
    "Non-trivial = a query range that cuts a child or has an end point on a child boundary, "
    "or an identifier subset that is neither empty nor everything."
)
ASSUMPTIONS = [
    "cgranges is not installed: AnnotationCollection._optimized_query_by_position and the cgranges branch of "
    "_associate_intervals_with_variant_intervals are out of reach; only _query_by_position (bins pre-filter) is executed",
    "start/end = None mean the collection's own bound on that side (the docstring's 'will be 0' / 'unbounded' cannot be "
    "meant literally: 0 would be outside a collection that starts later)",
    "a zero-length range inside the collection may be rejected with InvalidQueryError (what the code documents in its "
    "message) or answered with an empty strict result; both are accepted",
    "under coding_only a variant collection may be kept or dropped (no documentation calls it coding or non-coding); "
    "raising is not accepted",
    "identifier/GUID queries document no bounds: the check only requires that the result's bounds enclose every kept "
    "member; sequences are then compared against the source sequence restricted to the bounds the result reports",
    "expand_location_to_children extends the range over genes and feature collections only (docstring: 'child "
    "genes/feature collections'), not over variant collections",
    "members are identified by their gene_id / feature_collection_id / variant_collection_id, grandchildren by "
    "transcript_id / feature_id / variant_id (unique in the world), never through GUIDs; GUID preservation is checked "
    "separately",
    "variant alt alleles have the length of the replaced stretch (no indels), so that building a collection (which "
    "incorporates variants into overlapping members) never meets C13's deleted-location defect",
    "depth-2 family: arrangements 2-overlap, 3-mixed (thorough also 2-nested, 3-chain, 3-nested and the 300 kb world) x a "
    "fixed list of kind tuples x parents {none, chromosome, chunk}; first-level queries that are expanded: ranges over the "
    "cut points S in {bs, lo, lo+1, m}, E in {m+1, hi-1, hi, be} (quick without lo, hi), coding_only=False, x {strict, "
    "relaxed, relaxed+expand}; every distinct result is re-queried with the complete position menu and all identifier "
    "subsets",
    "depth 2: results of identifier queries are checked but not re-queried; results of results are checked but not "
    "re-queried",
    "a parentless collection that holds only variant collections may be boundless (len() ignores variant collections) "
    "or carry the span of its children; the model adopts whichever the library reports; a boundless collection must "
    "reject every position query with InvalidQueryError and still answer identifier queries",
    "compatibility layer vlib/compat (marshmallow 4) is part of the trusted base: _subset_parent imports io.parser",
]

UNKNOWN_GUID = UUID(int=0xC09C09C09)
UNKNOWN_IDENT = "no-such-identifier"
NSH = 64

TIERS = {
    "quick": dict(N=12, levels=(17, 20, 23), big=False),
    "thorough": dict(N=16, levels=(17, 20, 23), big=True),
}
BIG_L = 300_000


def world_description(tier):
    t = TIERS[tier]
    n = sum(1 for _ in base_specs(tier))
    n2 = sum(1 for s in base_specs(tier) if s["d2"])
    return (
        f"{n} base collections (W({t['N']}) tiny world + boundary worlds at 2^{t['levels']}"
        + (", one 300 kb sequence-bearing world" if t["big"] else "")
        + f"); {n2} of them in the depth-2 family; (N+4)^2 x 8 position queries per collection; all identifier subsets"
    )


# ---------------------------------------------------------------------------------------------------------------------
# world enumeration
# ---------------------------------------------------------------------------------------------------------------------
D2_ARR = {"quick": ("2-overlap", "3-mixed"), "thorough": ("2-overlap", "2-nested", "3-chain", "3-mixed", "3-nested")}
BOUND_KINDS = {1: [("G2",), ("F2",), ("V2",)], 2: [("G2", "F2"), ("V2", "Gn")], 3: [("G2", "F2", "V2"), ("F1", "Gn", "Gc")]}


def _mk_children(kinds, spans, off):
    out = []
    for i, (k, (s, e)) in enumerate(zip(kinds, spans)):
        out.append(W.make_child(k, i, s + off, e + off, "shared" if i in (0, 2) else None))
    return out


def base_specs(tier):
    """the complete list of base collection specs of the tier (deterministic order)"""
    yield from _base_specs_small(tier)
    yield from many_specs(tier)


def _base_specs_small(tier):
    t = TIERS[tier]
    N = t["N"]
    arrs = W.arrangements(N)
    # --- tiny world ----------------------------------------------------------------------------------------------
    for pk, win in (("none", None), ("chrom", None), ("chunk", (1, N - 1)), ("seqless", None)):
        yield dict(fam="tiny", off=0, N=N, L=N, parent=pk, win=win, children=[], d2=False, arr="0-empty", kinds=[])
    for name in sorted(arrs):
        spans = arrs[name]
        for kinds in W.kind_tuples(len(spans), tier):
            children = _mk_children(kinds, spans, 0)
            pm = W.parent_menu(N, children, tier)
            if len(spans) <= 2 and (tier == "thorough" or kinds[0] in ("G2", "F2")):
                pm = pm + [("seqless", None)]
            for pk, win in pm:
                d2 = name in D2_ARR[tier] and pk in ("chrom", "chunk", "none") and _d2_kinds(kinds, tier)
                yield dict(fam="tiny", off=0, N=N, L=N, parent=pk, win=win, children=children, d2=d2, arr=name, kinds=list(kinds))
    # --- explicit bounds strictly inside the sequence (chromosome with sequence, chunk) ------------------------------------
    xarr = ("1-inner", "2-overlap", "3-mixed") if tier == "quick" else ("1-inner", "2-disjoint", "2-nested", "2-overlap", "3-chain", "3-disjoint", "3-mixed")
    for name in xarr:
        spans = arrs[name]
        lo, hi = min(s for s, e in spans), max(e for s, e in spans)
        cand = []
        for b in ((lo, hi), (lo - 1, hi + 1), (lo, hi + 1), (lo - 1, hi)):
            if 1 <= b[0] and b[1] <= N - 1 and b not in cand:
                cand.append(b)
        if tier == "quick":
            cand = cand[:2]
        for kinds in BOUND_KINDS[len(spans)]:
            children = _mk_children(kinds, spans, 0)
            for b in cand:
                pm = [("chrom", None), ("chunk", (b[0] - 1, b[1] + 1))]
                if tier == "thorough" and (b[0] - 1, b[1] + 1) != (0, N):
                    pm.append(("chunk", (0, N)))
                for pk, win in pm:
                    yield dict(fam="xb", off=0, N=N, L=N, parent=pk, win=win, bounds=list(b), children=children, d2=False, arr=name, kinds=list(kinds))
            # explicit bounds that CUT a member (the shape every relaxed query result has), on a whole chromosome with sequence
            for b in ((lo + 1, hi), (lo, hi - 1), (lo + 1, hi - 1)):
                if b[1] - b[0] >= 2:
                    yield dict(fam="xb", off=0, N=N, L=N, parent="chrom", win=None, bounds=list(b), children=children, d2=False, arr=name, kinds=list(kinds), cut=True)
    # --- boundary worlds (parentless, sequence-less) --------------------------------------------------------------------
    for lvl in t["levels"]:
        B = 1 << lvl
        for name in sorted(arrs):
            spans = arrs[name]
            ends = sorted({p for sp in spans for p in sp})
            if tier == "thorough":
                cs = list(range(0, N + 1))  # the boundary at every position of the arrangement
            elif lvl == 17:
                cs = ends  # the boundary on every span end point
            else:
                cs = sorted({spans[0][1], spans[-1][0]})
            for c in cs:
                off = B - c
                for ki, kinds in enumerate(BOUND_KINDS[len(spans)]):
                    if tier == "quick" and lvl != 17 and ki > 0:
                        continue
                    children = _mk_children(kinds, spans, off)
                    yield dict(fam=f"b{lvl}", off=off, N=N, L=off + N, parent="none", win=None, children=children, d2=False, arr=name, kinds=list(kinds))
    # --- one 300 kb sequence-bearing world --------------------------------------------------------------------------------
    if t["big"]:
        B = 1 << 17
        for name in ("2-overlap", "3-chain", "3-touching", "2-edges"):
            spans = arrs[name]
            for c in (0, spans[0][1], spans[-1][0], N // 2):
                off = B - c
                for ki, kinds in enumerate(BOUND_KINDS[len(spans)]):
                    children = _mk_children(kinds, spans, off)
                    for pk, win in (("chrom", None), ("chunk", (off - 3, off + N + 3))):
                        yield dict(fam="big", off=off, N=N, L=BIG_L, parent=pk, win=win, children=children, d2=(c == N // 2 and ki == 0), arr=name, kinds=list(kinds))


MANY_K = {"quick": (9, 24), "thorough": (9, 16, 24, 40)}


def many_specs(tier):
    """collections with MANY members (a threshold-style short-cut over the sorted children needs more than three):
    k members of cycling kinds, each 2 bp, in the span arrangements disjoint / touching / staggered-overlapping; queries
    and identifier requests come from reduced, completely enumerated menus (pos_menu / id_ops with many=True)"""
    kinds = ("Gc", "F1", "Gn", "V1", "G2", "F2")
    for k in MANY_K[tier]:
        for step, ln_ in ((3, 2), (2, 2), (2, 3)):  # disjoint with gaps, touching, overlapping neighbours
            spans = [(1 + i * step, 1 + i * step + ln_) for i in range(k)]
            N = spans[-1][1] + 2
            children = [W.make_child(kinds[i % len(kinds)], i, s, e, "shared" if i in (0, k // 2) else None) for i, (s, e) in enumerate(spans)]
            for pk, win in (("none", None), ("chrom", None), ("chunk", (1, N - 1))):
                yield dict(fam="many", off=0, N=N, L=N, parent=pk, win=win, children=children, d2=False, arr=f"many-{k}-{step}-{ln_}", kinds=[kinds[i % len(kinds)] for i in range(k)], many=True)


D2_KINDS = {
    "quick": (("G2", "F2"), ("V1", "G2"), ("G2", "F2", "V1"), ("G2", "Gn", "F2")),
    "thorough": (("G2", "F2"), ("V1", "G2"), ("F2", "Gn"), ("G2", "F2", "V1"), ("G2", "Gn", "F2"), ("V1", "Gn", "G2")),
}


def _d2_kinds(kinds, tier):
    return tuple(kinds) in D2_KINDS[tier]


def shards(tier, seed):
    return [{"tier": tier, "i": i} for i in range(NSH)]


# ---------------------------------------------------------------------------------------------------------------------
# implementation side helpers
# ---------------------------------------------------------------------------------------------------------------------
_GENOMES = {}


def genome_fn(L):
    g = _GENOMES.get(L)
    if g is None:
        g = _GENOMES[L] = W.genome_text(L)
    return lambda a, b: g[a:b]


CHILD_ID_ATTR = {"GeneInterval": "gene_id", "FeatureIntervalCollection": "feature_collection_id", "VariantIntervalCollection": "variant_collection_id"}
GC_ID_ATTR = {"TranscriptInterval": "transcript_id", "FeatureInterval": "feature_id", "VariantInterval": "variant_id"}
GUID_KEYS = {"gene_guid", "feature_collection_guid", "variant_collection_guid", "transcript_interval_guid", "feature_interval_guid", "variant_interval_guid", "guid"}
GC_LIST_KEY = {"GeneInterval": "transcripts", "FeatureIntervalCollection": "feature_intervals", "VariantIntervalCollection": "variant_intervals"}


def cid(child):
    return getattr(child, CHILD_ID_ATTR[type(child).__name__])


def gid(gc):
    return getattr(gc, GC_ID_ATTR[type(gc).__name__])


def all_children(coll):
    return list(coll.genes) + list(coll.feature_collections) + list(coll.variant_collections)


def strip(d):
    """to_dict() minus guid fields, grandchildren keyed by their identifier (order-insensitive)"""
    if isinstance(d, dict):
        return {k: strip(v) for k, v in d.items() if k not in GUID_KEYS}
    if isinstance(d, (list, tuple)):
        return [strip(x) for x in d]
    return d


def member_view(child):
    """(stripped dict without the grandchild list, {grandchild id: stripped grandchild dict}, guids)"""
    d = child.to_dict()
    key = GC_LIST_KEY[type(child).__name__]
    gcs = d.pop(key)
    idattr = {"transcripts": "transcript_id", "feature_intervals": "feature_id", "variant_intervals": "variant_id"}[key]
    return strip(d), {g[idattr]: strip(g) for g in gcs}


class Src:
    """a library collection with the lookups the comparison needs (built once per explored state)"""

    def __init__(self, coll):
        self.coll = coll
        self.children = {cid(c): c for c in all_children(coll)}
        self.views = {k: member_view(c) for k, c in self.children.items()}
        self.child_guid = {k: c.guid for k, c in self.children.items()}
        self.gc_guid = {}
        for c in self.children.values():
            for g in c.iter_children():
                self.gc_guid[gid(g)] = g.guid


def set_kent_bins(coll):
    for c in all_children(coll):
        if hasattr(c, "bin"):
            c.bin = M.kent(c.start, c.end)
        for g in c.iter_children():
            g.bin = M.kent(g.start, g.end)


# ---------------------------------------------------------------------------------------------------------------------
# comparison of one result collection with the model
# ---------------------------------------------------------------------------------------------------------------------
def compare_members(r, src, members, optional, kept_gc=None):
    """membership + per member dict/guid comparison. members: expected child specs (possibly with reduced "gc")."""
    probs = []
    got = {}
    for c in all_children(r):
        k = cid(c)
        if k in got:
            probs.append(("member-duplicated", k))
        got[k] = c
    exp_ids = {c["id"] for c in members}
    need = exp_ids - set(optional)
    gs = set(got)
    if not (need <= gs <= exp_ids):
        probs.append(("membership", {"got": sorted(gs), "expected": sorted(exp_ids), "optional": sorted(optional)}))
        return probs, got
    for c in members:
        k = c["id"]
        if k not in got:
            continue
        o = got[k]
        # class
        want_cls = {"gene": "GeneInterval", "fc": "FeatureIntervalCollection", "vc": "VariantIntervalCollection"}[c["k"]]
        if type(o).__name__ != want_cls:
            probs.append(("member-class", k))
            continue
        d, gcs = member_view(o)
        sd, sgcs = src.views[k]
        exp_gc_ids = {g["id"] for g in c["gc"]}
        if set(gcs) != exp_gc_ids:
            probs.append(("grandchildren", {"member": k, "got": sorted(gcs), "expected": sorted(exp_gc_ids)}))
            continue
        if d != sd:
            probs.append(("member-dict-changed", {"member": k, "diff": sorted(x for x in d if d.get(x) != sd.get(x))}))
        for g in c["gc"]:
            if gcs[g["id"]] != sgcs[g["id"]]:
                probs.append(("grandchild-dict-changed", {"member": k, "gc": g["id"]}))
            # independent of the source object: chromosome coordinates from the spec
            gd = gcs[g["id"]]
            ex = sorted(map(tuple, g["ex"]))
            if c["k"] == "gene":
                co = (list(gd["exon_starts"]), list(gd["exon_ends"]), gd["strand"])
                want = ([s for s, e in ex], [e for s, e in ex], {"+": "PLUS", "-": "MINUS"}[g["st"]])
                if g.get("cds"):
                    cb = sorted(map(tuple, g["cds"]))
                    co += (list(gd["cds_starts"] or []), list(gd["cds_ends"] or []))  # (a CDS that came back as None is a wrong value, not a crash)
                    want += ([s for s, e in cb], [e for s, e in cb])
                else:
                    co += (gd["cds_starts"],)
                    want += (None,)
            elif c["k"] == "fc":
                co = (list(gd["interval_starts"]), list(gd["interval_ends"]), gd["strand"])
                want = ([s for s, e in ex], [e for s, e in ex], {"+": "PLUS", "-": "MINUS"}[g["st"]])
            else:
                co = (gd["start"], gd["end"], gd["sequence"])
                want = (ex[0][0], ex[0][1], g["alt"])
            if co != want:
                probs.append(("coordinates-changed", {"member": k, "gc": g["id"], "got": co, "expected": want}))
        if o.guid != src.child_guid[k]:
            probs.append(("member-guid-changed", k))
        for g in o.iter_children():
            if g.guid != src.gc_guid[gid(g)]:
                probs.append(("grandchild-guid-changed", gid(g)))
        sp = M.child_span(c)
        if (o.start, o.end) != sp:
            probs.append(("member-span", {"member": k, "got": (o.start, o.end), "expected": sp}))
    return probs, got


def compare_sequences(r, got, members, rstate, gfn):
    probs = []
    win = rstate["win"]
    if win is None:
        if r.sequence is not None:
            probs.append(("sequence-from-nowhere", str(r.sequence)[:40]))
        return probs
    want = gfn(win[0], win[1])
    held = rstate.get("held")
    if r.sequence is not None and held is not None and tuple(held) != tuple(win) and str(r.sequence) == gfn(held[0], held[1]):
        pass  # nothing was subset: the result keeps the source's parent (explicit bounds inside a longer sequence)
    elif r.sequence is None or str(r.sequence) != want:
        probs.append(("collection-sequence", {"got": None if r.sequence is None else _clip(str(r.sequence)), "expected": _clip(want), "win": win,
                                              "shape": _shape(None if r.sequence is None else str(r.sequence), want)}))
    oc = lib.outcome(lambda: str(r.get_reference_sequence()))
    if oc[0] != "ok" or oc[1] != want:
        probs.append(("collection-reference-sequence", {"got": _clip(oc[1]), "expected": _clip(want), "win": win, "shape": _shape(oc[1], want)}))
    kept_parent = r.sequence is not None and held is not None and tuple(held) != tuple(win) and str(r.sequence) == gfn(held[0], held[1])
    for c in members:
        o = got.get(c["id"])
        if o is None:
            continue
        want = M.ref_seq(gfn, M.child_span(c), win)
        oc = lib.outcome(lambda: str(o.get_reference_sequence()))
        if kept_parent and oc[0] == "ok" and oc[1] == M.ref_seq(gfn, M.child_span(c), held):
            # nothing was subset and the result kept the source's (longer) sequence: a member that sticks out of the explicit
            # bounds still reads the bases it read in the source ("the same sequence they had in the source")
            want = oc[1]
        if want is None:
            if oc[0] == "ok" and oc[1] != "":
                probs.append(("member-sequence", {"member": c["id"], "got": _clip(oc[1]), "expected": None}))
        elif oc[0] != "ok" or oc[1] != want:
            probs.append(("member-sequence", {"member": c["id"], "got": _clip(oc[1]), "expected": _clip(want), "win": win, "shape": _shape(oc[1], want)}))
        if c["k"] == "vc":
            continue
        byid = {gid(g): g for g in o.iter_children()}
        for g in c["gc"]:
            want = M.spliced(gfn, g, win)
            oc = lib.outcome(lambda: str(byid[g["id"]].get_spliced_sequence()))
            if kept_parent and oc[0] == "ok" and oc[1] == M.spliced(gfn, g, held):
                want = oc[1]
            if want == "":
                if oc[0] == "ok" and oc[1] != "":
                    probs.append(("grandchild-sequence", {"gc": g["id"], "got": _clip(oc[1]), "expected": ""}))
            elif oc[0] != "ok" or oc[1] != want:
                probs.append(("grandchild-sequence", {"gc": g["id"], "got": _clip(oc[1]), "expected": want, "win": win, "shape": _shape(oc[1], want)}))
    return probs


def _shape(got, want):
    """how a wrong sequence relates to the expected one (computed on the full strings)"""
    if not isinstance(got, str) or not isinstance(want, str) or not want:
        return "other"
    if got == want[:-1]:
        return "minus-last"
    if got == want[1:]:
        return "minus-first"
    if len(want) == 1 and got in ("EmptyLocationException", "NullParentException", "NullSequenceException", "ValueError"):
        return "single-base-lost"
    return "other"


def _clip(s):
    return s if not isinstance(s, str) or len(s) <= 60 else s[:25] + f"...({len(s)})..." + s[-25:]


# ---------------------------------------------------------------------------------------------------------------------
# operations
# ---------------------------------------------------------------------------------------------------------------------
def run_op(coll, src, op):
    """execute one symbolic operation on a library collection"""
    q = op["q"]
    if q == "pos":
        s, e, co, cw, ex = op["args"]
        return coll.query_by_position(s, e, co, cw, ex)
    ids = op["ids"]
    if q == "identifiers":
        arg = list(ids)
        if op.get("bare"):
            arg = arg[0]
        return coll.query_by_feature_identifiers(arg)
    if q == "guids":
        arg = [UNKNOWN_GUID if i == "?" else src.child_guid[i] for i in ids]
    else:
        arg = [UNKNOWN_GUID if i == "?" else src.gc_guid[i] for i in ids]
    if op.get("bare"):
        arg = arg[0]
    fn = {
        "guids": coll.query_by_guids,
        "interval_guids": coll.query_by_interval_guids,
        "tx_guids": coll.query_by_transcript_interval_guids,
        "feat_guids": coll.query_by_feature_interval_guids,
    }[q]
    return fn(arg)


def check_pos(res, case, src, st, args, gfn, twin=None, full=True):
    """one position query on src.coll against the model. Returns (library result, model result state) or None."""
    start, end, co, cw, ex = args
    exp = M.expected_position(st, start, end, co, cw, ex)
    res.trans()
    try:
        r = src.coll.query_by_position(start, end, co, cw, ex)
        o = None
    except Exception as e:  # noqa
        r = None
        o = e
    if exp[0] == "reject":
        if r is not None:
            res.deviation("query_by_position", _case(case, args), _brief(r), "InvalidQueryError", sig="pos-invalid-range-accepted")
        elif type(o).__name__ != "InvalidQueryError":
            res.deviation("query_by_position", _case(case, args), f"{type(o).__name__}: {str(o)[:100]}", "InvalidQueryError", sig="pos-reject-" + type(o).__name__,
                          boundless=st["bounds"] is None)
        else:
            res.note("pos", "rejected")
        return None
    if exp[0] == "reject-or-empty":
        if r is not None:
            if all_children(r) and cw:
                res.deviation("query_by_position", _case(case, args), _brief(r), "InvalidQueryError or empty", sig="pos-zero-length-members")
        elif type(o).__name__ != "InvalidQueryError":
            res.deviation("query_by_position", _case(case, args), f"{type(o).__name__}: {str(o)[:100]}", "InvalidQueryError", sig="pos-zero-length-" + type(o).__name__)
        res.note("pos", "zero-length")
        return None
    e = exp[1]
    if r is None:
        has_vc = any(c["k"] == "vc" for c in st["children"])
        res.deviation(
            "query_by_position", _case(case, args), f"{type(o).__name__}: {str(o)[:100]}",
            {"members": [c["id"] for c in e["members"]], "bounds": e["bounds"]},
            sig="pos-raises-" + type(o).__name__, coding_only=bool(co), has_vc=has_vc, has_seq=st["win"] is not None,
            seqless=case["spec"]["parent"] == "seqless", subset=tuple(e["bounds"]) != tuple(st["bounds"]),
            relaxed=not cw, vc_kept=any(c["k"] == "vc" for c in e["members"]), empty_gc=_empty_gc(e["members"], M.inter(st["win"], e["bounds"]) if st["win"] else e["bounds"]),
            vc_cut=_empty_gc(e["members"], M.inter(st["win"], e["bounds"]) if st["win"] else e["bounds"], ("vc",)),
        )
        return None
    rstate = M.result_state(st, [c for c in e["members"]], e["bounds"], cw)
    probs, got = compare_members(r, src, e["members"], e["optional"])
    # optional members that were dropped are not part of the result state
    rstate["children"] = [c for c in e["members"] if c["id"] in got]
    if (r.start, r.end) != tuple(e["bounds"]):
        probs.append(("bounds", {"got": (r.start, r.end), "expected": e["bounds"]}))
    if r.completely_within != cw:
        probs.append(("completely-within-flag", r.completely_within))
    if full and not any(p[0] == "membership" for p in probs):
        probs += compare_sequences(r, got, rstate["children"], rstate, gfn)
    res.note("pos", ("strict" if cw else "relaxed") + ("-coding" if co else "") + ("-expand" if ex else "") + f"-{min(len(got), 3)}members")
    if e["partial"] or e["edge"]:
        res.nontriv(("pos", M.canon_state(st), args))
    for p in probs:
        res.deviation("query_by_position", _case(case, args), p[1], p[0], sig="pos-" + p[0], coding_only=bool(co))
    # independence from the bins shortcut: twin with kent bins (strict queries only use bins)
    if twin is not None and cw:
        res.trans()
        try:
            r2 = twin.query_by_position(start, end, co, cw, ex)
            ids2 = sorted(cid(c) for c in all_children(r2))
        except Exception as e2:  # noqa
            ids2 = type(e2).__name__
        ids1 = sorted(got)
        if ids2 != ids1:
            res.deviation("query_by_position", _case(case, args), {"kent-bin twin": ids2, "library bins": ids1}, "same members", sig="pos-bin-dependence")
        res.note("twin", ("same" if ids2 == ids1 else "different") + ("-prefilter-active" if start and end and M.prefilter_excludes(st, start, end) else ""))
    return r, rstate


def _brief(r):
    return {"members": sorted(cid(c) for c in all_children(r)), "bounds": (getattr(r, "start", None), getattr(r, "end", None))}


def _case(case, args=None, op=None):
    d = {"spec": case["spec"], "path": case["path"]}
    d["op"] = {"q": "pos", "args": list(args)} if args is not None else op
    return d


def check_idq(res, case, src, st, op, gfn):
    """one identifier / guid query"""
    q = op["q"]
    ids = [i for i in op["ids"] if i != "?"]
    if q == "guids":
        members = M.expected_by_child_ids(st, ids)
    elif q == "identifiers":
        members = M.expected_by_identifiers(st, ids)
    else:
        classes = {"interval_guids": ("gene", "fc", "vc"), "tx_guids": ("gene",), "feat_guids": ("fc",)}[q]
        members = M.expected_by_interval_ids(st, ids, classes)
    res.trans()
    try:
        r = run_op(src.coll, src, op)
    except Exception as e:  # noqa
        res.deviation("query_by_" + q, _case(case, op=op), f"{type(e).__name__}: {str(e)[:100]}", {"members": [c["id"] for c in members]},
                      sig=f"{q}-raises-" + type(e).__name__, boundless=st["bounds"] is None, n_expected=len(members),
                      clipped_end=_clipped_end(st, members), win=st["win"], seqless=case["spec"]["parent"] == "seqless")
        return
    probs, got = compare_members(r, src, members, [])
    lo = [M.child_span(c)[0] for c in members]
    hi = [M.child_span(c)[1] for c in members]
    rb = (getattr(r, "start", None), getattr(r, "end", None))
    if members and rb[0] is None and st["bounds"] is None:
        pass  # boundless source (variant collections only), boundless result: self-consistent
    elif members and (rb[0] is None or rb[0] > min(lo) or rb[1] < max(hi)):
        probs.append(("bounds-exclude-member", {"got": rb, "members": (min(lo), max(hi))}))
    if rb[0] is not None and not any(p[0] == "membership" for p in probs):
        rstate = M.result_state(st, members, rb, st["cw"])
        probs += compare_sequences(r, got, members, rstate, gfn)
    res.note(q, f"{min(len(members), 3)}members" + ("-reduced" if any(len(c["gc"]) < len(o["gc"]) for c in members for o in st["children"] if o["id"] == c["id"]) else ""))
    if 0 < len(op["ids"]) and len(members) < len(st["children"]):
        res.nontriv((q, M.canon_state(st), tuple(op["ids"])))
    for p in probs:
        res.deviation("query_by_" + q, _case(case, op=op), p[1], p[0], sig=f"{q}-" + p[0], clipped=_clipped(st, members), clipped_end=_clipped_end(st, members), win=st["win"], kind=p[0])


def _empty_gc(members, win, classes=("gene", "fc")):
    """some kept member of the given classes has a grandchild without a single base inside the window (the documented
    'EmptyLocation isoform' of an intronic or partially overlapping query; for a variant collection: a variant that the
    new bounds cut off)"""
    if win is None:
        return False
    for c in members:
        if c["k"] not in classes:
            continue
        for g in c["gc"]:
            if not any(max(s, win[0]) < min(e, win[1]) for s, e in g["ex"]):
                return True
    return False


def _clipped_end(st, members):
    """some kept member ends beyond the window on which the source holds sequence"""
    w = st["win"]
    return w is not None and any(M.child_span(c)[1] > w[1] for c in members)


def _clipped(st, members):
    """some kept member sticks out of the window on which the source holds sequence"""
    w = st["win"]
    return w is not None and any(M.child_span(c)[0] < w[0] or M.child_span(c)[1] > w[1] for c in members)


def subsets(xs):
    xs = list(xs)
    for n in range(len(xs) + 1):
        for c in itertools.combinations(xs, n):
            yield list(c)


def id_ops_many(st):
    """reduced identifier menu for collections with many members: every single identifier, the unknown one, all of them,
    every other one, the first and last, each also with the unknown one in front"""
    ch = st["children"]
    cids = [c["id"] for c in ch]
    gids = [g["id"] for c in ch for g in c["gc"]]
    idents = sorted({c["id"] for c in ch} | {c["name"] for c in ch if c["name"]})

    def menus(xs, unknown):
        out = [[x] for x in xs] + [[unknown], list(xs), xs[::2], xs[1::2], [xs[0], xs[-1]], [xs[-1], xs[0]]]
        out += [[unknown] + m for m in (list(xs), xs[::2], [xs[len(xs) // 2]])]
        out += [[xs[0], xs[0]], [xs[0], xs[-1], xs[0]]]  # an identifier listed twice names its member once
        return out

    for m in menus(cids, "?"):
        yield {"q": "guids", "ids": m}
    for m in menus(idents, UNKNOWN_IDENT):
        yield {"q": "identifiers", "ids": m}
    for m in menus(gids, "?"):
        for q in ("interval_guids", "tx_guids", "feat_guids"):
            yield {"q": q, "ids": m}


def id_ops(st):
    """all identifier operations for a state: every subset of the identifiers present plus one unknown"""
    ch = st["children"]
    cids = [c["id"] for c in ch]
    for s in subsets(cids + ["?"]):
        yield {"q": "guids", "ids": s}
        if "?" in s and len(s) > 1:
            yield {"q": "guids", "ids": ["?"] + [x for x in s if x != "?"]}  # the unknown one FIRST as well as last
        if len(s) == 1:
            yield {"q": "guids", "ids": s, "bare": True}
        if 1 <= len(s) <= 2 and "?" not in s:
            yield {"q": "guids", "ids": s + s[:1]}  # an identifier listed twice names its member once
    idents = sorted({c["id"] for c in ch} | {c["name"] for c in ch if c["name"]})
    # identifiers are compared exactly: another letter case of an identifier that is present names nothing
    for x in idents[:2]:
        for y in (x.upper(), x.lower(), x.title()):
            if y not in idents:
                yield {"q": "identifiers", "ids": [y]}
                yield {"q": "identifiers", "ids": [y, idents[-1]]}
                break
    for s in subsets(idents + [UNKNOWN_IDENT]):
        yield {"q": "identifiers", "ids": s}
        if len(s) == 1:
            yield {"q": "identifiers", "ids": s, "bare": True}
        if 1 <= len(s) <= 2 and UNKNOWN_IDENT not in s:
            yield {"q": "identifiers", "ids": s + s[:1]}
    gids = [g["id"] for c in ch for g in c["gc"]]
    for s in subsets(gids + ["?"]):
        for q in ("interval_guids", "tx_guids", "feat_guids"):
            yield {"q": q, "ids": s}
            if "?" in s and len(s) > 1:
                yield {"q": q, "ids": ["?"] + [x for x in s if x != "?"]}
                if len(s) > 2:
                    rest = [x for x in s if x != "?"]
                    yield {"q": q, "ids": rest[:1] + ["?"] + rest[1:]}
            if len(s) == 1:
                yield {"q": q, "ids": s, "bare": True}
            if 1 <= len(s) <= 2 and "?" not in s:
                yield {"q": q, "ids": s + s[:1]}


def d2_first_level(st, spec):
    """first-level queries whose results are re-queried (depth 2): ranges built from the cut points
    S in {bs, lo, lo+1, m}, E in {m+1, hi-1, hi, be} (bs,be = bounds; lo,hi = extent of the children; m = middle),
    coding_only False, x {strict, relaxed, relaxed+expand}; quick drops lo and hi from the cut points"""
    if st["bounds"] is None or not st["children"]:
        return set()
    bs, be = st["bounds"]
    sp = [M.child_span(c) for c in st["children"]]
    lo, hi = min(s for s, e in sp), max(e for s, e in sp)
    m = (lo + hi) // 2
    if spec.get("tier") == "thorough":
        Ss, Es = {bs, lo, lo + 1, m}, {m + 1, hi - 1, hi, be}
    else:
        Ss, Es = {bs, lo + 1, m}, {m + 1, hi - 1, be}
    out = set()
    for S in Ss:
        for E in Es:
            if bs <= S < E <= be:
                out.add((S, E, False, True, False))
                out.add((S, E, False, False, False))
                out.add((S, E, False, False, True))
    return out


def pos_menu(st, spec, around=None):
    """every (start,end) in [lo-1,hi+1]^2 plus None, x all 8 flag combinations.
    base collection: lo,hi = the world [off, off+N] (plus, in the 300 kb world, 0, L and the chunk ends);
    successor (around = its bounds): the part of its [bs-1, be+1] that lies in the world, plus bs-1, bs, be, be+1"""
    wlo, whi = spec["off"] - 1, spec["off"] + spec["N"] + 1
    if spec.get("many"):
        # ladder: the ends of the first, a middle and the last members, one base to either side of the first / last, the world ends
        sp = sorted(M.child_span(c) for c in st["children"])
        lad = {None, 0, spec["N"], sp[0][0], sp[0][1], sp[0][1] + 1, sp[len(sp) // 2][0], sp[len(sp) // 2][1], sp[-1][0] - 1, sp[-1][0], sp[-1][1], sp[len(sp) // 3][0] + 1}
        coords = [None] + sorted(c for c in lad if c is not None)
        for s_ in coords:
            for e_ in coords:
                for co in (False, True):
                    for cw in (True, False):
                        for ex in (False, True):
                            yield (s_, e_, co, cw, ex)
        return
    if around is None:
        extra = []
        if spec["L"] > whi:
            extra = [0, spec["L"]]
            if spec["parent"] == "chunk":
                extra += [spec["win"][0], spec["win"][1]]
        cs = set(range(wlo, whi + 1)) | set(extra)
    else:
        bs, be = around
        cs = set(range(max(wlo, bs - 1), min(whi, be + 1) + 1)) | {bs - 1, bs, be, be + 1}
    coords = [None] + sorted(cs)
    for s in coords:
        for e in coords:
            for co in (False, True):
                for cw in (True, False):
                    for ex in (False, True):
                        yield (s, e, co, cw, ex)


# ---------------------------------------------------------------------------------------------------------------------
# exploring one base collection
# ---------------------------------------------------------------------------------------------------------------------
def explore(res, spec):
    gfn = genome_fn(spec["L"])
    bspec = {k: spec[k] for k in ("off", "N", "L", "parent", "win", "children")}
    if spec.get("bounds"):
        bspec["bounds"] = list(spec["bounds"])
    case = {"spec": bspec, "path": []}
    st = M.base_state(bspec)
    o = lib.outcome(W.build_collection, bspec)
    res.trans()
    if o[0] != "ok":
        res.deviation("build", _case(case, op={"q": "build"}), f"{o[1]}: {str(o[2])[:100]}", "collection", sig="build-raises-" + o[1])
        return
    coll = o[1]
    # the kent-bin twin: everywhere in thorough; in quick only where bins differ between intervals (off > 0) - inside
    # W(N) every interval lies in the first 128 kb bin, so the twin is the collection itself
    twin = None
    if spec["off"] > 0 or spec.get("tier") != "quick":
        twin = W.build_collection(bspec)
        set_kent_bins(twin)
    src = Src(coll)
    res.state(("base", spec["fam"], spec["parent"], spec["win"], M.canon_state(st)))
    # the base collection itself: bounds
    have = (getattr(coll, "start", None), getattr(coll, "end", None))
    _adopt_variant_only_bounds(st, have)
    want = st["bounds"] if st["bounds"] else (None, None)
    if have != tuple(want):
        res.deviation("bounds", _case(case, op={"q": "build"}), have, want, sig="base-bounds")
    successors = {}
    d2menu = d2_first_level(st, spec) if spec["d2"] else ()
    for args in pos_menu(st, spec):
        out = check_pos(res, case, src, st, args, gfn, twin)
        if out is not None and args in d2menu:
            r, rstate = out
            key = M.canon_state(rstate)
            if key not in successors:
                successors[key] = (args, r, rstate)
    for op in (id_ops_many(st) if spec.get("many") else id_ops(st)):
        check_idq(res, case, src, st, op, gfn)
    # depth 2 -------------------------------------------------------------------------------------------------------
    for key in successors:
        args, r, rstate = successors[key]
        res.state(("succ", spec["fam"], spec["parent"], spec["win"], key))
        case2 = {"spec": bspec, "path": [{"q": "pos", "args": list(args)}]}
        src2 = Src(r)
        o2 = lib.outcome(twin.query_by_position, *args) if twin is not None else ("none",)
        twin2 = None
        if o2[0] == "ok":
            twin2 = o2[1]
            set_kent_bins(twin2)
        b = rstate["bounds"]
        for a2 in pos_menu(rstate, spec, around=b):
            check_pos(res, case2, src2, rstate, a2, gfn, twin2)
        for op in id_ops(rstate):
            check_idq(res, case2, src2, rstate, op, gfn)


def _adopt_variant_only_bounds(st, have):
    """A parentless collection that holds only variant collections: the documentation gives two readings ('the bounds
    of the child objects' / 'cannot infer a range for an empty collection', where len() ignores variant collections).
    Both are accepted: when the library reports the span of the children, the model adopts it; otherwise boundless."""
    if st["bounds"] is None and st["children"]:
        sp = [M.child_span(c) for c in st["children"]]
        if tuple(have) == (min(s for s, e in sp), max(e for s, e in sp)):
            st["bounds"] = tuple(have)


def run_shard(shard):
    res = ShardResult()
    tier = shard["tier"]
    for idx, spec in enumerate(base_specs(tier)):
        if idx % NSH != shard["i"]:
            continue
        spec["tier"] = tier
        explore(res, spec)
        if idx % 97 == 0:
            res.sample({"family": spec["fam"], "arrangement": spec["arr"], "kinds": spec["kinds"], "parent": spec["parent"], "win": spec["win"], "offset": spec["off"]})
    return res


# ---------------------------------------------------------------------------------------------------------------------
# replay
# ---------------------------------------------------------------------------------------------------------------------
def replay(case):
    res = ShardResult()
    spec = case["spec"]
    spec["children"] = [dict(c) for c in spec["children"]]
    if spec.get("win") is not None:
        spec["win"] = tuple(spec["win"])
    gfn = genome_fn(spec["L"])
    st = M.base_state(spec)
    op = case["op"]
    if op["q"] == "build":
        o = lib.outcome(W.build_collection, spec)
        if o[0] != "ok":
            res.deviation("build", case, f"{o[1]}: {str(o[2])[:100]}", "collection", sig="build-raises-" + o[1])
            return res.deviations
        coll = o[1]
        have = (getattr(coll, "start", None), getattr(coll, "end", None))
        _adopt_variant_only_bounds(st, have)
        want = st["bounds"] if st["bounds"] else (None, None)
        if have != tuple(want):
            res.deviation("bounds", case, have, want, sig="base-bounds")
        return res.deviations
    coll = W.build_collection(spec)
    _adopt_variant_only_bounds(st, (getattr(coll, "start", None), getattr(coll, "end", None)))
    twin = W.build_collection(spec)
    set_kent_bins(twin)
    src = Src(coll)
    path = []
    for step in case["path"]:
        args = tuple(step["args"])
        exp = M.expected_position(st, *args)
        r = coll.query_by_position(*args)
        members = [c for c in exp[1]["members"] if c["id"] in {cid(x) for x in all_children(r)}]
        st = M.result_state(st, members, exp[1]["bounds"], args[3])
        coll = r
        src = Src(coll)
        t2 = lib.outcome(twin.query_by_position, *args)
        twin = t2[1] if t2[0] == "ok" else None
        if twin is not None:
            set_kent_bins(twin)
        path.append(step)
    c = {"spec": spec, "path": path}
    if op["q"] == "pos":
        check_pos(res, c, src, st, tuple(op["args"]), gfn, twin)
    else:
        check_idq(res, c, src, st, op, gfn)
    return res.deviations


# ---------------------------------------------------------------------------------------------------------------------
# matchers for genuine library defects
# ---------------------------------------------------------------------------------------------------------------------
def m_boundless(d):
    """a parentless collection that holds only variant collections has no bounds (len() counts genes and feature
    collections only, start = end = None): an identifier/GUID query that matches a variant collection raises TypeError
    (min(None, int) in _return_collection_for_id_queries) instead of returning the match"""
    ch = d["case"]["spec"]["children"]
    return (
        d["sig"].endswith("-raises-TypeError")
        and d["op"] != "query_by_position"
        and d.get("boundless") is True
        and d.get("n_expected", 0) >= 1
        and len(ch) >= 1
        and all(c["k"] == "vc" for c in ch)
        and d["case"]["spec"]["parent"] in ("none", "seqless")
        and not d["case"]["path"]
        and "not supported between instances of 'int' and 'NoneType'" in str(d["observed"])
    )


def m_seqless_subset(d):
    """position query to a sub-range of a collection whose parent is a sequence-less chromosome Parent raises
    NullSequenceException (_subset_parent extracts sequence unconditionally)"""
    return (
        d["sig"] == "pos-raises-NullSequenceException"
        and d.get("seqless") is True
        and d.get("subset") is True
        and d["case"]["spec"]["parent"] == "seqless"
    )


def m_variant_empty_isoform(d):
    """relaxed position query on a sequence-bearing collection whose result keeps a variant collection while the new
    bounds cut off a whole transcript/feature of a kept member (the documented 'EmptyLocation isoform') or a whole variant
    of the kept variant collection: building the result incorporates the variants into the overlapping members and raises
    EmptyLocationException"""
    return (
        d["sig"] == "pos-raises-EmptyLocationException"
        and d.get("has_seq") is True
        and d.get("relaxed") is True
        and d.get("vc_kept") is True
        and (d.get("empty_gc") is True or d.get("vc_cut") is True)
        and d["case"]["op"]["args"][3] is False
    )


def m_subset_end_clamp(d):
    """identifier/GUID query on a collection that lives on a chunk while a kept member ends beyond the chunk:
    _subset_parent clamps the end to chunk_end - 1, so the result's chunk (and every sequence read through it) loses
    the last base of the source chunk; a 1 bp source chunk becomes empty and the query raises NullSequenceException"""
    if not d["op"].startswith("query_by_") or d["op"] == "query_by_position":
        return False
    if d.get("clipped_end") is not True or not d["case"]["path"]:
        return False
    sig = d["sig"]
    win = d.get("win")
    if sig.endswith("-raises-NullSequenceException"):
        return win is not None and win[1] - win[0] == 1
    ob = d["observed"]
    if not isinstance(ob, dict):
        return False
    shape = ob.get("shape")
    if sig.endswith("-collection-sequence"):
        return shape == "minus-last"
    if sig.endswith("-member-sequence"):
        return shape in ("minus-last", "single-base-lost")
    if sig.endswith("-grandchild-sequence"):
        # the lost base is the last one of a plus-strand splice and the first one of a minus-strand splice
        return shape in ("minus-last", "minus-first", "single-base-lost")
    return False


def m_id_query_beyond_bounds(d):
    """identifier / GUID query on a whole-chromosome collection WITH sequence whose explicit bounds are narrower than a
    requested member: _subset_parent maps the member's end points through the collection's own location and raises"""
    c = d["case"]
    sp = c["spec"]
    if not d["op"].startswith("query_by_") or d["op"] == "query_by_position" or c.get("path"):
        return False
    if not d["sig"].endswith("-raises-InvalidPositionException") or sp.get("parent") != "chrom" or not sp.get("bounds"):
        return False
    ex = d.get("expected")
    if not isinstance(ex, dict) or not ex.get("members"):
        return False
    lo, hi = sp["bounds"]
    spans = [M.child_span(ch) for ch in sp["children"] if ch["id"] in ex["members"]]
    return any(s_ < lo or e_ > hi for s_, e_ in spans)


MATCHERS = {
    "c09_variant_empty_isoform": m_variant_empty_isoform,
    "c09_id_query_beyond_bounds": m_id_query_beyond_bounds,
}
