"""C12 - GenBank export is faithful to an independent reader and to BioCantor's parsers."""
import json

from vlib import lib
from vlib.runner import ShardResult

from checks import c12_world as W
from checks import c12_io as IO

PROPERTY = "C12"
TITLE = "GenBank export is faithful to an independent reader and to BioCantor's parsers"
RULE = (
    "part 'single': EVERY disjoint exon layout (<=3 exons, N=6 quick / N=8 thorough) placed on a designed 40-base genome x "
    "both strands x {ncRNA,tRNA,rRNA,misc_RNA, coding with a menu (quick) / every (thorough) contiguous CDS placement of "
    ">=3 bases x start frame 0..2 having >=1 complete codon}; part 'multi': every ordered choice of 2 and of 3 genes from a "
    "menu of 8 structures in disjoint / same-start / overlapping arrangements with locus tags out of positional order, "
    "plus single genes with a reduced identifier set, on a genome with ambiguity letters, next to feature "
    "collections, and genes WITHOUT a locus tag (symbol+id / symbol only / gene id only / no identifier) alone and mixed "
    "with tagged genes (disjoint and overlapping). Every record x {prokaryotic,eukaryotic} x update_translations x {SORTED,LOCUS_TAG,HYBRID}. "
    "Part 'iso': genes with two or three isoforms (coding / ncRNA / misc_RNA / tRNA; equal and different spans), alone with "
    "and without a locus tag and next to a second gene. Kept order-bearing facts: the listing order of the parsed genes / "
    "feature collections (by position) and the order of the parts of every multi-part location (5'->3' for a reader that "
    "splices in the order given). Non-trivial = >=2 exons or minus strand or non-zero start frame or >=2 genes."
)
ASSUMPTIONS = [
    "independent reader = Bio.SeqIO (GenBank scanner of Biopython 1.88); it upper-cases the sequence, so the sequence is "
    "compared case-insensitively",
    "harness-side compatibility layer vlib/compat (SeqFeature.strand / nofuzzy_start/_end re-added, marshmallow pass_many, "
    "vcf stub) is part of the trusted base",
    "documented feature types: gene; CDS only (prokaryotic coding); mRNA + CDS (eukaryotic coding); the RNA type of the "
    "biotype (non-coding); misc_feature + feat_interval (feature collection)",
    "location parts are matched to the source as SETS of (start,end,strand); in addition the parts must be LISTED so that "
    "a reader that splices them in the order given obtains the 5'->3' sequence (known finding C12-minus-part-order)",
    "translation oracle: reading-frame model (vlib/model/frame.py) spliced by coordinates, table 11 for prokaryotic and "
    "the ATG-only default for eukaryotic flavour (writer documentation); a CDS whose codons contain an ambiguity letter "
    "is documented as 'cannot translate' -> no /translation",
    "a CDS without one complete codon is outside the statement (not generated)",
    "genes with several isoforms are part of the world since round 5 (the statement says 'for every gene, transcript'); what "
    "the parsers lose there is recorded as known findings, not excluded",
    "GenBank carries one symbol (/gene) per gene; transcript symbol == gene symbol in the world; for a gene without a "
    "symbol the writer documents that it substitutes the gene id, so the re-parsed symbol may be None or the id",
    "premise 'position-sorted with unique locus tags' of the mode-agreement clause is decided on the independent reader's "
    "rows: gene-type rows in non-decreasing start order (plain reading; genes that START AT THE SAME POSITION, each followed "
    "by its children, are still position-sorted - known finding C12-sorted-mode-same-start-genes); every gene row carries a "
    "locus tag and no two gene rows share one. Under the premise all three modes must agree with each other and with the source.",
    "outside the premise a mode is compared with the source only where its documented strategy applies: SORTED on "
    "position-sorted files, LOCUS_TAG on files whose gene rows are uniquely tagged, HYBRID on either",
    "a gene without a locus tag of its own is written with the documented fallback (symbol, else gene id) as /locus_tag "
    "on the gene row AND on its child rows; a gene with none of the three identifiers carries no tag on any row; the "
    "re-parsed locus tag is that written tag",
    "leg 2 judges genes only; re-parsed feature collections take part in the mode-agreement comparison",
]

NSH_SINGLE = 64
NSH_MULTI = 16
NSH_ISO = 4


def world_description(tier):
    w = W.SINGLE[tier]
    return (f"single-gene records on every disjoint exon layout N={w['N']} k<={w['k']} (placements: "
            f"{'menu of 4' if tier == 'quick' else 'all'}); {len(W.multi_gene_records(tier))} multi-gene/identifier/genome/"
            f"feature-collection records; {len(W.isoform_records(tier))} records with 2-3 isoforms per gene; x 2 flavours x 2 update_translations x 3 parser modes")


def shards(tier, seed):
    return [{"tier": tier, "part": "single", "i": i} for i in range(NSH_SINGLE)] + [
        {"tier": tier, "part": "multi", "i": i} for i in range(NSH_MULTI)
    ] + [{"tier": tier, "part": "iso", "i": i} for i in range(NSH_ISO)]


# ---------------------------------------------------------------------------------------------------------
def _key(row):
    return json.dumps([row["type"], row["parts"]])


def check_leg1(res, case, rec, flavour, upd, text):
    """returns the independent reader's rows (or None)"""
    genome = W.GENOMES[rec["genome"]]
    o = lib.outcome(IO.read_rows, text)
    res.trans()
    if o[0] != "ok":
        res.deviation("SeqIO.read", case, o[1], "readable GenBank file", sig="reader-fails")
        return None
    seq, name, rows = o[1]
    if seq.upper() != genome.upper():
        res.deviation("SeqIO.read", case, seq, genome, sig="sequence-differs")
    if name != IO.SEQNAME:
        res.deviation("SeqIO.read", case, name, IO.SEQNAME, sig="sequence-name-differs")
    # a multi-part location is listed so that a reader that splices the parts in the order it is given them gets the
    # 5'->3' sequence: ascending on the plus strand, and (read back through `complement(join(...))`) descending on the minus
    for r in rows:
        if len(r["parts"]) > 1 and r.get("listed") is not None:
            st = r["parts"][0][2]
            want = sorted(r["parts"], reverse=(st == -1))
            res.note("part-order", "minus" if st == -1 else "plus")
            if r["listed"] != want:
                res.deviation("collection_to_genbank", case, r["listed"], want, sig="part-order", row_type=r["type"], part_strand=st)
    exp = W.expected_rows(rec, flavour, upd)
    got_keys = sorted(_key(r) for r in rows)
    exp_keys = sorted(_key(r) for r in exp)
    if got_keys != exp_keys:
        gt = sorted(r["type"] for r in rows)
        et = sorted(r["type"] for r in exp)
        if gt != et:
            res.deviation("collection_to_genbank", case, gt, et, sig="feature-types")
        else:
            bad = sorted({json.loads(k)[0] for k in set(got_keys) ^ set(exp_keys)})
            res.deviation("collection_to_genbank", case, [json.loads(k) for k in got_keys], [json.loads(k) for k in exp_keys],
                          sig="location-" + bad[0])
        return rows
    used = set()
    for e in exp:
        hit = None
        for i, r in enumerate(rows):
            if i in used or _key(r) != _key(e):
                continue
            if r["q"].get("locus_tag") == ([e["lt"]] if e["lt"] is not None else None):
                hit = i
                break
        if hit is None:
            # gene row and all of its child rows must carry ONE locus tag: the source tag or its documented fallback
            res.deviation("collection_to_genbank", case, [r["q"].get("locus_tag") for r in rows if _key(r) == _key(e)],
                          e["lt"], sig="qualifier-locus_tag", row_type=e["type"])
            continue
        res.note("locus_tag", "none" if e["lt"] is None else "carried")
        used.add(hit)
        r = rows[hit]
        for k, v in sorted(e["q"].items()):
            if v not in r["q"].get(k, []):
                res.deviation("collection_to_genbank", case, r["q"].get(k), v, sig="qualifier-" + k, row_type=e["type"])
        tr = r["q"].get("translation")
        if e["type"] == "CDS":
            if e["translation"] is None:
                res.note("translation", "absent-not-requested" if not upd else "absent-untranslatable")
                if tr is not None:
                    res.deviation("collection_to_genbank", case, tr, None, sig="translation-unexpected")
            else:
                res.note("translation", "written")
                if tr is None:
                    res.deviation("collection_to_genbank", case, None, e["translation"], sig="translation-missing")
                elif tr != [e["translation"]]:
                    res.deviation("collection_to_genbank", case, tr, e["translation"], sig="translation-wrong", f0=e["f0"])
            cs = r["q"].get("codon_start")
            if cs is not None:
                res.note("codon_start", "written")
                if cs != [str(e["f0"] + 1)]:
                    res.deviation("collection_to_genbank", case, cs, str(e["f0"] + 1), sig="codon_start-wrong", f0=e["f0"])
            else:
                res.note("codon_start", "absent")
        elif tr is not None:
            res.deviation("collection_to_genbank", case, tr, None, sig="translation-on-" + e["type"])
    return rows


def _runs(blocks):
    out = []
    for s, e in sorted(map(tuple, blocks)):
        if out and out[-1][1] == s:
            out[-1][1] = e
        else:
            out.append([s, e])
    return out


def compare_models(res, case, mode, parsed, rec, flavour):
    genome = W.GENOMES[rec["genome"]]
    exp = W.expected_models(rec, flavour)
    op = "parse_genbank:" + mode

    def dev(field, observed, expected, **kw):
        res.deviation(op, case, observed, expected, sig=f"parse-{field}", mode=mode, field=field, **kw)

    if (parsed["sequence"] or "").upper() != genome.upper():
        dev("sequence", parsed["sequence"], genome)
    if parsed.get("fc_starts") is not None and parsed["fc_starts"] != sorted(parsed["fc_starts"]):
        dev("fc-order", parsed["fc_starts"], sorted(parsed["fc_starts"]))
    got = {}
    for g in parsed["genes"]:
        k = g["locus_tag"] or "tx:" + "|".join(sorted(str(t["transcript_id"]) for t in g["transcripts"]))
        got.setdefault(k, []).append(g)
    if sorted(got) != sorted(e["key"] for e in exp) or any(len(v) != 1 for v in got.values()):
        multi = [e for e in exp if len(e["transcripts"]) > 1]
        dev("genes", sorted((k, len(v)) for k, v in got.items()), sorted(e["key"] for e in exp),
            **(dict(n_isoforms=max(len(e["transcripts"]) for e in multi), coding=multi[0]["transcripts"][0]["cds"] is not None) if multi else {}))
        return
    # the returned collection lists its genes by position (the start of their gene rows), whatever their locus tags spell
    by_key = {e["key"]: e["gene_start"] for e in exp}
    listed = [by_key[k] for k in parsed.get("gene_keys", []) if k in by_key]
    if listed != sorted(listed):
        dev("gene-order", [[k, by_key.get(k)] for k in parsed["gene_keys"]], "genes listed by start")
    for e in exp:
        g = got[e["key"]][0]
        if g["locus_tag"] != e["locus_tag"]:
            dev("locus_tag", g["locus_tag"], e["locus_tag"])
        etx = e["transcripts"]
        niso = len(etx)
        if len(g["transcripts"]) != niso:
            dev("transcript-count", len(g["transcripts"]), niso, key=e["key"], n_isoforms=niso, coding=etx[0]["cds"] is not None)
            continue
        if niso == 1:
            pairs = [(g["transcripts"][0], etx[0])]
        else:
            by_id = {t["transcript_id"]: t for t in g["transcripts"]}
            if len(by_id) != niso or sorted(map(str, by_id)) != sorted(x["transcript_id"] for x in etx):
                dev("transcript-ids", sorted(map(str, (t["transcript_id"] for t in g["transcripts"]))), sorted(x["transcript_id"] for x in etx),
                    n_isoforms=niso, coding=etx[0]["cds"] is not None)
                continue
            pairs = [(by_id[x["transcript_id"]], x) for x in etx]
        if g["gene_id"] != e["gene_id"]:
            dev("gene_id", g["gene_id"], e["gene_id"])
        if e["gene_symbol"] is not None:
            if g["gene_symbol"] != e["gene_symbol"]:
                dev("gene_symbol", g["gene_symbol"], e["gene_symbol"])
        elif g["gene_symbol"] not in (None, e["gene_id"]):
            dev("gene_symbol", g["gene_symbol"], [None, e["gene_id"]])
        for t, x in pairs:
            kw = dict(n_isoforms=niso, coding=x["cds"] is not None) if niso > 1 else {}
            if t["strand"] != x["strand"]:
                dev("strand", t["strand"], x["strand"], **kw)
            if t["exons"] != x["exons"]:
                dev("exons", t["exons"], x["exons"], strand=x["strand"], **kw)
            # touching CDS blocks (0-bp intron) may come back merged (the parser intersects the CDS with the transcript
            # span, which normalises): CDS structure is compared as maximal runs, and the frames must describe ONE
            # uninterrupted reading frame that begins with the source start frame over the blocks as they came back
            if (t["cds"] is None) != (x["cds"] is None) or (x["cds"] is not None and _runs(t["cds"]) != _runs(x["cds"])):
                dev("cds", t["cds"], x["cds"], strand=x["strand"], **kw)
            elif x["cds"] is not None:
                if t["cds"] != x["cds"]:
                    res.note("parse", "touching-cds-blocks-merged")
                ef = list(W.frames_for(t["cds"], x["strand"], x["f0"]))
                if t["frames"] != ef:
                    dev("frames", t["frames"], ef, f0=x["f0"], cds=t["cds"], strand=x["strand"], **kw)
            if t["transcript_id"] != x["transcript_id"]:
                dev("transcript_id", t["transcript_id"], x["transcript_id"], **kw)
            if t["protein_id"] != x["protein_id"]:
                dev("protein_id", t["protein_id"], x["protein_id"], **kw)
            if x["transcript_symbol"] is not None:
                if t["transcript_symbol"] != x["transcript_symbol"] and x["transcript_symbol"] not in t["qualifiers"].get("transcript_name", []):
                    dev("transcript_symbol", t["transcript_symbol"], x["transcript_symbol"], **kw)
            if t["biotype"] != x["biotype"] or g["biotype"] != x["biotype"]:
                dev("biotype", [g["biotype"], t["biotype"]], x["biotype"], **kw)


def check_record(res, rec, flavour, upd):
    case = {"rec": rec, "flavour": flavour, "upd": upd}
    o = lib.outcome(IO.export, rec, flavour, upd)
    res.trans()
    kinds = "+".join(sorted({g["kind"] for g in rec["genes"]}))
    if o[0] != "ok":
        res.note("export", "raises")
        res.deviation("collection_to_genbank", case, o[1] + ": " + str(o[2])[:200], "GenBank file", sig="export-raises")
        return
    text = o[1]
    res.note("export", f"{flavour}:{kinds}")
    res.state(("file", text))
    if (len(rec["genes"]) > 1 or any(len(g["exons"]) > 1 or g["strand"] == "-" or g.get("f0") for g in rec["genes"])):
        res.nontriv(("case", json.dumps(case, sort_keys=True)))
    rows = check_leg1(res, case, rec, flavour, upd, text)
    if rows is None:
        return
    # single-strand gene models have no child on an improper strand: nothing is there to force or to skip, so the optional
    # force_strand=False writes the very same file
    o2 = lib.outcome(IO.export, rec, flavour, upd, force_strand=False)
    res.trans()
    if o2[0] != "ok" or o2[1] != text:
        got2 = IO.read_rows(o2[1])[2] if o2[0] == "ok" else o2[1]
        res.deviation("collection_to_genbank", dict(case, force_strand=False), [r["type"] for r in got2] if isinstance(got2, list) else got2,
                      [r["type"] for r in rows], sig="force-strand-false-differs")
    # "position-sorted" is read plainly (non-decreasing starts); `ties` = genes that share a start, each followed by its own
    # children: still position-sorted, but position alone no longer says which child belongs to which gene
    strict_ok = W.rows_position_sorted(rows)
    sorted_ok = W.rows_start_sorted(rows)
    ties = sorted_ok and not strict_ok
    if ties:
        case = dict(case, same_start_genes=True)
    tags_ok = W.gene_tags_unique(rows)
    premise = sorted_ok and tags_ok
    # which strategy is documented to be able to group this file: SORTED needs position order; LOCUS_TAG needs every
    # gene row tagged, uniquely; HYBRID uses the tag where there is one and position for the rest
    can = {"SORTED": sorted_ok, "LOCUS_TAG": tags_ok, "HYBRID": sorted_ok or tags_ok}
    res.note("file", f"sorted={sorted_ok}:unique-tags={tags_ok}")
    results = {}
    for mode in W.MODES:
        p = lib.outcome(IO.parse, text, mode)
        res.trans()
        judged = can[mode]
        res.note("parse", f"{mode}:{'judged' if judged else 'premise-of-mode-fails-not-judged'}:{p[0]}")
        if p[0] != "ok":
            if judged:
                res.deviation("parse_genbank:" + mode, case, p[1] + ": " + str(p[2])[:200], "gene models", sig="parse-raises", mode=mode)
            continue
        res.state(("models", json.dumps(p[1], sort_keys=True)))
        if judged:
            results[mode] = p[1]
            compare_models(res, case, mode, p[1], rec, flavour)
    if premise:
        res.note("modes", "premise-holds")
        base = results.get("LOCUS_TAG")
        for mode in ("SORTED", "HYBRID"):
            if base is not None and mode in results:
                res.trans()
                if results[mode] != base:
                    res.deviation("parse_genbank:modes", case, {mode: results[mode]["genes"], "fcs": results[mode]["fcs"]},
                                  {"LOCUS_TAG": base["genes"], "fcs": base["fcs"]}, sig=f"modes-disagree-{mode}")
    else:
        res.note("modes", "premise-fails")
        if "HYBRID" in results and "LOCUS_TAG" in results:
            res.trans()
            if results["HYBRID"] != results["LOCUS_TAG"]:
                # both judged and file unsorted => every gene row is uniquely tagged: HYBRID has nothing for the sorted strategy
                res.deviation("parse_genbank:modes", case, results["HYBRID"]["genes"], results["LOCUS_TAG"]["genes"], sig="modes-disagree-HYBRID")


def run_shard(shard):
    res = ShardResult()
    tier, part, si = shard["tier"], shard["part"], shard["i"]
    if part == "single":
        for idx, layout in enumerate(W.single_layouts(tier)):
            if idx % NSH_SINGLE != si:
                continue
            for rec in W.single_gene_records(tier, idx, layout):
                for flavour in W.FLAVOURS:
                    for upd in (False, True):
                        check_record(res, rec, flavour, upd)
        res.sample({"rec": {"genome": "A", "genes": [dict(exons=[[3, 5], [6, 9]], strand="-", kind="coding", cds=[1, 5], f0=1, ids=0)],
                            "fcs": []}, "flavour": "EUKARYOTIC", "upd": True}, cap=1)
    elif part == "iso":
        for idx, rec in enumerate(W.isoform_records(tier)):
            if idx % NSH_ISO != si:
                continue
            for flavour in W.FLAVOURS:
                for upd in (False, True):
                    check_record(res, rec, flavour, upd)
    else:
        for idx, rec in enumerate(W.multi_gene_records(tier)):
            if idx % NSH_MULTI != si:
                continue
            for flavour in W.FLAVOURS:
                for upd in (False, True):
                    check_record(res, rec, flavour, upd)
        res.sample({"rec": {"genome": "A", "genes": [W.place(W.MENU[1], 1), W.place(W.MENU[4], 14)], "fcs": []},
                    "flavour": "PROKARYOTIC", "upd": True}, cap=1)
    return res


def replay(case):
    res = ShardResult()
    check_record(res, case["rec"], case["flavour"], case["upd"])
    return res.deviations


# no known finding: the missing /codon_start (DESIGN appendix B19) was repaired in /repo, a recurrence is a VIOLATION
def _m_minus_part_order(d):
    """a minus-strand location of two or more blocks is handed to Biopython with its parts in ascending order, so the file
    says complement(join(<last exon>,<first exon>)): an order-trusting reader splices the exons 3'->5' (pinned by the
    bundled test test_compound_interval.py::test_biopython[location1-expected_output1])"""
    if d["sig"] != "part-order" or d.get("part_strand") != -1:
        return False
    # wrong-answer shape: exactly the ascending listing of the very same parts
    return d["observed"] == sorted(d["observed"]) and sorted(d["observed"], reverse=True) == d["expected"]


def _m_sorted_same_start(d):
    """SORTED mode on a file in which two genes START AT THE SAME POSITION (each followed by its own children): the parser
    re-sorts the rows by (start, type), which puts both `gene` rows first and hands every child to the second gene; the
    locus-tag and hybrid modes read the same file correctly"""
    if not d["case"].get("same_start_genes"):
        return False
    if d["sig"] == "modes-disagree-SORTED":
        return True
    return d.get("mode") == "SORTED" and d["sig"].startswith("parse-") and d["sig"] not in ("parse-raises", "parse-sequence", "parse-fc-order")


def _m_euk_coding_isoforms(d):
    """eukaryotic flavour, a gene with two or more CODING isoforms: every parser mode keeps the first mRNA feature only
    ("Extra transcripts will be skipped") and pairs it with each CDS, so every isoform comes back with the first one's
    identifier and exons"""
    if d["case"].get("flavour") != "EUKARYOTIC" or d["sig"] != "parse-transcript-ids" or not d.get("coding") or d.get("n_isoforms", 0) < 2:
        return False
    return len(set(d["observed"])) == 1 and d["observed"][0] == d["expected"][0] and len(d["observed"]) == len(d["expected"])


def _m_sorted_nc_isoforms(d):
    """SORTED mode, a NON-coding gene with two or more transcripts: grouping by position starts a new gene at every
    non-coding transcript row, so the gene comes back as one gene per isoform, all with the same locus tag"""
    nc_iso = [g for g in d["case"]["rec"]["genes"] if g.get("iso") and g["kind"] != "coding"]
    if not nc_iso:
        return False
    if d["sig"] == "modes-disagree-SORTED":
        return True
    if d.get("mode") != "SORTED" or d["sig"] != "parse-genes" or d.get("coding") is not False:
        return False
    counts = sorted(n for _, n in d["observed"])
    return counts == sorted([1] * (len(d["expected"]) - len(nc_iso)) + [1 + len(g["iso"]) for g in nc_iso])


MATCHERS = {"c12_minus_part_order": _m_minus_part_order, "c12_sorted_same_start": _m_sorted_same_start,
            "c12_euk_coding_isoforms": _m_euk_coding_isoforms, "c12_sorted_nc_isoforms": _m_sorted_nc_isoforms}
