"""C09 reference model: what a collection query must return, computed by set comprehension over child spans.

Pure Python over the JSON-able specs of c09_world; imports nothing from the library.

A model state is
    {"children": [child spec, ...], "bounds": (bs, be) | None, "win": (a, b) | None, "cw": flag | None, "L": int}
`bounds` are the collection's own bounds (None = boundless), `win` is the chromosome window on which the collection
holds sequence (None = no sequence).
"""
from vlib.model import frame as F

OFFS = (4681, 585, 73, 9, 1)
MAXC = 2**29


def kent(start, end):
    """UCSC binFromRangeExtended (standard scheme): smallest bin containing the half-open interval [start,end)"""
    if start < 0 or end < 0 or start >= MAXC or end > MAXC:
        return 1
    sb = start >> 17
    eb = max(end - 1, start) >> 17
    for off in OFFS:
        if sb == eb:
            return off + sb
        sb >>= 3
        eb >>= 3
    return 1


def kent_overlapping(start, end):
    """all standard bins that overlap [start,end)"""
    out = set()
    if start < 0 or end < 0 or start >= MAXC or end > MAXC:
        return {1}
    sb = start >> 17
    eb = max(end - 1, start) >> 17
    for off in OFFS:
        out.update(range(off + sb, off + eb + 1))
        sb >>= 3
        eb >>= 3
    return out


def prefilter_excludes(st, S, E):
    """would a bin pre-filter (kent bins of the grandchildren vs the bins overlapping the query) exclude some child?
    (vacuity guard only: shows that the shortcut is exercised non-trivially)"""
    qb = kent_overlapping(S, E)
    for c in st["children"]:
        if not any(kent(*gc_span(g)) in qb for g in c["gc"]):
            return True
    return False


def child_span(child):
    return (min(b[0] for g in child["gc"] for b in g["ex"]), max(b[1] for g in child["gc"] for b in g["ex"]))


def gc_span(g):
    return (min(b[0] for b in g["ex"]), max(b[1] for b in g["ex"]))


def child_coding(child):
    return child["k"] == "gene" and any(g.get("cds") for g in child["gc"])


def base_state(spec):
    ch = spec["children"]
    pk = spec["parent"]
    if spec.get("bounds"):
        bounds = tuple(spec["bounds"])
        win = (0, spec["L"]) if pk == "chrom" else tuple(spec["win"]) if pk == "chunk" else None
    elif pk == "chrom":
        bounds = win = (0, spec["L"])
    elif pk == "chunk":
        bounds = win = tuple(spec["win"])
    else:
        win = None
        # documented: bounds of the child objects; "cannot infer a range for an empty collection" and len() counts
        # genes and feature collections only
        if any(c["k"] != "vc" for c in ch):
            sp = [child_span(c) for c in ch]
            bounds = (min(s for s, e in sp), max(e for s, e in sp))
        else:
            bounds = None
    return {"children": ch, "bounds": bounds, "win": win, "cw": None, "L": spec["L"]}


def inter(w, b):
    if w is None or b is None:
        return None
    a, c = max(w[0], b[0]), min(w[1], b[1])
    return (a, c) if a < c else None


def expected_position(st, start, end, coding_only, completely_within, expand):
    """-> ("reject",) | ("reject-or-empty",) | ("ok", result description)"""
    if st["bounds"] is None:
        return ("reject",)
    bs, be = st["bounds"]
    S = bs if start is None else start
    E = be if end is None else end
    if S < 0 or S > E or S < bs or E > be:
        return ("reject",)
    if S == E:
        return ("reject-or-empty",)
    if completely_within:
        hit = [c for c in st["children"] if child_span(c)[0] >= S and child_span(c)[1] <= E]
    else:
        hit = [c for c in st["children"] if child_span(c)[0] < E and child_span(c)[1] > S]
    optional = []
    if coding_only:
        # a variant collection is neither coding nor non-coding by any documentation: accepted kept or dropped
        optional = [c["id"] for c in hit if c["k"] == "vc"]
        hit = [c for c in hit if child_coding(c) or c["k"] == "vc"]
    nS, nE = S, E
    if expand and not completely_within:
        for c in hit:
            if c["k"] == "vc":
                continue
            s, e = child_span(c)
            nS, nE = min(nS, s), max(nE, e)
    if st["win"] is not None and (nS < bs or nE > be):
        # documented: expanded range exceeds the associated sequence chunk
        return ("reject",)
    return (
        "ok",
        {"members": hit, "optional": optional, "bounds": (nS, nE), "cw": completely_within, "partial": any(
            not (child_span(c)[0] >= S and child_span(c)[1] <= E) and child_span(c)[0] < E and child_span(c)[1] > S for c in st["children"]
        ), "edge": any(child_span(c)[0] in (S, E) or child_span(c)[1] in (S, E) for c in st["children"])},
    )


def result_state(st, members, bounds, cw):
    """`held`: when the result has the bounds of the source nothing is subset and the result may keep the source's parent
    unchanged (its sequence object then covers the source's whole window, e.g. the whole chromosome for a collection with
    explicit bounds inside it); members inside the bounds read the same bases either way"""
    out = {"children": members, "bounds": tuple(bounds), "win": inter(st["win"], bounds), "cw": cw, "L": st["L"]}
    if st["bounds"] is not None and tuple(bounds) == tuple(st["bounds"]):
        out["held"] = st["win"]
    return out


def expected_by_child_ids(st, ids):
    return [c for c in st["children"] if c["id"] in ids]


def expected_by_identifiers(st, idents):
    out = []
    for c in st["children"]:
        mine = {c["id"]} | ({c["name"]} if c["name"] is not None else set())
        if mine & set(idents):
            out.append(c)
    return out


def expected_by_interval_ids(st, ids, classes):
    """children of the given classes reduced to the requested grandchildren; children with none are dropped"""
    out = []
    for c in st["children"]:
        if c["k"] not in classes:
            continue
        keep = [g for g in c["gc"] if g["id"] in ids]
        if keep:
            d = dict(c)
            d["gc"] = keep
            out.append(d)
    return out


def canon_state(st):
    return (
        tuple((c["k"], c["id"], tuple((g["id"], tuple(map(tuple, g["ex"]))) for g in c["gc"])) for c in st["children"]),
        st["bounds"],
        st["win"],
        st["cw"],
    )


# ---- sequences --------------------------------------------------------------------------------------------------------
def ref_seq(genome_fn, span, win):
    """plus-strand reference sequence of a member restricted to the sequence window; None = nothing inside"""
    w = inter(win, span)
    if w is None:
        return None
    return genome_fn(w[0], w[1])


def spliced(genome_fn, g, win):
    """spliced sequence 5'->3' of the grandchild's blocks restricted to the window (complemented on minus)"""
    strand = g.get("st", "+")
    pos = [p for s, e in sorted(map(tuple, g["ex"])) for p in range(s, e) if win[0] <= p < win[1]]
    if strand == "-":
        pos = pos[::-1]
    return "".join(F.COMP[genome_fn(p, p + 1)] if strand == "-" else genome_fn(p, p + 1) for p in pos)
