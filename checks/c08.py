"""C08 - Serialised forms round-trip; identifiers are deterministic functions of content.

Part 1 (E1): every object of a generated corpus is pushed through EVERY chain of length <= 3 over the serialisation
             transitions {dict, model, json, pickle} (+ dictp for AnnotationCollection); oracle: successor == origin.
Part 2 (E3): identifiers / digest_object values / dictionary texts of the whole corpus are recomputed in sub-processes
             under every PYTHONHASHSEED of the tier and under ALL permutations of qualifier insertion order.
Part 3     : every single-field edit (exon/block/CDS bound +-1, strand flip, frame change) changes the guid.
"""
import json
import os
import re
import shutil
import subprocess
import tempfile

from vlib import bootstrap, lib
from vlib.runner import ShardResult

from checks import c08_world as W

PROPERTY = "C08"
TITLE = "Serialised forms round-trip; identifiers are deterministic functions of content"
RULE = (
    "corpus = union of fully enumerated families: (geom) every disjoint exon/block layout x strand x CDS placement x "
    "start frame for TranscriptInterval/FeatureInterval/CDSInterval (all frame vectors)/VariantInterval in a plain and a "
    "rich context; (ctx) a pool of geometries x every parent kind {none, chromosome with/without sequence, chunk windows} "
    "x metadata profiles x qualifier profiles (int/bool/float/empty values) for the four interval classes, genes of 1-3 "
    "transcripts, feature collections, variant collections and AnnotationCollections (gene/feature/variant sets x bounds x "
    "completely_within). Every object x every chain of <=3 transitions (quick tier: <=3 on a sub-family of every class - the rich "
    "metadata/qualifier profile - and <=2 (single hops for parent-less geometry copies and collections with explicit bounds) elsewhere; the bound is the key 'd' of the spec); every object x every hash seed; every "
    "permutation of qualifier key/value insertion order; every single-field edit. Non-trivial = chain of length >=2 on an "
    "object with qualifiers, a parent or children."
)
ASSUMPTIONS = [
    "harness-side compatibility layer (marshmallow 4 post_dump shim) is part of the trusted base of the model/json transitions",
    "to_dict()/from_dict() of a non-collection interval does not carry the parent: the harness hands the parent the origin was "
    "built with to from_dict / Model.to_<object> (AnnotationCollection exports and re-imports its own parent, transition "
    "'dict'; 'dictp' is the explicit-parent variant)",
    "a bare CDSInterval has no data model: only the dict and pickle transitions apply to it",
    "origins whose construction the library refuses (e.g. a collection on a chunk that does not overlap it) are outside C08 (C19)",
    "sensitivity is demanded only between two objects the library accepts, and not for objects built with an explicit guid argument",
    "the dictionary form counts as a serialised form: besides guids and digest_object values, the text json.dumps(to_dict()) must "
    "not depend on the hash seed (this is what makes an unsorted qualifier export visible)",
    "schema 'dump' is applied to the data-model instance (Schema().load(to_dict())); dumping a LIVE AnnotationCollection through "
    "the schema (tests/io/test_models.py::test_dump_annotation_collection) is an extra leg reported under its own signature",
]

NSH = {"quick": 16, "thorough": 32}  # every shard starts one sub-process per hash seed (~0.9 core-s each)
SEEDS = {"quick": [0, 1, 2, 3], "thorough": [0, 1, 2, 3, 7, 42, 1000, 4294967295]}
MAX_DEPTH = 3
LIVE_DUMP_LEG = False  # dumping a LIVE AnnotationCollection (not a model instance) through the schema is outside the statement ("data-model load/dump")
PY = "/venv/bin/python"
SUB = os.path.join(os.path.dirname(os.path.abspath(__file__)), "c08_sub.py")


def world_description(tier):
    n = len(W.corpus(tier))
    pi = W.perm_items(tier)
    return (
        f"{n} objects (geom N={W.TIERS[tier]['Ng']} k<={W.TIERS[tier]['kg']}, ctx N={W.TIERS[tier]['Nc']}) x all chains of <= {MAX_DEPTH} "
        f"transitions ({sum(1 for x in W.corpus(tier) if x.get('d', MAX_DEPTH) < MAX_DEPTH)} of them: chains of <= 2 or single hops); hash seeds {SEEDS[tier]}; {len(pi)} permutation bases / {sum(W.n_perms(x['q']) for x in pi)} qualifier orders "
        f"per seed; all single-field edits of the objects without / with whole-chromosome parent"
    )


def shards(tier, seed):
    return [{"tier": tier, "i": i, "n": NSH[tier]} for i in range(NSH[tier])]


def pkind(spec):
    p = spec.get("p", "none")
    return p if isinstance(p, str) else "chunk"  # plus- and minus-strand chunks ("chunk" / "chunkm")


# ---------------------------------------------------------------------------------------------------------------------
# Part 1: round-trip chains
# ---------------------------------------------------------------------------------------------------------------------
def _compare(origin, oc, succ):
    """list of problems (empty = successor indistinguishable from origin)"""
    sc = W.canon(succ)
    probs = {}
    if sc != oc:
        probs["diff"] = W.diff(oc, sc)
    e1 = W._o(lambda: origin == succ)
    e2 = W._o(lambda: succ == origin)
    if e1 is not True or e2 is not True:
        probs["eq"] = [e1, e2]
    h = W._o(lambda: hash(origin) == hash(succ))
    if h is not True:
        probs["hash_eq"] = h
    return probs, sc


def _first_key(probs):
    if probs.get("diff"):
        d = probs["diff"][0]
        return "diff:" + (d[0].split("/") + [""])[1] + ":" + d[0].rsplit("/", 1)[-1].rstrip("0123456789") + f"@{d[3]}"
    return sorted(probs)[0]


def check_roundtrips(res, spec, only_chain=None):
    c = spec["c"]
    o = lib.outcome(W.build, spec)
    if o[0] == "exc":
        res.note("build", f"{c}:refused:{o[1]}")
        return
    origin = o[1]
    parent = W.mk_parent(spec.get("p", "none"), spec["N"])
    oc = W.canon(origin)
    res.state(json.dumps(oc, sort_keys=True))
    res.note("build", f"{c}:{pkind(spec)}")
    rich = bool(spec.get("q")) or pkind(spec) != "none" or c in ("gene", "fc", "vc", "ac")

    def step(obj, chain):
        depth = len(chain)
        for t in W.transitions_for(c):
            if only_chain is not None and (depth >= len(only_chain) or only_chain[depth] != t):
                continue
            ch = chain + [t]
            r = lib.outcome(W.apply_transition, t, c, obj, parent)
            res.trans()
            case = {"part": "rt", "spec": spec, "chain": ch}
            if r[0] == "exc":
                msg = str(r[2])[:240]
                res.note("rt", f"{c}:{t}:raises:{r[1]}")
                extra = {}
                if t == "pickle" and depth == 0:  # triage aid: does a never-used twin pickle?
                    extra["fresh_ok"] = lib.outcome(lambda: W.apply_transition("pickle", c, W.build(spec), parent))[0] == "ok"
                res.deviation("roundtrip", case, {"exc": r[1], "msg": msg}, "successor equal to origin", sig=f"rt:{c}:{t}:raises:{r[1]}",
                              cls=c, step=t, depth=depth + 1, pk=pkind(spec), **extra)
                continue
            succ = r[1]
            probs, sc = _compare(origin, oc, succ)
            if probs:
                res.note("rt", f"{c}:{t}:differs")
                res.deviation("roundtrip", case, probs, "successor equal to origin", sig=f"rt:{c}:{t}:{_first_key(probs)}",
                              cls=c, step=t, depth=depth + 1, pk=pkind(spec))
                continue  # a successor that already differs is not explored further
            res.note("rt", f"{c}:{t}:equal")
            if rich and depth + 1 >= 2:
                res.nontriv((json.dumps(spec, sort_keys=True), tuple(ch)))
            if depth + 1 < spec.get("d", MAX_DEPTH):
                step(succ, ch)

    step(origin, [])
    for t in W.extra_legs(c):
        if t == "livedump" and not LIVE_DUMP_LEG:
            continue
        if only_chain is not None and only_chain != [t]:
            continue
        r = lib.outcome(W.apply_transition, t, c, origin, parent)
        res.trans()
        case = {"part": "rt", "spec": spec, "chain": [t]}
        kw = dict(cls=c, step=t, depth=1, pk=pkind(spec), n_children=len(W.children_specs(spec)))
        if r[0] == "exc" and t == "dictcr" and lib.is_documented_exc(r[2]):
            res.note("rt", f"{c}:{t}:refused")  # the library documents that it refuses to mix chunk-relative intervals with an exported parent
            continue
        if r[0] == "exc":
            res.note("rt", f"{c}:{t}:raises:{r[1]}")
            res.deviation("roundtrip", case, {"exc": r[1], "msg": str(r[2])[:240]}, "successor equal to origin",
                          sig=f"rt:{c}:{t}:raises:{r[1]}", **kw)
            continue
        probs, _ = _compare(origin, oc, r[1])
        if probs:
            res.note("rt", f"{c}:{t}:differs")
            res.deviation("roundtrip", case, probs, "successor equal to origin", sig=f"rt:{c}:{t}:{_first_key(probs)}", **kw)
        else:
            res.note("rt", f"{c}:{t}:equal")


    # "identifiers and serialised forms are functions of content": a twin built from the same spec that has been EXPORTED
    # (GFF3 rows, qualifier export, BED) before it is serialised must still be indistinguishable from the untouched origin
    if only_chain is None or only_chain == ["exported"]:
        o2 = lib.outcome(W.build, spec)
        if o2[0] == "ok":
            twin = o2[1]
            for name in ("to_gff", "export_qualifiers", "to_bed12", "to_gff", "export_qualifiers"):
                fn = getattr(twin, name, None)
                if fn is not None:
                    lib.outcome(lambda: list(fn()) if name == "to_gff" else fn())
            res.trans()
            case = {"part": "rt", "spec": spec, "chain": ["exported"]}
            probs, _ = _compare(origin, oc, twin)
            if probs:
                res.note("rt", f"{c}:exported:differs")
                res.deviation("roundtrip", case, probs, "exported twin equal to origin", sig=f"rt:{c}:exported:{_first_key(probs)}",
                              cls=c, step="exported", depth=1, pk=pkind(spec))
            else:
                res.note("rt", f"{c}:exported:equal")


    # a dictionary export is a value: a caller who edits the TOP LEVEL of one export (re-assigns / drops keys) does not
    # change what the next export of the same object says, nor the object it re-imports to
    if only_chain is None or only_chain == ["edited-export"]:
        o3 = lib.outcome(W.build, spec)
        if o3[0] == "ok" and hasattr(o3[1], "to_dict"):
            twin = o3[1]
            is_ac = c == "ac"
            exp = (lambda: twin.to_dict(export_parent=True)) if is_ac else twin.to_dict
            d1 = lib.outcome(exp)
            if d1[0] == "ok" and isinstance(d1[1], dict):
                for k_ in list(d1[1]):
                    d1[1][k_] = "edited by the caller"
                d1[1].clear()
                lib.outcome(exp)
                res.trans()
                case = {"part": "rt", "spec": spec, "chain": ["edited-export"]}
                probs, _ = _compare(origin, oc, twin)
                if probs:
                    res.note("rt", f"{c}:edited-export:differs")
                    res.deviation("roundtrip", case, probs, "twin whose first export was edited by the caller equal to origin", sig=f"rt:{c}:edited-export:{_first_key(probs)}",
                                  cls=c, step="edited-export", depth=1, pk=pkind(spec))
                else:
                    res.note("rt", f"{c}:edited-export:equal")


# ---------------------------------------------------------------------------------------------------------------------
# Part 3: sensitivity of identifiers
# ---------------------------------------------------------------------------------------------------------------------
def _strip_explicit(spec):
    """edits are only meaningful below nodes whose guid is computed: drop nothing, but tell which paths are frozen"""
    return W.has_explicit_guid(spec)


def _frozen_path(spec, name):
    """True iff the edit `name` happens at or below a node that was given an explicit guid"""
    node = spec
    if W.has_explicit_guid(node):
        return True
    for part in name.split(".")[:-1]:
        key = part.rstrip("0123456789")
        idx = int(part[len(key):])
        node = node[key][idx]
        if W.has_explicit_guid(node):
            return True
    return False


def check_sensitivity(res, spec, only_edit=None):
    if pkind(spec) not in ("none", "chrom"):
        return
    o = lib.outcome(W.build, spec)
    if o[0] == "exc":
        return
    g0 = str(o[1].guid)
    for name, espec in W.edits(spec):
        if only_edit is not None and name != only_edit:
            continue
        if _frozen_path(spec, name):
            res.note("edit", "explicit-guid-skipped")
            continue
        e = lib.outcome(W.build, espec)
        res.trans()
        if e[0] == "exc":
            res.note("edit", f"{spec['c']}:refused:{e[1]}")
            continue
        g1 = str(e[1].guid)
        kind = name.split(".")[-1].split("-")[0].rstrip("0123456789=")
        if g1 == g0:
            res.deviation("sensitivity", {"part": "edit", "spec": spec, "edit": name}, {"guid": g1, "edited_guid": g1},
                          "a different guid", sig=f"sens:{spec['c']}:{kind}", cls=spec["c"], edit=name)
        else:
            res.note("edit", f"{spec['c']}:{kind}:changed")
            res.nontriv(("edit", g0, name))


# ---------------------------------------------------------------------------------------------------------------------
# Part 2: configuration sweep in sub-processes
# ---------------------------------------------------------------------------------------------------------------------
class Sweep:
    """one sub-process per hash seed, started in the background; results collected later"""

    def __init__(self, seeds, request):
        self.tmp = tempfile.mkdtemp(prefix="c08_")
        self.procs = []
        inp = os.path.join(self.tmp, "in.json")
        with open(inp, "w") as fh:
            json.dump(request, fh)
        for s in seeds:
            env = dict(os.environ)
            env["PYTHONHASHSEED"] = str(s)
            env["PYTHONDONTWRITEBYTECODE"] = "1"
            env["VERIF_REPO"] = bootstrap.repo_path()
            env.pop("VERIF_PYCACHE", None)
            env.pop("VERIF_PYCACHE_OWNER", None)
            fo = open(os.path.join(self.tmp, f"out{s}.json"), "w")
            fe = open(os.path.join(self.tmp, f"err{s}.txt"), "w")
            fi = open(inp)
            p = subprocess.Popen([PY, "-B", SUB], stdin=fi, stdout=fo, stderr=fe, env=env, cwd=bootstrap.VERIF_ROOT)
            self.procs.append((s, p, fi, fo, fe))

    def collect(self):
        out = {}
        try:
            for s, p, fi, fo, fe in self.procs:
                rc = p.wait(timeout=3000)
                for f in (fi, fo, fe):
                    f.close()
                if rc != 0:
                    with open(os.path.join(self.tmp, f"err{s}.txt")) as fh:
                        raise RuntimeError(f"C08 sub-process for PYTHONHASHSEED={s} failed rc={rc}:\n{fh.read()[-2000:]}")
                with open(os.path.join(self.tmp, f"out{s}.json")) as fh:
                    out[s] = json.load(fh)
                if str(out[s]["seed"]) != str(s):
                    raise RuntimeError(f"sub-process reports seed {out[s]['seed']} instead of {s}")
        finally:
            self.close()
        return out

    def close(self):
        for s, p, fi, fo, fe in self.procs:
            if p.poll() is None:
                p.kill()
                p.wait()
            for f in (fi, fo, fe):
                try:
                    f.close()
                except Exception:  # noqa
                    pass
        shutil.rmtree(self.tmp, ignore_errors=True)


def _rec_field_diff(a, b):
    for k in ("refused", "guids", "qdigest", "dict"):
        if a.get(k) != b.get(k):
            return k
    return "other"


def compare_sweep(res, specs, perms, base_recs, base_perms, base_menu, results, me):
    probes = {}
    for s in sorted(results):
        r = results[s]
        probes[s] = r["hash_probe"]
        if len(r["recs"]) != len(specs) or len(r["perms"]) != len(perms):
            raise RuntimeError(f"C08 sub-process for seed {s} answered {len(r['recs'])}/{len(r['perms'])} records for {len(specs)}/{len(perms)} requests")
        for spec, b, x in zip(specs, base_recs, r["recs"]):
            res.trans()
            if x != b:
                f = _rec_field_diff(b, x)
                res.deviation("hash-seed", {"part": "seed", "spec": spec, "seed": s}, x, b, sig=f"seed:{spec['c']}:{f}", cls=spec["c"], field=f)
            else:
                res.note("seed", f"{spec['c']}:same")
        if base_menu is not None:
            for i, (b, x) in enumerate(zip(base_menu, r["menu"])):
                res.trans()
                if b != x:
                    res.deviation("hash-seed", {"part": "menu", "entry": i, "seed": s}, x, b, sig=f"seed:digest_object:{b[0]}")
                else:
                    res.note("seed", "digest_object:same")
    # the str-hash must really differ between the configurations (vacuity guard of the axis)
    mine = hash("c08-probe") & 0xFFFF
    for s_, pr in probes.items():
        if (str(s_) == str(me)) != (pr == mine) or len(set(probes.values())) < len(probes):
            raise RuntimeError(f"C08: PYTHONHASHSEED axis is not effective in the sub-processes: {probes} (in-process seed {me}: {mine})")
        res.note("axis", f"str-hash-of-seed-{s_}-{'equals' if pr == mine else 'differs-from'}-in-process")
    allp = [(None, base_perms)] + [(s, results[s]["perms"]) for s in sorted(results)]
    for k, item in enumerate(perms):
        ref = base_perms[k]["distinct"][0][0] if base_perms[k]["distinct"] else None
        for s, pr in allp:
            rec = pr[k]
            res.trans(rec["count"])
            if len(rec["distinct"]) != 1 or rec["distinct"][0][0] != ref or rec["distinct"][0][0].startswith("EXC"):
                others = [d for d in rec["distinct"] if d[0] != ref] or rec["distinct"]
                case = {"part": "perm", "spec": item["spec"], "qa": item["spec"]["q"], "qb": others[0][1], "seed": s}
                res.deviation("qualifier-order", case, [d[0][:200] for d in rec["distinct"][:3]], ref, sig=f"perm:{item['spec']['c']}:{item['spec'].get('qn')}",
                              cls=item["spec"]["c"], n_distinct=len(rec["distinct"]))
            else:
                res.note("perm", f"{item['spec']['c']}:one-identifier")
                res.nontriv(("perm", k, s, item["mod"][0]))


# ---------------------------------------------------------------------------------------------------------------------
SWEEP_SLICES = {"quick": 1, "thorough": 4}


def sweep_units(tier, i, n):
    """the configuration sweep is cut into units (hash seed, slice k of K of the corpus and of the permutation world);
    unit u is run by shard u mod n, one sub-process per unit (quick: 4 units = 4 seeds x the whole corpus)"""
    K = SWEEP_SLICES[tier]
    units = [(seed, k) for seed in SEEDS[tier] for k in range(K)]
    mine = {}
    for u, (seed, k) in enumerate(units):
        if u % n == i:
            mine.setdefault(k, []).append(seed)
    return K, mine


# ---------------------------------------------------------------------------------------------------------------------
# Part 3b: content twins - two objects of one class that differ in content must not share an identifier.  The family is
# finite and written out: neighbouring scalar fields whose texts can be split differently ("ab"+"c" / "a"+"bc",
# 1|234 / 12|34), None against the text "None", a value moved from one field to its neighbour
# ---------------------------------------------------------------------------------------------------------------------
def content_twins():
    from inscripta.biocantor.gene.variants import VariantInterval
    from inscripta.biocantor.gene.feature import FeatureInterval
    from inscripta.biocantor.gene.transcript import TranscriptInterval
    from inscripta.biocantor.gene.gene import GeneInterval
    from inscripta.biocantor.location.strand import Strand

    P = Strand.PLUS
    tw = []

    def add(name, mk, fa, fb):
        tw.append((name, mk, fa, fb))

    for (s1, e1), (s2, e2) in (((1, 234), (12, 34)), ((1, 23), (12, 3 + 10)), ((2, 345), (23, 45)), ((10, 112), (101, 12 + 100))):
        add(f"variant-start-end:{s1},{e1}/{s2},{e2}", lambda s, e: VariantInterval(s, e, "A", "SNV"), (s1, e1), (s2, e2))
    for fa, fb in ((("AC", "GT"), ("A", "CGT")), (("A", "CSNV"), ("AC", "SNV"))):
        add(f"variant-alt-type:{fa}/{fb}", lambda a, t: VariantInterval(3, 4, a, t), fa, fb)
    for fa, fb in ((("ab", "c"), ("a", "bc")), (("x", None), ("xNone", None)), ((None, "x"), ("None", "x")), (("n1", "2"), ("n", "12"))):
        add(f"feature-name-id:{fa}/{fb}", lambda nm, fid: FeatureInterval([1], [5], P, feature_name=nm, feature_id=fid), fa, fb)
        add(f"transcript-id-symbol:{fa}/{fb}", lambda tid, sym: TranscriptInterval([1], [5], P, transcript_id=tid, transcript_symbol=sym), fa, fb)
        add(f"gene-id-symbol:{fa}/{fb}", lambda gid, sym: GeneInterval([TranscriptInterval([1], [5], P)], gene_id=gid, gene_symbol=sym), fa, fb)
    return tw


def check_twins(res, only=None):
    for name, mk, fa, fb in content_twins():
        if only is not None and name != only:
            continue
        oa, ob = lib.outcome(mk, *fa), lib.outcome(mk, *fb)
        res.trans()
        res.state(("twin", name))
        res.nontriv(("twin", name))
        if oa[0] != "ok" or ob[0] != "ok":
            res.note("twins", "refused")
            continue
        same_text = "".join(str(x) for x in fa) == "".join(str(x) for x in fb)
        if oa[1].guid == ob[1].guid:
            res.note("twins", "same-identifier")
            res.deviation("guid", {"part": "twins", "twin": name}, str(oa[1].guid), "different identifiers for different content", sig="twins-same-guid:" + name.split(":")[0],
                          fields=[list(map(str, fa)), list(map(str, fb))], same_concatenated_text=same_text)
        else:
            res.note("twins", "different-identifiers")


def run_shard(shard):
    res = ShardResult()
    tier, i, n = shard["tier"], shard["i"], shard["n"]
    if i == 0:
        check_twins(res)
    corpus = W.corpus(tier)
    specs = [s for idx, s in enumerate(corpus) if idx % n == i]
    me = os.environ.get("PYTHONHASHSEED", "random")
    K, mine = sweep_units(tier, i, n)
    sweeps = []
    try:
        for k in sorted(mine):
            sw_specs = corpus[k::K]
            sw_perms = [{"spec": it, "mod": [k, K]} for it in W.perm_items(tier)]
            sweeps.append((k, sw_specs, sw_perms, Sweep(mine[k], {"specs": sw_specs, "perms": sw_perms, "menu": k == 0})))
        for spec in specs:
            check_roundtrips(res, spec)
            check_sensitivity(res, spec)
        for k, sw_specs, sw_perms, sweep in sweeps:
            base_recs = [W.record(s) for s in sw_specs]
            base_perms = [W.perm_record(it) for it in sw_perms]
            base_menu = W.digest_menu() if k == 0 else None
            results = sweep.collect()
            compare_sweep(res, sw_specs, sw_perms, base_recs, base_perms, base_menu, results, me)
    finally:
        for _, _, _, sweep in sweeps:
            sweep.close()
    if specs:
        res.sample({"spec": specs[0], "chain": ["dict", "json", "pickle"]})
        res.sample({"spec": specs[-1], "seeds": SEEDS[tier]})
    return res


def replay(case):
    res = ShardResult()
    part = case.get("part")
    if part == "rt":
        check_roundtrips(res, case["spec"], only_chain=case["chain"])
        return [d for d in res.deviations if d["case"]["chain"] == case["chain"]]
    if part == "edit":
        check_sensitivity(res, case["spec"], only_edit=case["edit"])
        return res.deviations
    if part == "twins":
        check_twins(res, only=case["twin"])
        return res.deviations
    if part == "seed":
        sweep = Sweep([case["seed"]], {"specs": [case["spec"]], "perms": [], "menu": False, "full": True})
        try:
            out = sweep.collect()
        finally:
            sweep.close()
        b = W.record(case["spec"], full=True)
        x = out[case["seed"]]["recs"][0]
        if x != b:
            f = _rec_field_diff(b, x)
            res.deviation("hash-seed", case, x, b, sig=f"seed:{case['spec']['c']}:{f}", cls=case["spec"]["c"], field=f)
        return res.deviations
    if part == "menu":
        sweep = Sweep([case["seed"]], {"specs": [], "perms": [], "menu": True})
        try:
            out = sweep.collect()
        finally:
            sweep.close()
        b = W.digest_menu()[case["entry"]]
        x = out[case["seed"]]["menu"][case["entry"]]
        if b != x:
            res.deviation("hash-seed", case, x, b, sig=f"seed:digest_object:{b[0]}")
        return res.deviations
    if part == "perm":
        sa, sb = W.with_quals(case["spec"], case["qa"]), W.with_quals(case["spec"], case["qb"])
        if case.get("seed") is None:
            ra, rb = W.record(sa, full=True), W.record(sb, full=True)
        else:
            sweep = Sweep([case["seed"]], {"specs": [sa, sb], "perms": [], "menu": False, "full": True})
            try:
                out = sweep.collect()
            finally:
                sweep.close()
            ra, rb = out[case["seed"]]["recs"]
        if ra.get("guids") != rb.get("guids") or "refused" in ra or "refused" in rb:
            res.deviation("qualifier-order", case, [ra.get("guids"), rb.get("guids")], "one identifier",
                          sig=f"perm:{case['spec']['c']}:{case['spec'].get('qn')}", cls=case["spec"]["c"])
        return res.deviations
    return []


# ---------------------------------------------------------------------------------------------------------------------
# matchers for genuine library defects (to be registered in known_findings.json by the maintainer of /verif)
# ---------------------------------------------------------------------------------------------------------------------
def _has_variants(spec):
    if spec["c"] in ("var", "vc"):
        return True
    return spec["c"] == "ac" and bool(spec.get("vcs"))


def _exc(d):
    o = d.get("observed")
    if isinstance(o, dict) and "exc" in o:
        return o["exc"], o.get("msg", "")
    return None, ""


def m_pickle_interval(d):
    """every interval / collection class except AnnotationCollection refuses pickle.dumps: `Parent` is a module attribute
    rebound to its lru_cache wrapper (PicklingError), methodtools' per-instance cache wrappers hold `property` objects
    (TypeError), and an interval on a non-overlapping chunk holds the EmptyLocation singleton (EmptyLocationException)"""
    if d.get("op") != "roundtrip" or d.get("step") != "pickle" or d.get("cls") == "ac":
        return False
    exc, msg = _exc(d)
    if exc == "PicklingError":
        return "parent.Parent" in msg and d.get("pk") != "none"
    if exc == "TypeError":
        return "cannot pickle 'property' object" in msg
    if exc == "EmptyLocationException":
        return d.get("pk") == "chunk"
    return False


def m_variant_schema_guid(d):
    """VariantInterval.to_dict() exports its identifier under 'guid' while VariantIntervalModel names the field
    'variant_interval_guid': Schema().load(to_dict()) of anything that contains a variant raises ValidationError"""
    if d.get("op") != "roundtrip" or d.get("step") not in ("model", "json"):
        return False
    exc, msg = _exc(d)
    return _has_variants(d["case"]["spec"]) and exc == "ValidationError" and "'guid': ['Unknown field.']" in msg and "Missing data" not in msg


_PARENT_DERIVED = re.compile(r"^(/children/\d+)*/(chrom_loc/3|chunk_loc/3|chunk_loc|has_seq|ref)(/.*)?$")


def m_variant_from_dict_parent(d):
    """VariantInterval.from_dict(vals, parent) ignores its parent argument: after a dictionary import (also inside
    VariantIntervalCollection / AnnotationCollection.from_dict and the collection's pickle) the variant has no parent,
    no sequence; every other observation is equal"""
    if d.get("op") != "roundtrip" or d.get("step") not in ("dict", "dictp", "pickle") or d.get("pk") == "none":
        return False
    if d.get("step") == "pickle" and d.get("cls") != "ac":
        return False
    o = d["observed"]
    if not _has_variants(d["case"]["spec"]) or not isinstance(o, dict) or not o.get("diff"):
        return False
    return all(x[3] == "VariantInterval" and _PARENT_DERIVED.match(x[0]) for x in o["diff"])


def _disjoint_chunk(spec):
    p, b = spec.get("p"), spec.get("bounds")
    return spec["c"] == "ac" and isinstance(p, list) and p[0] in ("chunk", "chunkm") and bool(b) and (p[2] <= b[0] or p[1] >= b[1])


def m_ac_disjoint_chunk(d):
    """AnnotationCollection(start, end, chunk parent) whose chunk does not overlap [start, end): _parent_to_dict() exports
    the chunk without start/end, so from_dict / __setstate__ / the data model cannot rebuild the parent"""
    if d.get("op") != "roundtrip" or d.get("cls") != "ac" or not _disjoint_chunk(d["case"]["spec"]):
        return False
    exc, msg = _exc(d)
    if exc == "TypeError":
        return "seq_chunk_to_parent() missing 2 required positional arguments: 'start' and 'end'" in msg
    if exc == "InvalidInputError":
        return "Cannot construct sequence chunk parent without chunk start/end positions" in msg
    return False


def _boundless(spec):
    return (spec["c"] == "ac" and not spec.get("genes") and not spec.get("fcs") and not spec.get("bounds")
            and spec.get("p") in ("none", "chrom0"))


def m_ac_no_bounds(d):
    """AnnotationCollection without genes and feature collections (empty, or variant collections only), without explicit
    bounds and without a parent that has a location: no bounds are inferred (`__len__` ignores variant collections), the
    collection sits on EmptyLocation.  Shape A (trees before `self.start = self.end = None` was added): to_dict(), hence ==,
    every export and pickling, raises AttributeError 'start'.  Shape B: with a sequence-less chromosome parent
    _parent_to_dict() cannot classify the parent (type=None), so after dict / model / pickle the children sit on a parent
    without sequence type; nothing else differs"""
    if d.get("op") != "roundtrip" or d.get("cls") != "ac" or not _boundless(d["case"]["spec"]):
        return False
    o = d["observed"]
    if not isinstance(o, dict):
        return False
    if d["case"]["spec"].get("p") == "chrom0" and o.get("diff"):
        return all(x[0].startswith("/children/") and _PARENT_DERIVED.match(x[0]) for x in o["diff"])
    return False


def m_live_dump(d):
    """AnnotationCollectionModel.Schema().dump(<live AnnotationCollection with children>) serialises the children from
    attributes the interval objects do not have (no exon_starts / interval_starts, guids null, qualifier sets in hash
    order): the dump cannot be loaded back or loads a different collection"""
    if d.get("op") != "roundtrip" or d.get("step") != "livedump" or d.get("cls") != "ac":
        return False
    return d.get("n_children", 0) > 0


def m_chunk_relative_dict_tuples(d):
    """chunk-relative dictionary export hands out coordinate TUPLES where the chromosome export hands out lists; an object
    re-imported from it stores the tuples, so its own dictionary (and `==`) differ from the origin's in the container type only"""
    if d.get("step") != "dictcr" or not isinstance(d.get("observed"), dict):
        return False
    diffs = d["observed"].get("diff") or []
    if not diffs:
        return False
    for path, a, b, _cls in diffs:
        if path.endswith("/cds/guid") and _cls == "CDSInterval":
            continue  # the CDS identifier digests the TEXT of its coordinate containers: "(2, 5)" instead of "[2, 5]"
        if not path.rsplit("/", 1)[-1] in ("interval_starts", "interval_ends", "exon_starts", "exon_ends", "cds_starts", "cds_ends"):
            return False
        try:
            la, lb = json.loads(a), json.loads(b)
        except Exception:
            return False
        if not (isinstance(lb, list) and lb[:1] == ["tuple"] and lb[1:] == la):
            return False
    return True


def m_digest_concatenation(d):
    """two contents whose differing neighbouring fields spell the same text when written one after the other"""
    return d["sig"].startswith("twins-same-guid:") and d.get("same_concatenated_text") is True


MATCHERS = {
    "c08_chunk_relative_dict_tuples": m_chunk_relative_dict_tuples,
    "c08_digest_concatenation": m_digest_concatenation,
    "c08_pickle_interval": m_pickle_interval,
    "c08_ac_disjoint_chunk": m_ac_disjoint_chunk,
}
