"""Reference model for C11: what a GFF3 export of a collection spec must contain, and what a parse must return.

Pure Python; imports nothing from the library.  A *spec* is the JSON-able dictionary that
``AnnotationCollectionModel.Schema().load`` accepts (genes -> transcripts, feature_collections -> feature_intervals).

Sources of the expectations (all from doc strings / the GFF3 specification, none from running the code):
  * coordinates: GFF3 is 1-based inclusive, BioCantor blocks are 0-based half open: row = (start + 1 - off, end - off);
  * phase = number of bases to skip to reach the next codon = (3 - frame) % 3 with frame = codon position of the first base;
  * ``GFFAttributes`` doc string: ID, Parent, Name are managed by the library; a qualifier called ID/Name/Parent is never
    emitted (exception or warning + drop); the other GFF3-reserved tags keep their case, every other key is lower-cased;
    an empty value is written as ``nan``; values of one key are joined with "," (so a literal comma in a value separates);
  * ``to_gff`` doc strings: children rows carry the qualifiers of their parents; ``BioCantorQualifiers``: the identifier
    attributes that are added when present on the object.
"""

DROP_KEYS = {"ID", "Name", "Parent"}
KEEP_CASE_KEYS = {"Alias", "Target", "Dbxref", "Gap", "Derives_from", "Note", "Ontology_term"}
UNKNOWN_BIOTYPE = "unspecified"
# alias classes of the Biotype enumeration that are used by the worlds of this check
BIOTYPE_CANON = {"protein_coding": "protein_coding", "mRNA": "protein_coding", "lncRNA": "lncRNA", "ncRNA": "ncRNA", "tRNA": "tRNA", None: None}
PHASE_OF_FRAME = {"ZERO": "0", "ONE": "2", "TWO": "1"}
STRAND_SYM = {"PLUS": "+", "MINUS": "-", "UNSTRANDED": "."}


def out_key(k):
    k = str(k)
    return k if k in KEEP_CASE_KEYS else k.lower()


def pieces(v):
    v = str(v)
    return ["nan"] if v == "" else v.split(",")


class Quals:
    """key (original case) -> set of values, with the merge semantics of the doc strings (children inherit)."""

    def __init__(self, d=None):
        self.d = {}
        for k, vals in (d or {}).items():
            self.d[k] = set(str(v) for v in vals)

    def copy(self):
        q = Quals()
        q.d = {k: set(v) for k, v in self.d.items()}
        return q

    def merged_with(self, other):
        q = self.copy()
        for k, v in other.d.items():
            q.d.setdefault(k, set()).update(v)
        return q

    def add(self, key, val):
        if val:
            self.d.setdefault(key, set()).add(str(val))

    def attrs(self):
        """decoded attribute map {emitted key: set of value pieces}; reserved ID/Name/Parent dropped"""
        out = {}
        for k, vals in self.d.items():
            if not vals or k in DROP_KEYS:
                continue
            ok = out_key(k)
            for v in vals:
                out.setdefault(ok, set()).update(pieces(v))
        return out

    def has_dropped(self):
        return any(k in DROP_KEYS and v for k, v in self.d.items())

    def lowered_case_collisions(self):
        seen = {}
        for k, v in self.d.items():
            if not v or k in DROP_KEYS:
                continue
            seen.setdefault(out_key(k), []).append(k)
        return [ks for ks in seen.values() if len(ks) > 1]


def _node(seqid, typ, start, end, strand, phase, name, quals, children, off):
    a = quals.attrs()
    if name is not None:
        a["Name"] = set(pieces_escaped_comma(name))
    attrs = tuple(sorted((k, tuple(sorted(v))) for k, v in a.items()))
    return (seqid, typ, start + 1 - off, end - off, strand, phase, attrs, tuple(sorted(children)))


def pieces_escaped_comma(v):
    """ID / Parent / Name: the comma is escaped, the value is never split"""
    v = str(v)
    return ["nan"] if v == "" else [v]


def gene_quals(g):
    q = Quals(g.get("qualifiers"))
    q.add("gene_id", g.get("gene_id"))
    q.add("gene_name", g.get("gene_symbol"))
    q.add("gene_biotype", BIOTYPE_CANON[g.get("gene_type")] or UNKNOWN_BIOTYPE)
    q.add("locus_tag", g.get("locus_tag"))
    return q


def tx_quals(t, gq):
    q = Quals(t.get("qualifiers")).merged_with(gq)
    q.add("transcript_id", t.get("transcript_id"))
    q.add("transcript_name", t.get("transcript_symbol"))
    q.add("transcript_biotype", BIOTYPE_CANON[t.get("transcript_type")] or UNKNOWN_BIOTYPE)
    q.add("protein_id", t.get("protein_id"))
    return q


def cds_quals(t, tq):
    q = tq.copy()
    q.add("protein_id", t.get("protein_id"))
    q.add("product", t.get("product"))
    return q


def has_cds(t):
    return bool(t.get("cds_starts"))


def expected_forest(spec, off=0):
    """Canonical forest (same shape as c11_gff.forest) that the export of ``spec`` must decode to."""
    roots = []
    seqid = spec["sequence_name"]
    for g in spec.get("genes") or []:
        gq = gene_quals(g)
        kids = []
        for t in g["transcripts"]:
            tq = tx_quals(t, gq)
            st = STRAND_SYM[t["strand"]]
            exons = sorted(zip(t["exon_starts"], t["exon_ends"]))
            sub = [_node(seqid, "exon", s, e, st, ".", t.get("transcript_symbol"), tq, (), off) for s, e in exons]
            if has_cds(t):
                cq = cds_quals(t, tq)
                for s, e, f in sorted(zip(t["cds_starts"], t["cds_ends"], t["cds_frames"])):
                    sub.append(_node(seqid, "CDS", s, e, st, PHASE_OF_FRAME[f], t.get("protein_id"), cq, (), off))
            kids.append(_node(seqid, "transcript", exons[0][0], exons[-1][1], st, ".", t.get("transcript_symbol"), tq, sub, off))
        gs = min(min(t["exon_starts"]) for t in g["transcripts"])
        ge = max(max(t["exon_ends"]) for t in g["transcripts"])
        strands = {STRAND_SYM[t["strand"]] for t in g["transcripts"]}
        roots.append(("gene", _node(seqid, "gene", gs, ge, "*", ".", g.get("gene_symbol"), gq, kids, off), strands))
    for fc in spec.get("feature_collections") or []:
        fq = Quals(fc.get("qualifiers"))
        fq.add("feature_collection_id", fc.get("feature_collection_id"))
        fq.add("feature_collection_name", fc.get("feature_collection_name"))
        fq.add("locus_tag", fc.get("locus_tag"))
        fq.add("feature_collection_type", fc.get("feature_collection_type"))
        all_types = set()
        for f in fc["feature_intervals"]:
            all_types.update(f.get("feature_types") or [])
        if all_types:
            fq.d["feature_type"] = set(all_types)
        kids = []
        for f in fc["feature_intervals"]:
            q = Quals(f.get("qualifiers")).merged_with(fq)
            q.add("feature_name", f.get("feature_name"))
            q.add("feature_id", f.get("feature_id"))
            if f.get("feature_types"):
                q.d["feature_type"] = set(f["feature_types"])
            st = STRAND_SYM[f["strand"]]
            blocks = sorted(zip(f["interval_starts"], f["interval_ends"]))
            sub = [_node(seqid, "subregion", s, e, st, ".", f.get("feature_name"), q, (), off) for s, e in blocks]
            kids.append(_node(seqid, "feature_interval", blocks[0][0], blocks[-1][1], st, ".", f.get("feature_name"), q, sub, off))
        s0 = min(min(f["interval_starts"]) for f in fc["feature_intervals"])
        e0 = max(max(f["interval_ends"]) for f in fc["feature_intervals"])
        strands = {STRAND_SYM[f["strand"]] for f in fc["feature_intervals"]}
        roots.append(("fc", _node(seqid, "biological_region", s0, e0, "*", ".", fc.get("feature_collection_name"), fq, kids, off), strands))
    return roots


def wildcard_root_strand(node):
    """The container rows (gene, biological_region) have no strand of their own in the data model; the statement only
    asks for a strand *symbol* there.  The comparison replaces the strand of root rows by '*'."""
    return node[:4] + ("*",) + node[5:]


def spec_has_dropped_keys(spec):
    for g in spec.get("genes") or []:
        if Quals(g.get("qualifiers")).has_dropped():
            return True
        for t in g["transcripts"]:
            if Quals(t.get("qualifiers")).has_dropped():
                return True
    for fc in spec.get("feature_collections") or []:
        if Quals(fc.get("qualifiers")).has_dropped():
            return True
        for f in fc["feature_intervals"]:
            if Quals(f.get("qualifiers")).has_dropped():
                return True
    return False


# ---- expected result of parsing (leg 2) ---------------------------------------------------------------------------------
def _lower_quals(*dicts):
    out = {}
    for d in dicts:
        for k, vals in (d or {}).items():
            if k in DROP_KEYS or not vals:
                continue
            out.setdefault(out_key(k), set()).update(str(v) if str(v) != "" else "nan" for v in vals)
    return {k: sorted(v) for k, v in out.items()}


def expected_genes(spec, off=0):
    """gene_id -> expected parsed gene (dict), transcripts keyed by transcript_id.
    Values that are None in the source are 'unspecified': the parser may infer something (e.g. the locus tag)."""
    out = {}
    for g in spec.get("genes") or []:
        txs = {}
        for t in g["transcripts"]:
            exons = sorted((s - off, e - off) for s, e in zip(t["exon_starts"], t["exon_ends"]))
            if has_cds(t):
                c = sorted((s - off, e - off, f) for s, e, f in zip(t["cds_starts"], t["cds_ends"], t["cds_frames"]))
                cds = [(s, e) for s, e, _ in c]
                frames = [f for _, _, f in c]
            else:
                cds, frames = None, None
            txs[t.get("transcript_id")] = dict(
                exons=exons, cds=cds, frames=frames, strand=t["strand"],
                transcript_id=t.get("transcript_id"), transcript_symbol=t.get("transcript_symbol"),
                transcript_type=BIOTYPE_CANON[t.get("transcript_type")],
                protein_id=t.get("protein_id") if has_cds(t) else None, product=t.get("product") if has_cds(t) else None,
                qualifiers=_lower_quals(g.get("qualifiers"), t.get("qualifiers")),
            )
        out[g.get("gene_id")] = dict(
            gene_id=g.get("gene_id"), gene_symbol=g.get("gene_symbol"), locus_tag=g.get("locus_tag"),
            gene_type=BIOTYPE_CANON[g.get("gene_type")], qualifiers=_lower_quals(g.get("qualifiers")), transcripts=txs,
        )
    return out


def observed_genes(coll_dict):
    """Same shape from ``AnnotationCollection.to_dict()`` of a parsed collection."""
    out = {}
    dup = []
    for g in coll_dict.get("genes") or []:
        txs = {}
        for t in g["transcripts"]:
            exons = sorted(zip(t["exon_starts"], t["exon_ends"]))
            if t.get("cds_starts"):
                c = sorted(zip(t["cds_starts"], t["cds_ends"], t["cds_frames"]))
                cds = [(s, e) for s, e, _ in c]
                frames = [f for _, _, f in c]
            else:
                cds, frames = None, None
            if t.get("transcript_id") in txs:
                dup.append(("transcript", t.get("transcript_id")))
            txs[t.get("transcript_id")] = dict(
                exons=exons, cds=cds, frames=frames, strand=t["strand"], transcript_id=t.get("transcript_id"),
                transcript_symbol=t.get("transcript_symbol"), transcript_type=BIOTYPE_CANON.get(t.get("transcript_type"), t.get("transcript_type")),
                protein_id=t.get("protein_id"), product=t.get("product"),
                qualifiers={k: sorted(v) for k, v in (t.get("qualifiers") or {}).items()},
            )
        if g.get("gene_id") in out:
            dup.append(("gene", g.get("gene_id")))
        out[g.get("gene_id")] = dict(
            gene_id=g.get("gene_id"), gene_symbol=g.get("gene_symbol"), locus_tag=g.get("locus_tag"),
            gene_type=BIOTYPE_CANON.get(g.get("gene_type"), g.get("gene_type")),
            qualifiers={k: sorted(v) for k, v in (g.get("qualifiers") or {}).items()}, transcripts=txs,
        )
    return out, dup


def spec_from_dict(coll_dict):
    """A parsed collection (to_dict) seen as a new source spec (hop 2 of the fixpoint leg)."""
    genes = []
    for g in coll_dict.get("genes") or []:
        txs = []
        for t in g["transcripts"]:
            txs.append({k: t.get(k) for k in (
                "exon_starts", "exon_ends", "strand", "cds_starts", "cds_ends", "cds_frames", "qualifiers", "transcript_id",
                "transcript_symbol", "transcript_type", "protein_id", "product")})
        genes.append(dict(transcripts=txs, gene_id=g.get("gene_id"), gene_symbol=g.get("gene_symbol"), gene_type=g.get("gene_type"),
                          locus_tag=g.get("locus_tag"), qualifiers=g.get("qualifiers")))
    return dict(sequence_name=coll_dict.get("sequence_name"), genes=genes)
