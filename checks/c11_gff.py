"""Independent GFF3 reader used by C11 (no BioCantor, no gffutils; only the standard library).

Written from the GFF3 specification (Sequence Ontology, v1.26):
  * line 1 is ``##gff-version 3``; other ``##`` lines before ``##FASTA`` are directives (``##sequence-region seqid start end``);
  * a feature line has exactly nine tab-separated columns; tab, newline, carriage return, ``%`` and control characters
    must be percent-encoded; in column 9 ``;`` separates attributes, ``=`` separates tag and value, ``,`` separates the
    values of one tag, so these three must be percent-encoded when meant literally;
  * start/end are 1-based inclusive integers with start <= end; strand is one of ``+ - . ?``; phase is ``.`` or 0/1/2;
  * after ``##FASTA`` the rest of the file is FASTA whose record names are seqids.
Decoding is RFC-3986 percent decoding (``urllib.parse.unquote``, UTF-8).
"""
import re
from urllib.parse import unquote

_BAD_PERCENT = re.compile(r"%(?![0-9A-Fa-f]{2})")
_CTRL = re.compile(r"[\x00-\x08\x0b-\x1f\x7f]")  # raw control characters other than TAB / LF (CR included)
_INT = re.compile(r"^[0-9]+$")


def read_gff3(text):
    """Returns dict(headers, directives, rows, fasta, problems).  ``problems`` is a list of (code, detail) found while
    reading; codes are short and stable (they become deviation signatures)."""
    problems = []
    out = dict(headers=[], regions=[], rows=[], fasta=None, problems=problems, fasta_lines=[])
    if not text.endswith("\n"):
        problems.append(("no-final-newline", text[-20:]))
    lines = text.split("\n")
    if lines and lines[-1] == "":
        lines.pop()
    if not lines or lines[0] != "##gff-version 3":
        problems.append(("version-line", lines[0] if lines else ""))
    i = 0
    in_fasta = False
    fasta = []
    for i, line in enumerate(lines):
        if in_fasta:
            out["fasta_lines"].append(line)
            if line.startswith(">"):
                name = line[1:].split()[0] if line[1:].split() else ""
                fasta.append([name, line[1:], []])
            else:
                if not fasta:
                    problems.append(("fasta-sequence-before-header", line))
                    continue
                if line == "" or not re.match(r"^[A-Za-z*\-]+$", line):
                    problems.append(("fasta-bad-sequence-line", line))
                fasta[-1][2].append(line)
            continue
        if _CTRL.search(line):
            problems.append(("raw-control-character", repr(line)))
        if line.startswith("##"):
            if line == "##FASTA":
                in_fasta = True
                out["fasta"] = []
                continue
            out["headers"].append(line)
            if line.startswith("##sequence-region"):
                parts = line.split(" ")
                if len(parts) != 4 or not _INT.match(parts[2]) or not _INT.match(parts[3]):
                    problems.append(("bad-sequence-region", line))
                else:
                    out["regions"].append((parts[1], int(parts[2]), int(parts[3])))
                if out["rows"]:
                    problems.append(("directive-after-features", line))
            continue
        if line.startswith("#"):
            continue
        if line == "":
            problems.append(("blank-line", str(i)))
            continue
        cols = line.split("\t")
        if len(cols) != 9:
            problems.append(("columns", f"{len(cols)} columns: {line!r}"))
            continue
        row = _read_row(cols, problems, i)
        if row is not None:
            out["rows"].append(row)
    if in_fasta:
        out["fasta"] = [(n, h, "".join(s)) for n, h, s in fasta]
        for n, h, s in out["fasta"]:
            if not n:
                problems.append(("fasta-empty-name", h))
            if not s:
                problems.append(("fasta-empty-sequence", n))
        names = [n for n, _, _ in out["fasta"]]
        if len(set(names)) != len(names):
            problems.append(("fasta-duplicate-name", repr(names)))
    return out


def _read_row(cols, problems, lineno):
    seqid, source, typ, start, end, score, strand, phase, attrs = cols
    ok = True
    for name, c in zip(("seqid", "source", "type", "start", "end", "score", "strand", "phase"), cols):
        if c == "":
            problems.append(("empty-column", f"{name} line {lineno}"))
            ok = False
        if _BAD_PERCENT.search(c):
            problems.append(("bad-percent", f"{name}: {c!r}"))
    if seqid.startswith(">") or re.search(r"\s", seqid):
        problems.append(("bad-seqid", seqid))
    if not _INT.match(start) or not _INT.match(end):
        problems.append(("non-integer-coordinate", f"{start},{end}"))
        return None
    s, e = int(start), int(end)
    if s < 1:
        problems.append(("start<1", f"{s}"))
    if s > e:
        problems.append(("start>end", f"{s}>{e}"))
    if strand not in ("+", "-", ".", "?"):
        problems.append(("bad-strand", strand))
    if phase not in (".", "0", "1", "2"):
        problems.append(("bad-phase", phase))
    if score != ".":
        try:
            float(score)
        except ValueError:
            problems.append(("bad-score", score))
    raw_pairs = []
    decoded = {}
    if attrs == "":
        problems.append(("empty-attributes", str(lineno)))
    for part in attrs.split(";") if attrs != "" else []:
        if part == "":
            problems.append(("empty-attribute", attrs))
            continue
        if part.count("=") != 1:
            problems.append(("attribute-not-tag=value", part))
            continue
        k, v = part.split("=")
        if _BAD_PERCENT.search(k) or _BAD_PERCENT.search(v):
            problems.append(("bad-percent", part))
        if k == "":
            problems.append(("empty-tag", part))
        if v == "":
            problems.append(("empty-value", part))
        dk = unquote(k, errors="strict")
        pieces = [unquote(p, errors="strict") for p in v.split(",")]
        raw_pairs.append((k, v))
        if dk in decoded:
            problems.append(("duplicate-tag", dk))
            decoded[dk] = decoded[dk] + pieces
        else:
            decoded[dk] = pieces
    if not ok:
        return None
    return dict(
        seqid=unquote(seqid), source=unquote(source), type=unquote(typ), start=s, end=e, score=score, strand=strand,
        phase=phase, attrs=decoded, raw=raw_pairs, line="\t".join(cols),
    )


def structure_problems(g):
    """ID / Parent / ordering rules over the rows of one parsed file."""
    probs = []
    seen = {}
    last_start = {}
    for idx, r in enumerate(g["rows"]):
        a = r["attrs"]
        ids = a.get("ID")
        if not ids:
            probs.append(("row-without-ID", r["type"]))
        else:
            if len(ids) != 1:
                probs.append(("multi-valued-ID", repr(ids)))
            for x in ids:
                if x in seen:
                    probs.append(("duplicate-ID", f"{r['type']} {x} (first on a {g['rows'][seen[x]]['type']} row)"))
                else:
                    seen[x] = idx
        for p in a.get("Parent", []):
            if p not in seen or seen[p] == idx:
                probs.append(("parent-not-defined-earlier", f"{r['type']} -> {p}"))
            else:
                pr = g["rows"][seen[p]]
                if pr["seqid"] != r["seqid"]:
                    probs.append(("parent-on-other-seqid", f"{r['type']}"))
                if not (pr["start"] <= r["start"] and r["end"] <= pr["end"]):
                    probs.append(("child-outside-parent", f"{r['type']} {r['start']}-{r['end']} in {pr['type']} {pr['start']}-{pr['end']}"))
        if "Name" in a and len(a["Name"]) != 1:
            probs.append(("multi-valued-Name", repr(a["Name"])))
        ls = last_start.get(r["seqid"])
        if ls is not None and r["start"] < ls:
            probs.append(("rows-not-ordered-by-start", f"{r['start']} after {ls}"))
        last_start[r["seqid"]] = r["start"]
        if (r["type"] == "CDS") != (r["phase"] != "."):
            probs.append(("phase-on-wrong-row-type", f"{r['type']} phase {r['phase']}"))
    # seqids must appear in contiguous groups in the order they first appear (file is 'sequence then position sorted')
    order = []
    for r in g["rows"]:
        if not order or order[-1] != r["seqid"]:
            if r["seqid"] in order:
                probs.append(("seqid-groups-interleaved", r["seqid"]))
            order.append(r["seqid"])
    return probs


def forest(g):
    """Canonical, order-independent form of the feature forest: a sorted list of nested tuples
    (type, start, end, strand, phase, attrs-without-ID/Parent, children).  IDs are opaque to the comparison."""
    rows = g["rows"]
    by_id = {}
    for idx, r in enumerate(rows):
        for x in r["attrs"].get("ID", []):
            by_id.setdefault(x, idx)
    kids = {i: [] for i in range(len(rows))}
    roots = []
    for idx, r in enumerate(rows):
        ps = [by_id[p] for p in r["attrs"].get("Parent", []) if p in by_id and by_id[p] != idx]
        if not ps:
            roots.append(idx)
        for p in ps:
            kids[p].append(idx)

    def canon(i, depth=0):
        r = rows[i]
        attrs = tuple(sorted((k, tuple(sorted(set(v)))) for k, v in r["attrs"].items() if k not in ("ID", "Parent")))
        ch = tuple(sorted(canon(c, depth + 1) for c in kids[i])) if depth < 6 else ()
        return (r["seqid"], r["type"], r["start"], r["end"], r["strand"], r["phase"], attrs, ch)

    return sorted(canon(i) for i in roots)


def rows_by_start(g):
    """For the fixpoint comparison: list of (seqid, start, sorted multiset of full row texts sharing that start), in file order."""
    out = []
    for r in g["rows"]:
        key = (r["seqid"], r["start"])
        if out and out[-1][0] == key:
            out[-1][1].append(r["line"])
        else:
            out.append((key, [r["line"]]))
    return [(k, sorted(v)) for k, v in out]


def selftest():
    """The reader against hand-written files: a valid one is accepted, each seeded defect is reported under its own code."""
    ok = (
        "##gff-version 3\n##sequence-region chrV 1 12\n"
        "chrV\tX\tgene\t2\t10\t.\t+\t.\tID=g1;Name=a%3Bb;k%3d=v%2C1,w%09\n"
        "chrV\tX\ttranscript\t2\t10\t.\t+\t.\tID=t1;Parent=g1\n"
        "chrV\tX\texon\t2\t4\t.\t+\t.\tID=e1;Parent=t1\n"
        "chrV\tX\tCDS\t3\t4\t.\t+\t0\tID=c1;Parent=t1\n"
        "chrV\tX\texon\t7\t10\t.\t+\t.\tID=e2;Parent=t1\n"
        "##FASTA\n>chrV\nATGGCC\nTAAGTC\n"
    )
    g = read_gff3(ok)
    assert g["problems"] == [] and structure_problems(g) == [], (g["problems"], structure_problems(g))
    assert g["rows"][0]["attrs"] == {"ID": ["g1"], "Name": ["a;b"], "k=": ["v,1", "w\t"]}
    assert g["fasta"] == [("chrV", "chrV", "ATGGCCTAAGTC")] and g["regions"] == [("chrV", 1, 12)]
    assert len(forest(g)) == 1 and len(forest(g)[0][7]) == 1 and len(forest(g)[0][7][0][7]) == 3
    seeded = {
        "columns": ok.replace("chrV\tX\tgene\t2", "chrV\tX\tgene 2"),
        "start>end": ok.replace("gene\t2\t10", "gene\t11\t10"),
        "start<1": ok.replace("gene\t2\t10", "gene\t0\t10"),
        "bad-strand": ok.replace("gene\t2\t10\t.\t+", "gene\t2\t10\t.\tx"),
        "bad-phase": ok.replace("\t+\t0\tID=c1", "\t+\t3\tID=c1"),
        "attribute-not-tag=value": ok.replace("k%3d=v", "k==v"),
        "bad-percent": ok.replace("a%3Bb", "a%zzb"),
        "raw-control-character": ok.replace("a%3Bb", "a\rb"),
        "empty-attribute": ok.replace("ID=g1;Name", "ID=g1;;Name"),
        "duplicate-tag": ok.replace("Name=a%3Bb", "ID=g2"),
        "version-line": ok.replace("##gff-version 3", "##gff-version 2"),
        "no-final-newline": ok[:-1],
        "fasta-duplicate-name": ok + ">chrV\nAC\n",
    }
    for code, text in seeded.items():
        assert code in [c for c, _ in read_gff3(text)["problems"]], code
    seeded2 = {
        "duplicate-ID": ok.replace("ID=e2", "ID=e1"),
        "parent-not-defined-earlier": ok.replace("ID=t1;Parent=g1", "ID=t1;Parent=g9"),
        "rows-not-ordered-by-start": ok.replace("exon\t7\t10", "exon\t1\t10"),
        "phase-on-wrong-row-type": ok.replace("exon\t2\t4\t.\t+\t.", "exon\t2\t4\t.\t+\t0"),
        "child-outside-parent": ok.replace("exon\t7\t10", "exon\t7\t11"),
    }
    for code, text in seeded2.items():
        assert code in [c for c, _ in structure_problems(read_gff3(text))], code
    a = read_gff3(ok)
    swapped = ok.replace("chrV\tX\tgene\t2\t10\t.\t+\t.\tID=g1;Name=a%3Bb;k%3d=v%2C1,w%09\nchrV\tX\ttranscript\t2\t10\t.\t+\t.\tID=t1;Parent=g1\n",
                         "chrV\tX\ttranscript\t2\t10\t.\t+\t.\tID=t1;Parent=g1\nchrV\tX\tgene\t2\t10\t.\t+\t.\tID=g1;Name=a%3Bb;k%3d=v%2C1,w%09\n")
    assert rows_by_start(read_gff3(swapped)) == rows_by_start(a) and swapped != ok
    return True
