"""Independent reader of the NCBI 5-column feature table (.tbl).  Pure Python, imports nothing from the library.

Format (https://www.ncbi.nlm.nih.gov/genbank/feature_table/):

    >Feature SeqId [table_name]          header; NCBI's reader accepts any non-blank suffix glued to the word
                                         "Feature" (">Features chrV" is read like ">Feature chrV")
    start<TAB>end<TAB>key                first interval of a feature (columns 4,5 empty)
    start<TAB>end                        further intervals of the same feature (columns 3,4,5 empty)
    <TAB><TAB><TAB>qualifier<TAB>value   qualifier of the feature above (columns 1-3 empty; value may be empty)

Coordinates are 1-based inclusive; on the minus strand start > end; intervals are listed 5'->3'.  `<` in front of the
first start = 5'-partial, `>` in front of the last end = 3'-partial.  Trailing empty columns may be omitted.
"""
import re


class TblFormatError(Exception):
    pass


_HEADER = re.compile(r"^>Feature(\S*)[ \t]+(\S+)(?:[ \t]+(\S+))?[ \t]*$")
_COORD = re.compile(r"^([<>]?)([0-9]+)$")


def _coord(txt, lineno):
    m = _COORD.match(txt)
    if not m:
        raise TblFormatError(f"line {lineno}: bad coordinate {txt!r}")
    return m.group(1), int(m.group(2))


def parse_tbl(text):
    """-> list of sections: {"seqid", "suffix", "table_name", "features": [feature], "blank_lines": n}
    feature = {"key": str, "intervals": [[start_mark, start, end_mark, end], ...], "quals": [[key, value], ...]}
    Raises TblFormatError on anything that is not one of the four line kinds."""
    if text and not text.endswith("\n"):
        raise TblFormatError("file does not end with a newline")
    sections = []
    cur_sec = None
    cur_feat = None
    for lineno, line in enumerate(text.split("\n")[:-1] if text else [], 1):
        if "\r" in line:
            raise TblFormatError(f"line {lineno}: carriage return")
        if line.startswith(">"):
            m = _HEADER.match(line)
            if not m:
                raise TblFormatError(f"line {lineno}: bad header {line!r}")
            cur_sec = {"seqid": m.group(2), "suffix": m.group(1), "table_name": m.group(3), "features": [], "blank_lines": 0}
            sections.append(cur_sec)
            cur_feat = None
            continue
        if cur_sec is None:
            raise TblFormatError(f"line {lineno}: content before the first >Feature header")
        if line == "":
            cur_sec["blank_lines"] += 1
            continue
        cols = line.split("\t")
        if len(cols) > 5:
            raise TblFormatError(f"line {lineno}: {len(cols)} columns")
        cols = cols + [""] * (5 - len(cols))
        c1, c2, c3, c4, c5 = cols
        if c1 != "" or c2 != "":
            # interval line
            if c1 == "" or c2 == "":
                raise TblFormatError(f"line {lineno}: interval line with one coordinate")
            if c4 != "" or c5 != "":
                raise TblFormatError(f"line {lineno}: interval line with qualifier columns filled")
            ms, s = _coord(c1, lineno)
            me, e = _coord(c2, lineno)
            if c3 != "":
                cur_feat = {"key": c3, "intervals": [[ms, s, me, e]], "quals": []}
                cur_sec["features"].append(cur_feat)
            else:
                if cur_feat is None:
                    raise TblFormatError(f"line {lineno}: continuation interval without a feature")
                if cur_feat["quals"]:
                    raise TblFormatError(f"line {lineno}: interval after the qualifiers of the feature")
                cur_feat["intervals"].append([ms, s, me, e])
        else:
            if c3 != "":
                raise TblFormatError(f"line {lineno}: feature key without coordinates")
            if c4 == "":
                raise TblFormatError(f"line {lineno}: line with neither interval nor qualifier")
            if cur_feat is None:
                raise TblFormatError(f"line {lineno}: qualifier without a feature")
            cur_feat["quals"].append([c4, c5])
    return sections


def plain_intervals(feat):
    return [[iv[1], iv[3]] for iv in feat["intervals"]]


def partial_marks(feat):
    """-> (five_prime_partial, three_prime_partial, list of misplaced marks)"""
    ivs = feat["intervals"]
    bad = []
    n = len(ivs)
    for i, (ms, _s, me, _e) in enumerate(ivs):
        if ms and not (i == 0 and ms == "<"):
            bad.append(f"{ms} on start of interval {i}")
        if me and not (i == n - 1 and me == ">"):
            bad.append(f"{me} on end of interval {i}")
    return ivs[0][0] == "<", ivs[-1][2] == ">", bad


def qual_values(feat, key):
    return [v for k, v in feat["quals"] if k == key]


def has_qual(feat, key):
    return any(k == key for k, _ in feat["quals"])
