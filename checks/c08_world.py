"""C08 helper: corpus of JSON-able specs, builders, serialisation transitions, canonical forms, digest records.

Everything here ENUMERATES.  A *spec* is a self-contained JSON-able dict describing one library object (class,
geometry, metadata profile, qualifier list in insertion order, parent kind, chromosome length); `build(spec)` makes the
object with the library's public constructors.  Used by checks/c08.py (in process) and checks/c08_sub.py (in the
hash-seed sub-processes).
"""
import copy
import hashlib
import itertools
import json
import pickle
from uuid import UUID

from vlib import lib, worlds
from vlib.model import frame as F

from inscripta.biocantor.gene.biotype import Biotype
from inscripta.biocantor.gene.cds import CDSInterval
from inscripta.biocantor.gene.cds_frame import CDSFrame
from inscripta.biocantor.gene.collections import AnnotationCollection
from inscripta.biocantor.gene.feature import FeatureInterval, FeatureIntervalCollection
from inscripta.biocantor.gene.gene import GeneInterval
from inscripta.biocantor.gene.transcript import TranscriptInterval
from inscripta.biocantor.gene.variants import VariantInterval, VariantIntervalCollection
from inscripta.biocantor.io import models as MD
from inscripta.biocantor.location.location_impl import _EmptyLocation
from inscripta.biocantor.parent import Parent
from inscripta.biocantor import SequenceType
from inscripta.biocantor.util.hashing import digest_object

GENOME = "ACGTACGGTCAATGCCGTAGCTAGCTAACG"
CHROM = "chrV"


def U(i):
    return UUID(int=i)


# ---------------------------------------------------------------------------------------------------------------------
# qualifier profiles: ordered [key, [values]] lists (insertion order is part of the spec)
# ---------------------------------------------------------------------------------------------------------------------
Q = {
    "q0": None,
    "qe": [],
    "q1": [["a", [1]]],
    "q2": [["note", ["x", "007"]], ["n", [1, True]], ["e", []]],
    # values that only LOOK like numbers / booleans must come back as the same text ("007" is not 7)
    "q3": [["k", ["x", "y", "z"]], ["note", [1, True]], ["z", [2.5]], ["A", ["b", "+5"]]],
    "q4": [["k", ["x", "y", "z"]], ["note", [1, True, 2.5]], ["z", ["10", "9", "1e3"]], ["A", ["b", "a", "B"]]],
}


def quals_dict(ql):
    if ql is None:
        return None
    return {k: list(v) for k, v in ql}


# ---------------------------------------------------------------------------------------------------------------------
# metadata profiles
# ---------------------------------------------------------------------------------------------------------------------
def meta(cls, m):
    if m == "m0":
        return {}
    if cls == "tx":
        if m == "m1":
            return dict(is_primary_tx=True, transcript_id="tid", transcript_symbol="tsym", transcript_type=Biotype["protein_coding"],
                        sequence_guid=U(7), sequence_name=CHROM, protein_id="pid", product="prod", transcript_guid=U(8))
        if m == "m2":
            return dict(is_primary_tx=False, transcript_id="", transcript_type=Biotype["lncRNA"], guid=U(9), product="p q")
        if m == "m3":  # like m1 but not flagged primary (second/third transcript of a gene)
            return dict(transcript_id="tid3", transcript_symbol="tsym3", transcript_type=Biotype["ncRNA"], sequence_name=CHROM)
    if cls == "feat":
        if m == "m1":
            return dict(is_primary_feature=True, feature_types=["b", "a"], feature_name="fname", feature_id="fid",
                        sequence_guid=U(7), sequence_name=CHROM, feature_guid=U(8))
        if m == "m2":
            return dict(is_primary_feature=False, feature_types=[], feature_name="", guid=U(9))
        if m == "m3":
            return dict(feature_types=["c"], feature_name="fname3", feature_id="fid3", sequence_name=CHROM)
    if cls == "cds":
        if m == "m1":
            return dict(sequence_guid=U(7), sequence_name=CHROM, protein_id="pid", product="prod")
        if m == "m2":
            return dict(protein_id="", product="p q")
    if cls == "var":
        if m == "m1":
            return dict(phase_block=1, variant_guid=U(8), variant_name="vname", variant_id="vid")
        if m == "m2":
            return dict(phase_block=0, guid=U(9), variant_name="")
        if m == "m3":
            return dict(variant_name="vname3", variant_id="vid3")
    if cls == "gene":
        if m == "m1":
            return dict(gene_id="gid", gene_symbol="gsym", gene_type=Biotype["protein_coding"], locus_tag="lt",
                        sequence_name=CHROM, sequence_guid=U(7))
        if m == "m2":
            return dict(guid=U(10), gene_id="", gene_type=Biotype["pseudogene"])
    if cls == "fc":
        if m == "m1":
            return dict(feature_collection_name="fcname", feature_collection_id="fcid", feature_collection_type="fctype",
                        locus_tag="lt", sequence_name=CHROM, sequence_guid=U(7))
        if m == "m2":
            return dict(guid=U(10), feature_collection_name="")
    if cls == "vc":
        if m == "m1":
            return dict(variant_collection_name="vcname", variant_collection_id="vcid", sequence_name=CHROM, sequence_guid=U(7))
        if m == "m2":
            return dict(guid=U(10), variant_collection_name="")
    if cls == "ac":
        if m == "m1":
            return dict(name="acname", id="acid", sequence_name=CHROM, sequence_guid=U(7), sequence_path="/x/y.fa")
        if m == "m2":
            return dict(name="", sequence_name=CHROM)
    raise KeyError((cls, m))


EXPLICIT_GUID = {("tx", "m2"), ("feat", "m2"), ("var", "m2"), ("gene", "m2"), ("fc", "m2"), ("vc", "m2")}


# ---------------------------------------------------------------------------------------------------------------------
# parents
# ---------------------------------------------------------------------------------------------------------------------
def mk_parent(p, N):
    if p == "none":
        return None
    if p == "chrom":
        return lib.chrom_parent(GENOME[:N], name=CHROM)
    if p == "chrom0":
        return Parent(id=CHROM, sequence_type=SequenceType.CHROMOSOME)
    if p == "chromx":  # a chromosome with sequence but WITHOUT an identifier (seq_to_parent(genome))
        return lib.chrom_parent(GENOME[:N], name=None)
    if p == "chroms":  # a chromosome whose sequence declares the strict alphabet (not the parser's default one)
        from inscripta.biocantor.sequence.alphabet import Alphabet

        return lib.chrom_parent(GENOME[:N], name=CHROM, alphabet=Alphabet.NT_STRICT)
    if p[0] == "chunk":
        return lib.chunk_parent(GENOME[:N], p[1], p[2], name=CHROM)
    if p[0] == "chunks":  # a chunk that declares the strict alphabet
        from inscripta.biocantor.sequence.alphabet import Alphabet

        return lib.chunk_parent(GENOME[:N], p[1], p[2], name=CHROM, alphabet=Alphabet.NT_STRICT)
    if p[0] == "chunkm":  # the chunk [a,b) lies on the MINUS strand of the chromosome: its text is the reverse complement
        from inscripta.biocantor.io.parser import seq_chunk_to_parent
        from inscripta.biocantor.location.strand import Strand

        return seq_chunk_to_parent(revcomp(GENOME[:N][p[1]:p[2]]), CHROM, p[1], p[2], strand=Strand.MINUS)
    raise KeyError(p)


_COMP = {"A": "T", "C": "G", "G": "C", "T": "A"}


def revcomp(text):
    return "".join(_COMP[ch] for ch in reversed(text))


def minus_windows(lo, hi, N, tier):
    """minus-strand chunk windows for an object spanning [lo,hi): whole chromosome, 5'/3'-cutting, tight, inner (quick);
    every window (thorough)"""
    if tier == "thorough":
        wins = list(worlds.windows(N))
    else:
        wins = [(0, N)]
        if hi - lo >= 2:
            wins.append((lo + 1, N))
        if hi - lo >= 3:
            wins.append((lo + 1, hi - 1))
        wins.append((lo, hi))
    seen = []
    for w in wins:
        if w not in seen:
            seen.append(w)
    return [["chunkm", a, b] for a, b in seen]


def span_of(spec):
    c = spec["c"]
    if c == "tx":
        return spec["ex"][0][0], spec["ex"][-1][1]
    if c in ("feat", "cds"):
        return spec["bl"][0][0], spec["bl"][-1][1]
    if c == "var":
        return spec["s"], spec["e"]
    if c == "ac" and spec.get("bounds"):
        return tuple(spec["bounds"])
    kids = children_specs(spec)
    if not kids:
        return 0, spec["N"]
    sp = [span_of(k) for k in kids]
    return min(s for s, e in sp), max(e for s, e in sp)


def children_specs(spec):
    c = spec["c"]
    if c == "gene":
        return spec["tx"]
    if c == "fc":
        return spec["ft"]
    if c == "vc":
        return spec["vs"]
    if c == "ac":
        return spec["genes"] + spec["fcs"] + spec["vcs"]
    return []


def parent_kinds(lo, hi, N, tier):
    """parent axis for an object spanning [lo,hi) of a chromosome of N bases"""
    out = ["none", "chrom", "chrom0"]
    if tier == "thorough":
        wins = list(worlds.windows(N))
    else:
        wins = [(0, N), (lo, hi)]
        if hi - lo >= 2:
            wins += [(lo + 1, N), (0, hi - 1)]
        if hi - lo >= 3:
            wins.append((lo + 1, hi - 1))
        if lo > 0:
            wins.append((0, lo))
        elif hi < N:
            wins.append((hi, N))
    seen = []
    for w in wins:
        if w not in seen:
            seen.append(w)
    return out + [["chunk", a, b] for a, b in seen] + ["chroms", "chromx", ["chunks", seen[0][0], seen[0][1]], ["chunks", seen[1][0], seen[1][1]]]


# ---------------------------------------------------------------------------------------------------------------------
# builders
# ---------------------------------------------------------------------------------------------------------------------
def build(spec, parent="__from_spec__"):
    """Build the library object of a spec.  Children of a collection get the same parent as the collection."""
    if parent == "__from_spec__":
        parent = mk_parent(spec.get("p", "none"), spec["N"])
    c = spec["c"]
    q = quals_dict(spec.get("q"))
    kw = meta(c, spec.get("m", "m0"))
    if c == "tx":
        return lib.mk_tx([tuple(b) for b in spec["ex"]], spec["st"], [tuple(b) for b in spec["cds"]] if spec.get("cds") else None,
                         spec.get("fr"), parent, qualifiers=q, **kw)
    if c == "feat":
        return lib.mk_feat([tuple(b) for b in spec["bl"]], spec["st"], parent, qualifiers=q, **kw)
    if c == "cds":
        return lib.mk_cds([tuple(b) for b in spec["bl"]], spec["st"], spec["fr"], parent, qualifiers=q, **kw)
    if c == "var":
        return VariantInterval(spec["s"], spec["e"], spec["alt"], spec["vt"], qualifiers=q, parent_or_seq_chunk_parent=parent, **kw)
    sub = lambda s: build(dict(s, N=spec["N"]), parent)  # noqa: E731
    if c == "gene":
        return GeneInterval([sub(t) for t in spec["tx"]], qualifiers=q, parent_or_seq_chunk_parent=parent, **kw)
    if c == "fc":
        return FeatureIntervalCollection([sub(t) for t in spec["ft"]], qualifiers=q, parent_or_seq_chunk_parent=parent, **kw)
    if c == "vc":
        return VariantIntervalCollection([sub(t) for t in spec["vs"]], qualifiers=q, parent_or_seq_chunk_parent=parent, **kw)
    if c == "ac":
        b = spec.get("bounds")
        return AnnotationCollection(
            feature_collections=[sub(t) for t in spec["fcs"]] or None,
            genes=[sub(t) for t in spec["genes"]] or None,
            variant_collections=[sub(t) for t in spec["vcs"]] or None,
            qualifiers=q,
            start=b[0] if b else None,
            end=b[1] if b else None,
            completely_within=spec.get("cw"),
            parent_or_seq_chunk_parent=parent,
            **kw,
        )
    raise KeyError(c)


CLASSES = {
    "tx": (TranscriptInterval, "TranscriptIntervalModel", "to_transcript_interval"),
    "feat": (FeatureInterval, "FeatureIntervalModel", "to_feature_interval"),
    "cds": (CDSInterval, None, None),
    "var": (VariantInterval, "VariantIntervalModel", "to_variant_interval"),
    "gene": (GeneInterval, "GeneIntervalModel", "to_gene_interval"),
    "fc": (FeatureIntervalCollection, "FeatureIntervalCollectionModel", "to_feature_collection"),
    "vc": (VariantIntervalCollection, "VariantIntervalCollectionModel", "to_variant_interval_collection"),
    "ac": (AnnotationCollection, "AnnotationCollectionModel", "to_annotation_collection"),
}


# ---------------------------------------------------------------------------------------------------------------------
# serialisation transitions (the implementation under exploration)
# ---------------------------------------------------------------------------------------------------------------------
def transitions_for(c):
    if c == "cds":
        return ["dict", "pickle"]  # there is no data model for a bare CDSInterval
    return ["dict", "model", "json", "pickle"]


def extra_legs(c):
    """single hops outside the chain alphabet"""
    return ["dictp", "dictcr", "livedump"] if c == "ac" else []


class ImportRewroteDictionary(Exception):
    """the exported dictionary is the serialised form: importing it must leave it as it was exported"""


def import_twice(from_dict, d, *args):
    """import one exported dictionary, make sure the import left it untouched, and hand back a SECOND import of the very
    same dictionary object (two objects imported from one dictionary are both the origin's equals)"""
    d0 = copy.deepcopy(d)
    from_dict(d, *args)
    if d != d0 or jn(d) != jn(d0):
        changed = sorted(k for k in set(d) | set(d0) if d.get(k, "<absent>") != d0.get(k, "<absent>"))
        raise ImportRewroteDictionary(f"keys changed by from_dict: {changed}")
    return from_dict(d, *args)


def apply_transition(t, c, obj, parent):
    """one serialise/deserialise hop; returns the successor object (raises what the library raises)"""
    cls, model_name, conv = CLASSES[c]
    if t == "dict":
        if c == "ac":  # the collection carries its own parent description
            return import_twice(AnnotationCollection.from_dict, obj.to_dict(export_parent=True))
        return import_twice(cls.from_dict, obj.to_dict(), parent)
    if t == "dictp":  # collection dictionary without the parent, parent handed over explicitly
        return import_twice(AnnotationCollection.from_dict, obj.to_dict(), parent)
    if t == "dictcr":  # chunk-relative dictionary WITH the parent: refused (as documented) or faithful
        return import_twice(AnnotationCollection.from_dict, obj.to_dict(chromosome_relative_coordinates=False, export_parent=True))
    if t == "pickle":
        return pickle.loads(pickle.dumps(obj))
    if t == "livedump":
        return live_dump_roundtrip(obj)
    model = getattr(MD, model_name)
    d = obj.to_dict(export_parent=True) if c == "ac" else obj.to_dict()
    m = model.Schema().load(d)
    if t == "json":
        text = json.dumps(model.Schema().dump(m))
        m = model.Schema().load(json.loads(text))
    elif t != "model":
        raise KeyError(t)
    if c == "ac":
        return getattr(m, conv)()
    return getattr(m, conv)(parent)


def live_dump_roundtrip(obj):
    """AnnotationCollectionModel.Schema().dump(<live AnnotationCollection>) -> JSON -> load -> collection
    (the use the changelog of 0.13 and tests/io/test_models.py::test_dump_annotation_collection describe)"""
    S = MD.AnnotationCollectionModel.Schema()
    text = json.dumps(S.dump(obj))
    return S.load(json.loads(text)).to_annotation_collection()


# ---------------------------------------------------------------------------------------------------------------------
# canonical forms
# ---------------------------------------------------------------------------------------------------------------------
def jn(x):
    """JSON-able normal form that keeps the Python type distinctions `==` can see"""
    if x is None or isinstance(x, (bool, int, str)):
        return x
    if isinstance(x, float):
        return ["float", repr(x)]
    if isinstance(x, UUID):
        return "UUID:" + str(x)
    if isinstance(x, dict):
        return {str(k): jn(v) for k, v in x.items()}
    if isinstance(x, list):
        return [jn(v) for v in x]
    if isinstance(x, tuple):
        return ["tuple"] + [jn(v) for v in x]
    if isinstance(x, (set, frozenset)):
        return ["set"] + sorted((jn(v) for v in x), key=repr)
    return [type(x).__name__, str(x)]


def canon_parent(p):
    out = []
    n = 0
    while p is not None and n < 8:
        loc = p.location
        out.append([
            p.id,
            None if p.sequence_type is None else str(p.sequence_type),
            None if loc is None else [[list(b) for b in lib.loc_blocks(loc)], lib.loc_strand(loc)],
            None if p.sequence is None else [str(p.sequence), p.sequence.alphabet.name],
        ])
        p = p.parent
        n += 1
    return out


def canon_loc(loc):
    if loc is None:
        return None
    if type(loc) is _EmptyLocation:
        return ["Empty"]
    return [type(loc).__name__, [list(b) for b in lib.loc_blocks(loc)], lib.loc_strand(loc), canon_parent(loc.parent)]


def _o(fn):
    try:
        return fn()
    except Exception as e:  # noqa
        return "EXC:" + type(e).__name__


def canon(obj):
    """what C08 can observe of an object: class, dictionary form, identifiers, coordinates, qualifiers, exported sequence,
    children"""
    cn = type(obj).__name__
    is_ac = isinstance(obj, AnnotationCollection)
    out = {"cls": cn}
    out["dict"] = _o(lambda: jn(obj.to_dict(export_parent=True) if is_ac else obj.to_dict()))
    out["guid"] = _o(lambda: jn(obj.guid))
    out["ids"] = _o(lambda: sorted(str(i) for i in obj.identifiers))
    out["span"] = _o(lambda: [obj.start, obj.end])
    out["bin"] = _o(lambda: obj.bin)
    out["chrom_loc"] = _o(lambda: canon_loc(obj.chromosome_location))
    out["chunk_loc"] = _o(lambda: canon_loc(obj.chunk_relative_location))
    out["quals"] = _o(lambda: {str(k): ["set" if isinstance(v, set) else type(v).__name__] + sorted(v) for k, v in obj.qualifiers.items()})
    out["has_seq"] = _o(lambda: obj.has_sequence)
    if isinstance(obj, TranscriptInterval):
        out["seq"] = _o(lambda: str(obj.get_spliced_sequence()))
        out["coding"] = _o(lambda: obj.is_coding)
        out["primary"] = _o(lambda: [obj.is_primary_tx, obj._is_primary_feature])
        out["cds"] = None if obj.cds is None else canon(obj.cds)
        out["cds_frames"] = _o(lambda: jn(obj._cds_frames))
    elif isinstance(obj, FeatureInterval):
        out["seq"] = _o(lambda: str(obj.get_spliced_sequence()))
        out["types"] = _o(lambda: jn(obj.feature_types))
        out["primary"] = _o(lambda: [obj.is_primary_feature, obj._is_primary_feature])
    elif isinstance(obj, CDSInterval):
        out["seq"] = _o(lambda: str(obj.extract_sequence()))
        out["frames"] = _o(lambda: [f.name for f in obj.frames])
        out["crf"] = _o(lambda: [f.name for f in obj.chunk_relative_frames])
    elif isinstance(obj, VariantInterval):
        out["seq"] = _o(lambda: [str(obj.sequence), obj.sequence.alphabet.name])
        out["ref"] = _o(lambda: str(obj.get_spliced_sequence()))
        out["vt"] = _o(lambda: [obj.variant_type, obj.phase_block])
    else:
        out["seq"] = _o(lambda: str(obj.get_reference_sequence()))
        out["children"] = _o(lambda: [canon(ch) for ch in obj.iter_children()])
        out["kid_guids"] = _o(lambda: sorted(str(g) for g in obj.children_guids))
        if isinstance(obj, GeneInterval):
            out["primary"] = _o(lambda: str(obj.get_primary_transcript().guid))
            out["gtype"] = _o(lambda: jn(obj.gene_type))
        elif isinstance(obj, FeatureIntervalCollection):
            out["primary"] = _o(lambda: str(obj.get_primary_feature().guid))
            out["types"] = _o(lambda: jn(obj.feature_types))
        elif is_ac:
            out["ac_seq"] = _o(lambda: None if obj.sequence is None else str(obj.sequence))
            out["cw"] = _o(lambda: obj.completely_within)
            out["name_id"] = _o(lambda: [obj.name, obj.id, obj.sequence_name, jn(obj.sequence_guid), obj.sequence_path])
            out["n"] = _o(lambda: [len(obj.genes), len(obj.feature_collections), len(obj.variant_collections)])
    return out


def diff(a, b, path="", out=None, cap=6, cls=None):
    """first few places at which two canonical forms differ: [path, origin value, successor value, class of the innermost
    object that contains the place]"""
    if out is None:
        out = []
    if len(out) >= cap:
        return out
    if type(a) is not type(b):
        out.append([path, _short(a), _short(b), cls])
    elif isinstance(a, dict):
        if isinstance(a.get("cls"), str) and a.get("cls") == b.get("cls"):
            cls = a["cls"]
        for k in sorted(set(a) | set(b)):
            if k not in a or k not in b:
                out.append([f"{path}/{k}", _short(a.get(k, "<absent>")), _short(b.get(k, "<absent>")), cls])
            else:
                diff(a[k], b[k], f"{path}/{k}", out, cap, cls)
            if len(out) >= cap:
                break
    elif isinstance(a, list):
        if len(a) != len(b):
            out.append([path, _short(a), _short(b), cls])
        else:
            for i, (x, y) in enumerate(zip(a, b)):
                diff(x, y, f"{path}/{i}", out, cap, cls)
                if len(out) >= cap:
                    break
    elif a != b:
        out.append([path, _short(a), _short(b), cls])
    return out


def _short(x):
    s = json.dumps(x, default=repr)
    return s if len(s) <= 160 else s[:157] + "..."


# ---------------------------------------------------------------------------------------------------------------------
# digest records (Part 2): everything that must not depend on the hash seed / process
# ---------------------------------------------------------------------------------------------------------------------
def guid_tree(obj):
    out = [str(obj.guid)]
    if isinstance(obj, TranscriptInterval):
        out.append(None if obj.cds is None else str(obj.cds.guid))
    elif hasattr(obj, "iter_children"):
        out.append([guid_tree(ch) for ch in obj.iter_children()])
    return out


def dict_text(obj, sort_keys=False):
    d = obj.to_dict(export_parent=True) if isinstance(obj, AnnotationCollection) else obj.to_dict()
    return json.dumps(jn(d), sort_keys=sort_keys)


def record(spec, full=False):
    """identifier record of one spec; `full` keeps the dictionary text instead of its md5"""
    try:
        obj = build(spec)
    except Exception as e:  # noqa
        return {"refused": type(e).__name__}
    rec = {"guids": _o(lambda: guid_tree(obj))}
    txt = _o(lambda: dict_text(obj))
    rec["dict"] = txt if full else hashlib.md5(txt.encode()).hexdigest()
    rec["qdigest"] = _o(lambda: str(digest_object(obj.qualifiers, q=obj.qualifiers, ids=obj.identifiers)))
    return rec


def digest_menu():
    """direct digest_object calls on sets / dicts of sets / nested dicts (values whose iteration order follows the hash seed)"""
    vals = ["x", "y", "z", "10", "9", "True", "2.5", "b", "a", "B"]
    out = []
    for n in range(0, 5):
        for comb in itertools.combinations(vals[:6], n):
            s = set(comb)
            out.append(["set", list(comb), str(digest_object(s))])
            out.append(["kwset", list(comb), str(digest_object(k=s))])
            out.append(["dictset", list(comb), str(digest_object({"q": s, "r": {"in": s}}, 1, "a"))])
    out.append(["frozen", vals, str(digest_object({"a": set(vals), "b": {"c": set(vals[::2])}}, set(vals[1::2]), x=set(vals)))])
    out.append(["uuids", [], str(digest_object({U(i) for i in range(1, 40)}))])
    return out


# ---------------------------------------------------------------------------------------------------------------------
# qualifier permutations (Part 2, insertion-order axis)
# ---------------------------------------------------------------------------------------------------------------------
def n_perms(ql):
    n = 1
    for i in range(2, len(ql) + 1):
        n *= i
    for k, v in ql:
        for i in range(2, len(v) + 1):
            n *= i
    return n


def qual_perms(ql):
    """ALL orders of key insertion x ALL orders of every value list"""
    for keyorder in itertools.permutations(range(len(ql))):
        val_axes = [list(itertools.permutations(ql[i][1])) for i in keyorder]
        for combo in itertools.product(*val_axes):
            yield [[ql[i][0], list(vs)] for i, vs in zip(keyorder, combo)]


def with_quals(spec, ql):
    """the spec with the qualifier list replaced at every level that carries qualifiers"""
    s = dict(spec)
    if "q" in s and s["q"] is not None:
        s["q"] = ql
    for key in ("tx", "ft", "vs", "genes", "fcs", "vcs"):
        if key in s:
            s[key] = [with_quals(k, ql) for k in s[key]]
    return s


def perm_record(item):
    """item = {"spec":..., "mod":[i,n]}: distinct (guid tree, sorted dictionary text) over the slice i of all permutations"""
    spec = item["spec"]
    i, n = item["mod"]
    base = spec["q"]
    seen = {}
    count = 0
    for idx, ql in enumerate(qual_perms(base)):
        if idx % n != i and idx != 0:
            continue
        count += 1
        try:
            obj = build(with_quals(spec, ql))
            key = json.dumps([guid_tree(obj), hashlib.md5(dict_text(obj, sort_keys=True).encode()).hexdigest()])
        except Exception as e:  # noqa
            key = "EXC:" + type(e).__name__
        if key not in seen:
            seen[key] = ql
    return {"count": count, "distinct": [[k, seen[k]] for k in sorted(seen)]}


# ---------------------------------------------------------------------------------------------------------------------
# single-field edits (Part 3)
# ---------------------------------------------------------------------------------------------------------------------
def _edit_blocks(blocks, N):
    """every block list that differs from `blocks` in exactly one coordinate by +-1 and is still an ascending list of
    non-empty, non-overlapping blocks inside [0,N]"""
    for i, (s, e) in enumerate(blocks):
        for which, d in (("s", -1), ("s", 1), ("e", -1), ("e", 1)):
            ns, ne = (s + d, e) if which == "s" else (s, e + d)
            if ns < 0 or ne > N or ns >= ne:
                continue
            if i > 0 and ns < blocks[i - 1][1]:
                continue
            if i + 1 < len(blocks) and ne > blocks[i + 1][0]:
                continue
            nb = [list(b) for b in blocks]
            nb[i] = [ns, ne]
            yield f"{which}{i}{d:+d}", nb


def leaf_edits(spec):
    """(name, edited spec) for every single-field edit of a leaf spec"""
    c, N = spec["c"], spec["N"]
    if c == "tx":
        for name, nb in _edit_blocks(spec["ex"], N):
            yield "exon-" + name, dict(spec, ex=nb)
        yield "strand", dict(spec, st={"+": "-", "-": "+"}[spec["st"]])
        if spec.get("cds"):
            for name, nb in _edit_blocks(spec["cds"], N):
                yield "cds-" + name, dict(spec, cds=nb)
            for i, f in enumerate(spec["fr"]):
                for g in (0, 1, 2):
                    if g != f:
                        fr = list(spec["fr"])
                        fr[i] = g
                        yield f"frame{i}={g}", dict(spec, fr=fr)
    elif c in ("feat", "cds"):
        for name, nb in _edit_blocks(spec["bl"], N):
            yield "block-" + name, dict(spec, bl=nb)
        if spec["st"] in "+-":
            yield "strand", dict(spec, st={"+": "-", "-": "+"}[spec["st"]])
        if c == "cds":
            for i, f in enumerate(spec["fr"]):
                for g in (0, 1, 2):
                    if g != f:
                        fr = list(spec["fr"])
                        fr[i] = g
                        yield f"frame{i}={g}", dict(spec, fr=fr)
    elif c == "var":
        for name, nb in _edit_blocks([[spec["s"], spec["e"]]], N):
            yield "var-" + name, dict(spec, s=nb[0][0], e=nb[0][1])


def edits(spec):
    """single-field edits of any spec: for a collection, every edit of every (grand)child, and its own bounds"""
    c = spec["c"]
    if c in ("tx", "feat", "cds", "var"):
        yield from leaf_edits(spec)
        return
    for key in ("tx", "ft", "vs", "genes", "fcs", "vcs"):
        if key not in spec:
            continue
        for i, kid in enumerate(spec[key]):
            for name, ek in edits(dict(kid, N=spec["N"])):
                ek = {k: v for k, v in ek.items() if k != "N"}
                kids = list(spec[key])
                kids[i] = ek
                yield f"{key}{i}.{name}", dict(spec, **{key: kids})
    if c == "ac" and spec.get("bounds"):
        for name, nb in _edit_blocks([spec["bounds"]], spec["N"]):
            yield "bounds-" + name, dict(spec, bounds=nb[0])


def has_explicit_guid(spec):
    if (spec["c"], spec.get("m", "m0")) in EXPLICIT_GUID:
        return True
    return False


# ---------------------------------------------------------------------------------------------------------------------
# the corpus
# ---------------------------------------------------------------------------------------------------------------------
TIERS = {
    # geom: full geometry families (plain context); ctx: few geometries x every context
    "quick": dict(Ng=5, kg=2, Nc=9, quals=["q0", "q3"], quals_leaf=["q0", "qe", "q2", "q3"], metas=["m0", "m1", "m2"], all_placements=False),
    "thorough": dict(Ng=6, kg=3, Nc=9, quals=["q0", "q2", "q3"], quals_leaf=["q0", "qe", "q1", "q2", "q3"], metas=["m0", "m1", "m2"], all_placements=True),
}


def tx_geoms(N, k, all_placements):
    """every exon layout x strand x CDS option: (exons, strand, cds blocks|None, frames|None)"""
    for exons in worlds.layouts(N, k, "disjoint"):
        ln = sum(e - s for s, e in exons)
        for st in "+-":
            yield exons, st, None, None
            if all_placements:
                pl = [(c0, c1, f0) for c0 in range(ln) for c1 in range(c0 + 1, ln + 1) for f0 in ((0, 1, 2) if (c0, c1) == (0, ln) else (0,))]
            else:
                pl = [(0, ln, f0) for f0 in (0, 1, 2)]
                if ln >= 3:
                    pl.append((1, ln - 1, 0))
            for c0, c1, f0 in pl:
                cb = F.cds_blocks_for(exons, st, c0, c1)
                fr = F.consistent_frames_plus_order(cb, st, f0)
                yield exons, st, cb, fr


def L(bl):
    return [list(b) for b in bl]


def tx_spec(exons, st, cb, fr, **kw):
    return dict(c="tx", ex=L(exons), st=st, cds=L(cb) if cb else None, fr=list(fr) if fr else None, **kw)


# pools for the context families (chromosome of Nc = 9 bases)
def _cds(exons, st, c0, c1, f0):
    cb = F.cds_blocks_for(exons, st, c0, c1)
    return cb, F.consistent_frames_plus_order(cb, st, f0)


def tx_pool():
    out = []
    for exons, st, cd in [
        (((1, 4), (5, 8)), "+", (1, 5, 0)),
        (((1, 8),), "-", None),
        (((2, 4), (4, 6)), "-", (0, 4, 1)),
        (((0, 2), (3, 5), (7, 9)), "+", (1, 5, 2)),
        (((3, 6),), "+", (0, 3, 2)),
        (((0, 9),), "-", (2, 8, 0)),
    ]:
        cb, fr = _cds(exons, st, *cd) if cd else (None, None)
        out.append(tx_spec(exons, st, cb, fr))
    return out


def feat_pool():
    return [
        dict(c="feat", bl=[[1, 3]], st="+"),
        dict(c="feat", bl=[[2, 4], [6, 8]], st="-"),
        dict(c="feat", bl=[[0, 9]], st="."),
        dict(c="feat", bl=[[0, 1], [1, 2], [8, 9]], st="+"),
    ]


def cds_pool():
    return [
        dict(c="cds", bl=[[1, 7]], st="+", fr=[1]),
        dict(c="cds", bl=[[0, 2], [4, 8]], st="-", fr=[2, 0]),
        dict(c="cds", bl=[[2, 4], [4, 5], [6, 9]], st="+", fr=[0, 2, 0]),
    ]


def var_pool():
    return [
        dict(c="var", s=2, e=3, alt="T", vt="SNV"),
        dict(c="var", s=4, e=6, alt="A", vt="deletion"),
        dict(c="var", s=7, e=8, alt="GTT", vt="insertion"),
        dict(c="var", s=0, e=9, alt="ACGTNACGT", vt="MNV"),
        dict(c="var", s=5, e=6, alt="", vt="deletion"),
    ]


def subsets(pool, kmax):
    for n in range(1, kmax + 1):
        yield from itertools.combinations(range(len(pool)), n)


# quick tier: (metadata, qualifier) profiles of the leaf context families (the thorough tier runs the full product)
QUICK_LEAF_CTX = {("m0", "q0"), ("m0", "qe"), ("m1", "q2"), ("m1", "q3"), ("m2", "q0"), ("m2", "q3")}


def _quick_skip_window(p, lo, hi, N):
    """quick tier, collections: drop the tight window [lo,hi) and the 3'-cutting window [0,hi-1)"""
    return p in (["chunk", lo, hi], ["chunk", 0, hi - 1]) and p != ["chunk", 0, N]


def _kid_metas(first_m, n):
    return first_m if n == 0 else ("m3" if first_m == "m1" else "m0")


def corpus(tier):
    """the whole world of a tier as a list of specs (deterministic order)"""
    T = TIERS[tier]
    thorough = tier == "thorough"
    out = []
    Ng, Nc = T["Ng"], T["Nc"]
    # ---- geometry families: every layout, one plain and one rich context ------------------------------------------
    for exons, st, cb, fr in tx_geoms(Ng, T["kg"], T["all_placements"]):
        for p, m, q in (("none", "m0", "q0"), ("chrom", "m1", "q2")):
            out.append(tx_spec(exons, st, cb, fr, N=Ng, p=p, m=m, q=Q[q], fam="geom"))
    for bl in worlds.layouts(Ng, T["kg"], "disjoint"):
        for st in "+-.":
            for p, m, q in (("none", "m0", "q0"), ("chrom", "m1", "q2")):
                out.append(dict(c="feat", bl=L(bl), st=st, N=Ng, p=p, m=m, q=Q[q], fam="geom"))
        for st in "+-":
            for frv in itertools.product((0, 1, 2), repeat=len(bl)):
                out.append(dict(c="cds", bl=L(bl), st=st, fr=list(frv), N=Ng, p="chrom", m="m0", q=Q["q0"], fam="geom"))
    for s in range(Ng):
        for e in range(s + 1, Ng + 1):
            for alt in ("", "A", "GT"):
                out.append(dict(c="var", s=s, e=e, alt=alt, vt="v", N=Ng, p="chrom", m="m0", q=Q["q0"], fam="geom"))
    # ---- context families: few geometries x every parent kind x metadata x qualifiers ------------------------------
    for pool in (tx_pool(), feat_pool(), cds_pool(), var_pool()):
        for base in pool:
            lo, hi = span_of(dict(base, N=Nc))
            for p in parent_kinds(lo, hi, Nc, tier):
                for m in T["metas"]:
                    for q in T["quals_leaf"]:
                        if not thorough and (m, q) not in QUICK_LEAF_CTX:
                            continue
                        out.append(dict(base, N=Nc, p=p, m=m, q=Q[q], fam="ctx"))
    # collections of one kind: 1-3 transcripts / 1-2 features / 1-2 variants; (first child metadata, qualifiers) tied
    txp, fp, vp = tx_pool(), feat_pool(), var_pool()
    kid_ctx = [("m0", "q0", "m0"), ("m1", "q3", "m1"), ("m0", "q3", "m2")] + ([("m1", "q2", "m0")] if thorough else [])
    for cname, key, pool, kmax in (("gene", "tx", txp if thorough else txp[:4], 3), ("fc", "ft", fp, 2), ("vc", "vs", vp, 2)):
        for comb in subsets(pool, kmax):
            if cname == "vc" and len(comb) == 2 and not (pool[comb[0]]["e"] <= pool[comb[1]]["s"] or pool[comb[1]]["e"] <= pool[comb[0]]["s"]):
                continue  # overlapping variants are refused by the collection (C19's business)
            for first_m, q, m in kid_ctx:
                kids = [dict(pool[j], m=_kid_metas(first_m, n), q=Q[q]) for n, j in enumerate(comb)]
                g = {"c": cname, key: kids, "N": Nc}
                lo, hi = span_of(g)
                for p in parent_kinds(lo, hi, Nc, tier):
                    if not thorough and _quick_skip_window(p, lo, hi, Nc):
                        continue
                    out.append(dict(g, p=p, m=m, q=Q[q], fam="ctx"))
    # annotation collections
    g1 = dict(c="gene", tx=[dict(txp[0], m="m1", q=Q["q2"]), dict(txp[1], m="m3", q=Q["q0"])], m="m1", q=Q["q3"])
    g2 = dict(c="gene", tx=[dict(txp[4], m="m0", q=Q["q0"])], m="m0", q=Q["q0"])
    g3 = dict(c="gene", tx=[dict(txp[3], m="m2", q=Q["q1"])], m="m2", q=Q["qe"])
    f1 = dict(c="fc", ft=[dict(fp[0], m="m1", q=Q["q2"]), dict(fp[1], m="m0", q=Q["q0"])], m="m1", q=Q["q1"])
    f2 = dict(c="fc", ft=[dict(fp[3], m="m0", q=Q["q0"])], m="m0", q=Q["q0"])
    v1 = dict(c="vc", vs=[dict(vp[0], m="m1", q=Q["q1"]), dict(vp[2], m="m0", q=Q["q0"])], m="m1", q=Q["q2"])
    v2 = dict(c="vc", vs=[dict(vp[1], m="m0", q=Q["q0"])], m="m0", q=Q["q0"])
    gene_sets = [[], [g1], [g2], [g1, g2], [g1, g2, g3]] if thorough else [[], [g1], [g1, g2]]
    fc_sets = [[], [f1], [f1, f2]] if thorough else [[], [f1]]
    vc_sets = [[], [v1], [v2]] if thorough else [[], [v1]]
    own_ctx = [("m0", "q0"), ("m1", "q3")] + ([("m2", "q2")] if thorough else [])
    for gs in gene_sets:
        for fs in fc_sets:
            for vs in vc_sets:
                base = dict(c="ac", genes=gs, fcs=fs, vcs=vs, N=Nc)
                lo, hi = span_of(base)
                tight = [[lo, hi]] if (gs or fs or vs) and [lo, hi] != [0, Nc] else []
                if thorough:
                    bc_axis = [(None, None), (None, False), ([0, Nc], None), ([0, Nc], True)] + [(b, cw) for b in tight for cw in (True, False)]
                else:
                    bc_axis = [(None, None), ([0, Nc], None)] + [(b, True) for b in tight]
                for bounds, cw in bc_axis:
                    a = dict(base, bounds=bounds, cw=cw)
                    blo, bhi = span_of(a)
                    for p in parent_kinds(blo, bhi, Nc, "quick"):
                        if not thorough and _quick_skip_window(p, blo, bhi, Nc):
                            continue  # quick: whole-chromosome, 5'-cutting, inner and disjoint windows only
                        if not thorough and bounds is not None and p in ("chrom0", ["chunk", 0, Nc]):
                            continue  # quick: explicit bounds on none / chromosome / cutting / disjoint windows
                        for m, q in own_ctx:
                            if not thorough and bounds is not None and m == "m0":
                                continue  # quick: the plain profile only with inferred bounds
                            out.append(dict(a, p=p, m=m, q=Q[q], fam="ctx"))
                if thorough:  # every chunk window for the plain collection
                    a = dict(base, bounds=None, cw=None)
                    done = parent_kinds(lo, hi, Nc, "quick")
                    for p in parent_kinds(lo, hi, Nc, "thorough"):
                        if p not in done:
                            out.append(dict(a, p=p, m="m1", q=Q["q3"], fam="ctx"))
    # ---- minus-strand chunk parents (family "mctx"): every class, rich and plain profile -----------------------------
    for pool in (tx_pool(), feat_pool(), cds_pool(), var_pool()):
        for base in pool:
            lo, hi = span_of(dict(base, N=Nc))
            for p in minus_windows(lo, hi, Nc, tier):
                for m, q in (("m1", "q3"), ("m0", "q0")):
                    out.append(dict(base, N=Nc, p=p, m=m, q=Q[q], fam="mctx"))
    for cname, key, pool, kmax in (("gene", "tx", txp[:4], 2), ("fc", "ft", fp[:3], 2), ("vc", "vs", vp[:3], 2)):
        for comb in subsets(pool, kmax):
            if cname == "vc" and len(comb) == 2 and not (pool[comb[0]]["e"] <= pool[comb[1]]["s"] or pool[comb[1]]["e"] <= pool[comb[0]]["s"]):
                continue
            kids = [dict(pool[j], m=_kid_metas("m1", n), q=Q["q3"]) for n, j in enumerate(comb)]
            g = {"c": cname, key: kids, "N": Nc}
            lo, hi = span_of(g)
            for p in minus_windows(lo, hi, Nc, "quick"):
                out.append(dict(g, p=p, m="m1", q=Q["q3"], fam="mctx"))
    for gs in gene_sets:
        for fs in fc_sets:
            for vs in vc_sets:
                if not (gs or fs):
                    continue
                base = dict(c="ac", genes=gs, fcs=fs, vcs=vs, N=Nc)
                lo, hi = span_of(base)
                for bounds, cw in ((None, None), ([0, Nc], True)):
                    a = dict(base, bounds=bounds, cw=cw)
                    for p in minus_windows(lo, hi, Nc, tier if bounds is None else "quick"):
                        out.append(dict(a, p=p, m="m1", q=Q["q3"], fam="mctx"))
    if not thorough:
        for spec in out:
            spec["d"] = quick_depth(spec)
    return out


def quick_depth(spec):
    """quick tier: chains of length 3 on a sub-family of every class (rich metadata + qualifier profile, in the contexts
    none / whole chromosome / chunk), chains of length <= 2 elsewhere (single hops for the parent-less copies of the geometry families and for collections
    with explicit bounds).  The thorough tier runs length 3 everywhere."""
    c, p = spec["c"], spec.get("p")
    if spec.get("fam") == "mctx":
        if c == "ac":
            return 1 if spec.get("bounds") else (3 if p[1:] == [0, spec["N"]] and len(children_specs(spec)) == 1 else 2)
        return 3 if p[1:] == [0, spec["N"]] and spec.get("m") == "m1" and c in ("tx", "feat", "cds", "var") else 2
    rich = spec.get("m") == "m1" and bool(spec.get("q")) and len(spec["q"]) >= 3
    if spec.get("fam") == "geom":
        # one deep object per class and strand: the single block [0,1) in the rich context
        blocks = spec.get("ex") or spec.get("bl") or [[spec.get("s"), spec.get("e")]]
        if blocks == [[0, 1]]:
            return 3
        return 2 if p != "none" else 1  # the plain (parent-less, qualifier-less) copy of every geometry: single hops
    if c in ("tx", "feat", "cds", "var"):
        return 3 if rich else 2
    wide = p in ("none", "chrom") or (isinstance(p, list) and p[1] == 0 and p[2] == spec["N"])
    if c == "ac":
        if spec.get("bounds"):
            return 1  # explicit bounds: single hops (every transition type once)
        return 3 if rich and wide and p != "chrom" else 2
    return 3 if rich and wide else 2


def perm_items(tier):
    """base objects whose qualifier insertion orders are permuted exhaustively"""
    Nc = TIERS[tier]["Nc"]
    txp, fp, cp, vp = tx_pool(), feat_pool(), cds_pool(), var_pool()
    profiles = ["q2", "q3"] + (["q4"] if tier == "thorough" else [])
    out = []
    for qn in profiles:
        q = Q[qn]
        leafs = [dict(txp[0], m="m1"), dict(txp[1], m="m0"), dict(fp[1], m="m1"), dict(cp[1], m="m1"), dict(vp[2], m="m1")]
        gene = dict(c="gene", tx=[dict(txp[0], m="m1", q=q), dict(txp[1], m="m0", q=q)], m="m1")
        fc = dict(c="fc", ft=[dict(fp[0], m="m1", q=q), dict(fp[1], m="m0", q=q)], m="m1")
        vc = dict(c="vc", vs=[dict(vp[0], m="m1", q=q), dict(vp[2], m="m0", q=q)], m="m1")
        ac = dict(c="ac", genes=[dict(gene, q=q)], fcs=[dict(fc, q=q)], vcs=[dict(vc, q=q)], bounds=None, cw=None, m="m1")
        if qn == "q4" or (qn == "q3" and tier == "quick"):
            bases, parents = (leafs if qn == "q4" else [leafs[0], leafs[2], leafs[4], ac]), ("none",)
        else:
            bases, parents = leafs + [gene, fc, vc, ac], ("none", "chrom")
        for base in bases:
            for p in parents:
                out.append(dict(base, N=Nc, p=p, q=copy.deepcopy(q), qn=qn))
    return out
