"""C08 helper: sub-process entry for the configuration sweep (one process per PYTHONHASHSEED value).

stdin : JSON {"specs": [spec...], "perms": [{"spec":..., "mod":[i,n]}...], "menu": bool, "full": bool}
stdout: JSON {"seed": <PYTHONHASHSEED>, "recs": [...], "perms": [...], "menu": [...]}

Launched by checks/c08.py as `/venv/bin/python -B checks/c08_sub.py` with the environment conventions of ./check
(sys.path and the compatibility layer through vlib.bootstrap.setup(), byte code neither read nor written under the repo).
"""
import json
import os
import sys
import warnings

HERE = os.path.dirname(os.path.dirname(os.path.abspath(__file__)))
sys.path.insert(0, HERE)

from vlib import bootstrap  # noqa: E402


def main():
    bootstrap.setup()
    warnings.simplefilter("ignore")
    from checks import c08_world as W

    req = json.load(sys.stdin)
    out = {"seed": os.environ.get("PYTHONHASHSEED"), "hash_probe": hash("c08-probe") & 0xFFFF}
    out["recs"] = [W.record(s, full=bool(req.get("full"))) for s in req.get("specs", [])]
    out["perms"] = [W.perm_record(it) for it in req.get("perms", [])]
    out["menu"] = W.digest_menu() if req.get("menu") else []
    sys.stdout.write(json.dumps(out))
    return 0


if __name__ == "__main__":
    sys.exit(main())
