"""C20 - gene and collection aggregates are the stated functions of their children."""
import collections as _collections

from vlib import lib
from vlib.model import frame as F
from vlib.model import loc as M
from vlib.runner import ShardResult

from checks import c20_model as MD
from checks import c20_world as W

from inscripta.biocantor.exc import BioCantorException, ValidationException, InvalidAnnotationError, NoncodingTranscriptError
from inscripta.biocantor.gene.biotype import Biotype
from inscripta.biocantor.gene.collections import AnnotationCollection
from inscripta.biocantor.gene.feature import FeatureInterval, FeatureIntervalCollection
from inscripta.biocantor.gene.gene import GeneInterval

PROPERTY = "C20"
TITLE = "Gene and collection aggregates are the stated functions of their children"
RULE = (
    "every GeneInterval / FeatureIntervalCollection with 1 child (every exon layout x strand x every contiguous CDS "
    "placement x flag None/False/True x {no parent, chromosome parent}), 2 children (every ordered pair of a layout "
    "world, unflagged; every ordered pair of a smaller one x every flag vector), 3 children (every ordered triple of a "
    "designed menu with engineered ties in CDS length and spliced length, both strands, coding and non-coding, x every "
    "flag vector x parent kinds none / chromosome / chunk with offset / parent attached by the aggregate only), genes "
    "without gene_type; every "
    "AnnotationCollection of <= 4 distinct members in every input order x {no parent, chromosome, chunk} x bounds "
    "arguments.  Each aggregate is compared with a pure-Python function of the child descriptions: span, is_coding, "
    "feature_types, primary member (identity), primary sequence/CDS/protein, merged transcript/feature/CDS as position "
    "sets, iteration order, len, is_empty, bounds.  Non-trivial = >= 2 children with mixed strands, mixed coding, "
    "overlapping/touching blocks, a flag that overrides the size order, or a tie decided by a later criterion."
)
ASSUMPTIONS = [
    "reference: checks/c20_model.py over child descriptions; member sequence values from the position / reading-frame "
    "models of vlib/model (CDS frames are those of one uninterrupted reading frame, start frame 0..2)",
    "merged features are compared as position sets (touching blocks of different children may stay unmerged); strand, "
    "identifiers and qualifiers of the merged feature are not part of the statement and are not compared",
    "members that start at the same position may be iterated in any relative order",
    "a non-coding primary transcript: get_primary_cds_sequence may answer None or refuse with NoncodingTranscriptError; "
    "get_primary_protein / get_primary_cds answer None (docstrings: 'if it exists')",
    "children get distinct identifiers (equal children would be refused as duplicate GUIDs, which the property does not speak about)",
    "annotation collections hold genes and feature collections only (variant collections: C13); explicit bounds lie inside the chunk",
    "an empty annotation collection without bounds or parent has no bounds: only len/is_empty are compared",
    "primary sequence/CDS/protein VALUES are compared with the model when the children were built on the sequence-bearing "
    "(chromosome or chunk) parent themselves; when only the aggregate receives the parent ('chrom-late') the accessors must "
    "return the member's own answer (the statement) and disagreement of the MEMBER with the model is only counted "
    "(counters 'late-parent:*'): on the unchanged tree a coding transcript adopted this way answers get_cds_sequence / "
    "get_protein_sequence with NullParentException although its spliced sequence is available (parent reset does not reach "
    "the CDS's cached chromosome location) - a C10/C06 matter, not an aggregate function",
]

NSH = 64
GENE_TYPES = {"protein_coding": Biotype.protein_coding, None: None}


def world_description(tier):
    w = W.WORLD[tier]
    return (
        f"genes: 1 child layouts N={w['Ns']} k<={w['ks']} all CDS placements; 2 children layouts N={w['Np']} k<={w['kp']} "
        f"(CDS menu) unflagged + N={w['Npf']} with every flag vector; 3 children: menu of {len(W.TX_MENU)} on N={W.N_MENU}; "
        f"feature collections: N={w['Nf']} k<={w['kf']} + menu of {len(W.FEAT_MENU)}; annotation collections: <=4 of "
        f"{len(W.ac_members())} members on N={W.AC_N}, every order, parents none/chromosome/chunk{W.AC_CHUNK}"
    )


def shards(tier, seed):
    return [{"tier": tier, "i": i} for i in range(NSH)]


# ---- helpers --------------------------------------------------------------------------------------------------------
def exc_str(o):
    return f"{o[1]}: {o[2]}"[:160]


def _jsonable(x):
    if isinstance(x, (set, frozenset)):
        return sorted(x)
    if isinstance(x, tuple):
        return list(x)
    return x


def feat_positions(f):
    """positions covered by a FeatureInterval in chromosome coordinates"""
    return M.S(tuple((b.start, b.end) for b in f.blocks))


def make_parent(pk, genome):
    if pk == "none":
        return None
    if pk in ("chrom", "chrom-late"):
        return lib.chrom_parent(genome)
    if pk[0] == "minus":
        # a chunk that sits on the MINUS strand of the chromosome: chunk-relative coordinates run against genomic ones
        from inscripta.biocantor.io.parser import seq_chunk_to_parent

        a, b = pk[1], pk[2]
        return seq_chunk_to_parent(F.splice(genome, list(range(b - 1, a - 1, -1)), "-"), "chrV", a, b, strand=lib.STRAND["-"])
    return lib.chunk_parent(genome, pk[0], pk[1])


def build_children(agg, children, cparent, tag=""):
    out = []
    for i, ch in enumerate(children):
        if agg == "gene":
            if ch["cds"] is not None:
                out.append(lib.mk_tx(MD.blocks(ch), ch["strand"], MD.cds_blocks(ch), MD.cds_frames(ch), cparent,
                                     is_primary_tx=ch["flag"], transcript_id=f"{tag}t{i}"))
            else:
                out.append(lib.mk_tx(MD.blocks(ch), ch["strand"], parent=cparent, is_primary_tx=ch["flag"], transcript_id=f"{tag}t{i}"))
        else:
            out.append(lib.mk_feat(MD.blocks(ch), ch["strand"], cparent, is_primary_feature=ch["flag"],
                                   feature_types=ch["types"], feature_id=f"{tag}f{i}"))
    return out


def build_aggregate(spec, parent, cparent, tag=""):
    kids = build_children(spec["agg"], spec["children"], cparent, tag)
    if spec["agg"] == "gene":
        return kids, GeneInterval(kids, gene_type=GENE_TYPES[spec.get("gene_type", "protein_coding")], gene_id=f"{tag}gene",
                                  parent_or_seq_chunk_parent=parent)
    # (the collection DECLARES a type of its own - as every collection read from GFF3 does - which none of its features
    # has: "a feature collection's types are the union of its features' types")
    return kids, FeatureIntervalCollection(kids, feature_collection_id=f"{tag}fc", feature_collection_type="declared_by_collection",
                                           parent_or_seq_chunk_parent=parent)


def input_class(spec):
    ch = spec["children"]
    strands = {c["strand"] for c in ch}
    cod_strands = {c["strand"] for c in ch if c.get("cds") is not None}
    return dict(
        agg=spec["agg"], n=len(ch), mixed=len(strands) > 1, cds_mixed=len(cod_strands) > 1,
        gene_type=spec.get("gene_type", "protein_coding") if spec["agg"] == "gene" else "n/a",
    )


# ---- genes / feature collections ----------------------------------------------------------------------------------------
def check_aggregate(res, spec):
    agg, N, pk = spec["agg"], spec["N"], spec["parent"]
    genome = W.GENOME[:N]
    children = spec["children"]
    cls = input_class(spec)
    parent = make_parent(pk if isinstance(pk, str) else tuple(pk), genome)
    on_parent = pk == "chrom" or not isinstance(pk, str)  # children built on the (chromosome / chunk) parent themselves
    cparent = parent if on_parent else None
    o = lib.outcome(build_aggregate, spec, parent, cparent)
    res.trans()
    pidx, crit = MD.primary(children)
    canon = (agg, repr(pk), spec.get("gene_type", "-"), tuple((tuple(map(tuple, c["exons"])), c["strand"], tuple(c["cds"]) if c.get("cds") else None,
                                                       c.get("f0", 0), c["flag"], tuple(c.get("types") or ())) for c in children))
    res.note(f"{agg}.primary", crit)
    if pidx == MD.REFUSE_FLAGS:
        if o[0] == "ok" or not isinstance(o[2], ValidationException):
            res.deviation("construct", spec, "accepted" if o[0] == "ok" else exc_str(o), "ValidationException", sig=f"{agg}-several-flags-not-refused", **cls)
        return
    if o[0] != "ok":
        res.deviation("construct", spec, exc_str(o), "aggregate", sig=f"{agg}-construct-raises-{o[1]}", **cls)
        return
    kids, A = o[1]
    res.state(canon)
    SU = MD.union_positions(children)
    n = len(children)
    if n > 1 and (cls["mixed"] or crit in ("flag", "len", "index") or len(SU) < sum(MD.spliced_len(c) for c in children)
                  or (agg == "gene" and len({MD.is_coding(c) for c in children}) > 1)):
        res.nontriv(canon)

    def dev(op, observed, expected, what, **kw):
        res.deviation(op, spec, observed, expected, sig=f"{agg}-{op}-{what}", **cls, **kw)

    # span
    res.trans()
    exp = MD.span(children)
    got = lib.outcome(lambda: (A.start, A.end))
    if got[0] != "ok" or tuple(got[1]) != exp:
        dev("span", list(got[1]) if got[0] == "ok" else exc_str(got), list(exp), "wrong")
    # is_coding
    res.trans()
    exp = MD.any_coding(children) if agg == "gene" else False
    got = lib.outcome(lambda: A.is_coding)
    res.note(f"{agg}.is_coding", str(exp))
    if got[0] != "ok" or got[1] is not exp:
        dev("is_coding", got[1] if got[0] == "ok" else exc_str(got), exp, "wrong")
    # feature types
    if agg == "fc":
        res.trans()
        exp = MD.types_union(children)
        got = lib.outcome(lambda: set(A.feature_types))
        res.note("fc.feature_types", str(len(exp)))
        if got[0] != "ok" or got[1] != exp:
            dev("feature_types", sorted(got[1]) if got[0] == "ok" else exc_str(got), sorted(exp), "wrong")
    # the children are inputs, not scratch space: building the aggregate leaves each child's own answers alone, and a
    # second owner of the same child objects (what query_by_guids / a sub-collection is) sees the functions of ITS children
    res.trans(n)
    for i, (k, ch) in enumerate(zip(kids, children)):
        got = lib.outcome(lambda: (k.start, k.end, set(k.feature_types) if agg == "fc" else None))
        exp = (MD.blocks(ch)[0][0], MD.blocks(ch)[-1][1], set(ch.get("types") or []) if agg == "fc" else None)
        if got[0] != "ok" or got[1] != exp:
            dev("child-after-construction", [_jsonable(x) for x in got[1]] if got[0] == "ok" else exc_str(got), [_jsonable(x) for x in exp], "changed", child=i)
    if n > 1:
        for owner, sub in (("first-only", [0]), ("reversed", list(range(n - 1, -1, -1)))):
            res.trans()
            sub_children = [children[i] for i in sub]
            if MD.primary(sub_children)[0] == MD.REFUSE_FLAGS:
                continue
            o2 = lib.outcome(lambda: (GeneInterval([kids[i] for i in sub], gene_type=GENE_TYPES[spec.get("gene_type", "protein_coding")], gene_id="second",
                                                   parent_or_seq_chunk_parent=parent) if agg == "gene" else
                                      FeatureIntervalCollection([kids[i] for i in sub], feature_collection_id="second", parent_or_seq_chunk_parent=parent)))
            if o2[0] != "ok":
                dev("second-owner", exc_str(o2), "aggregate", f"{owner}-raises-{o2[1]}")
                continue
            B = o2[1]
            exp2 = (MD.span(sub_children), MD.types_union(sub_children) if agg == "fc" else None, sub.index(sub[MD.primary(sub_children)[0]]))
            prim = B.primary_transcript if agg == "gene" else B.primary_feature
            got2 = ((B.start, B.end), set(B.feature_types) if agg == "fc" else None, next((j for j, i in enumerate(sub) if kids[i] is prim), -1))
            res.note(f"{agg}.second-owner", owner)
            if got2 != exp2:
                dev("second-owner", [_jsonable(x) for x in got2], [_jsonable(x) for x in exp2], owner + "-wrong")
    # primary member: identity
    if agg == "gene":
        accessors = (("primary_transcript", lambda: A.primary_transcript), ("get_primary_transcript", lambda: A.get_primary_transcript()),
                     ("get_primary_feature", lambda: A.get_primary_feature()))
    else:
        accessors = (("primary_feature", lambda: A.primary_feature), ("get_primary_feature", lambda: A.get_primary_feature()))
    for name, fn in accessors:
        res.trans()
        got = lib.outcome(fn)
        gi = None
        if got[0] == "ok":
            gi = next((i for i, k in enumerate(kids) if k is got[1]), "not-a-child")
        if got[0] != "ok" or gi != pidx:
            dev(name, gi if got[0] == "ok" else exc_str(got), pidx, f"wrong-by-{crit}", criterion=crit)
    P = kids[pidx]
    pch = children[pidx]
    has_seq = pk != "none"
    # primary member: values
    if agg == "gene":
        res.trans()
        got = lib.outcome(A.get_primary_cds)
        if got[0] != "ok" or got[1] is not P.cds or (got[1] is None) != (not MD.is_coding(pch)):
            dev("get_primary_cds", "other object" if got[0] == "ok" else exc_str(got), "the primary transcript's CDS", "wrong")
        vals = (
            ("get_primary_transcript_sequence", P.get_spliced_sequence, MD.spliced_sequence, False),
            ("get_primary_feature_sequence", P.get_spliced_sequence, MD.spliced_sequence, False),
            ("get_primary_cds_sequence", P.get_cds_sequence, MD.cds_sequence, True),
            ("get_primary_protein", P.get_protein_sequence, MD.protein, True),
        )
    else:
        vals = (("get_primary_feature_sequence", P.get_spliced_sequence, MD.spliced_sequence, False),)
    for name, member_fn, model_fn, needs_cds in vals:
        res.trans()
        got = lib.outcome(getattr(A, name))
        mem = lib.outcome(member_fn)
        if needs_cds and not MD.is_coding(pch):
            res.note(f"{agg}.{name}", "noncoding")
            ok = (got[0] == "ok" and got[1] is None) or (got[0] == "exc" and name == "get_primary_cds_sequence" and isinstance(got[2], NoncodingTranscriptError))
            if not ok:
                dev(name, str(got[1]) if got[0] == "ok" else exc_str(got), "None (or NoncodingTranscriptError)", "noncoding-wrong")
            continue
        if not has_seq:
            # no sequence anywhere: the member refuses, the aggregate must answer like the member
            res.note(f"{agg}.{name}", "no-sequence")
            if (got[0], got[1] if got[0] == "exc" else str(got[1])) != (mem[0], mem[1] if mem[0] == "exc" else str(mem[1])):
                dev(name, str(got[1]) if got[0] == "ok" else exc_str(got), str(mem[1]) if mem[0] == "ok" else exc_str(mem), "differs-from-member")
            elif got[0] == "exc" and not isinstance(got[2], (BioCantorException, ValueError)):
                dev(name, exc_str(got), "documented refusal", f"raises-{got[1]}")
            continue
        exp = model_fn(genome, pch)
        res.note(f"{agg}.{name}", "value" if exp else "empty-value")
        g_out = (got[0], got[1] if got[0] == "exc" else (None if got[1] is None else str(got[1])))
        m_out = (mem[0], mem[1] if mem[0] == "exc" else (None if mem[1] is None else str(mem[1])))
        if g_out != m_out:
            # the statement, literally: the accessor returns the primary member's own value
            dev(name, str(got[1]) if got[0] == "ok" else exc_str(got), str(mem[1]) if mem[0] == "ok" else exc_str(mem), "differs-from-member")
        elif g_out != ("ok", exp):
            if on_parent:
                # children built on the sequence-bearing parent (the documented construction): the value must be the model's
                dev(name, str(got[1]) if got[0] == "ok" else exc_str(got), exp, "wrong-value")
            else:
                # parent attached by the aggregate only: the MEMBER itself answers differently from the model (its CDS keeps
                # the parent-less cached chromosome location).  The aggregate returns the member's value faithfully, so this
                # is not a C20 matter; it is counted and reported (see ASSUMPTIONS).
                res.extra[f"late-parent:{name}:member-{'raises-' + got[1] if got[0] == 'exc' else 'value'}-differs-from-model"] += 1
    # merged features
    CU = MD.cds_union_positions(children) if agg == "gene" else None
    merged = (("get_merged_transcript", SU, cls["mixed"]), ("get_merged_feature", SU, cls["mixed"]), ("get_merged_cds", CU, cls["cds_mixed"])) if agg == "gene" else (
        ("get_merged_feature", SU, cls["mixed"]),)
    for name, expS, mixed in merged:
        res.trans()
        got = lib.outcome(getattr(A, name))
        tags = ("-mixed-strand" if mixed else "") + ("-no-gene-type" if cls["gene_type"] is None else "")
        if expS is None:
            res.note(f"{agg}.{name}", "no-cds")
            if got[0] == "ok" or not isinstance(got[2], BioCantorException):
                dev(name, "a feature" if got[0] == "ok" else exc_str(got), "NoncodingTranscriptError", "no-cds-not-refused")
            continue
        res.note(f"{agg}.{name}", "mixed" if mixed else "same-strand")
        if got[0] != "ok":
            res.deviation(name, spec, exc_str(got), M.runs(expS), sig=f"merged{tags}-raises-{got[1]}", **dict(cls, mixed=mixed), merged_op=name)
            continue
        F = got[1]
        if not isinstance(F, FeatureInterval):
            dev(name, type(F).__name__, "FeatureInterval", "wrong-type")
            continue
        gotS = lib.outcome(feat_positions, F)
        if gotS[0] != "ok" or gotS[1] != expS:
            dev(name, list(M.runs(gotS[1])) if gotS[0] == "ok" else exc_str(gotS), list(M.runs(expS)), "positions" + tags)
        elif expS and (F.start, F.end) != (min(expS), max(expS) + 1):
            dev(name, [F.start, F.end], [min(expS), max(expS) + 1], "merged-span")


# ---- annotation collections ---------------------------------------------------------------------------------------------
def check_collection(res, spec):
    N, pk, bounds, members = spec["N"], spec["parent"], spec["bounds"], spec["members"]
    genome = W.GENOME[:N]
    parent = make_parent(pk if isinstance(pk, str) else tuple(pk), genome)
    built = []
    for mi, m in enumerate(members):
        sub = dict(agg=m["agg"], children=m["children"], gene_type="protein_coding")
        built.append(build_aggregate(sub, parent, parent, tag=f"m{mi}")[1])
    genes = [b for b, m in zip(built, members) if m["agg"] == "gene"]
    fcs = [b for b, m in zip(built, members) if m["agg"] == "fc"]
    cls = dict(agg="ac", n=len(members), parent=pk if isinstance(pk, str) else ("minus-chunk" if pk[0] == "minus" else "chunk"))
    res.trans()
    vspans = [tuple(v) for v in spec.get("variants", [])]
    vcs = None
    if vspans:
        from inscripta.biocantor.gene.variants import VariantInterval, VariantIntervalCollection

        vcs = [VariantIntervalCollection([VariantInterval(a_, b_, "A" * (b_ - a_), "SNV", variant_id=f"v{a_}", parent_or_seq_chunk_parent=parent)],
                                         variant_collection_id=f"vc{a_}", parent_or_seq_chunk_parent=parent) for a_, b_ in vspans]
    o = lib.outcome(lambda: AnnotationCollection(feature_collections=fcs, genes=genes, variant_collections=vcs, start=bounds[0], end=bounds[1], parent_or_seq_chunk_parent=parent))
    exp_b = MD.collection_bounds(members + [{"span": v} for v in vspans], bounds, pk, N)
    canon = ("ac", repr(pk), tuple(bounds), tuple(m["key"] for m in members), tuple(vspans))

    def dev(op, observed, expected, what):
        res.deviation(op, spec, observed, expected, sig=f"ac-{op}-{what}", **cls)

    if exp_b == "InvalidAnnotationError":
        res.note("ac.bounds", "one-sided")
        if o[0] == "ok" or not isinstance(o[2], InvalidAnnotationError):
            dev("construct", "accepted" if o[0] == "ok" else exc_str(o), "InvalidAnnotationError", "one-sided-bounds-not-refused")
        return
    if o[0] != "ok":
        dev("construct", exc_str(o), "collection", f"raises-{o[1]}")
        return
    A = o[1]
    res.state(canon)
    starts = [MD.member_span(m)[0] for m in members] + [v[0] for v in vspans]
    built = built + list(vcs or [])
    if len(starts) >= 2 and (starts != sorted(starts) or len(set(starts)) < len(starts)):
        res.nontriv(canon)
    # len / is_empty
    res.trans(2)
    got = lib.outcome(lambda: (len(A), A.is_empty))
    res.note("ac.is_empty", str(not members))
    if got[0] != "ok" or got[1] != (len(members), not members) or type(got[1][1]) is not bool:
        dev("len", list(got[1]) if got[0] == "ok" else exc_str(got), [len(members), not members], "wrong")
    # iteration: every member once, by start
    for name, fn in (("iter", lambda: list(A)), ("iter_children", lambda: list(A.iter_children())), ("children", lambda: list(A.children))):
        res.trans()
        got = lib.outcome(fn)
        if got[0] != "ok":
            dev(name, exc_str(got), "members by start", f"raises-{got[1]}")
            continue
        idx = [next((i for i, b in enumerate(built) if b is x), -1) for x in got[1]]
        if sorted(idx) != list(range(len(built))):
            dev(name, idx, "every member exactly once", "members")
            continue
        st = [starts[i] for i in idx]
        res.note("ac.order", "sorted-input" if starts == sorted(starts) else "reordered")
        if st != sorted(st):
            dev(name, st, sorted(st), "not-by-start")
        elif [x.start for x in got[1]] != st:
            dev(name, [x.start for x in got[1]], st, "member-start")
    # bounds
    res.trans()
    if exp_b is None:
        res.note("ac.bounds", "none")
        return
    res.note("ac.bounds", "explicit" if bounds[0] is not None else ("from-parent" if pk != "none" else "from-members"))
    got = lib.outcome(lambda: (A.start, A.end))
    if got[0] != "ok" or tuple(got[1]) != tuple(exp_b):
        dev("bounds", list(got[1]) if got[0] == "ok" else exc_str(got), list(exp_b), "wrong")


def check_case(res, spec):
    if spec["agg"] == "ac":
        check_collection(res, spec)
    else:
        check_aggregate(res, spec)


def run_shard(shard):
    res = ShardResult()
    parts = _collections.Counter()
    for part, spec in W.all_cases(shard["tier"], shard["i"], NSH):
        parts[part] += 1
        check_case(res, spec)
        if parts[part] == 1 and part in ("gene-triple", "ac"):
            res.sample(spec, cap=2)
    for k, v in parts.items():
        res.extra["cases:" + k] += v
    return res


def replay(case):
    res = ShardResult()
    check_case(res, case)
    return res.deviations


# ---- known-finding matchers ---------------------------------------------------------------------------------------------------
def _m_mixed_strand(d):
    """merged transcript/feature/CDS of an aggregate whose blocks to be merged lie on both strands: ValueError from
    Location.union ('Strands do not match')"""
    return (
        d["sig"].startswith("merged-mixed-strand")
        and d.get("mixed") is True
        and d["op"] in ("get_merged_transcript", "get_merged_feature", "get_merged_cds")
        and isinstance(d["observed"], str)
        and d["observed"].startswith("ValueError: Strands do not match")
    )


# (a second defect seen while building - GeneInterval without gene_type: merged accessors raised AttributeError - was
# repaired in /repo as "fixed: property=C19 f6cc941"; the 'gene-notype' leg of the world now guards that repair, and a
# recurrence would be reported with sig 'merged-no-gene-type-raises-AttributeError'.)
MATCHERS = {}  # (mixed-strand merge was repaired by a fix: commit; a recurrence is a VIOLATION)
