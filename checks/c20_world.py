"""C20 worlds: complete enumerators of child structures, aggregates and annotation collections.  Nothing samples.

All specs are JSON-able dicts (see c20_model for the child description).  Every enumerator is a deterministic
generator; shards take every NSH-th element.
"""
import itertools

from vlib import worlds

# designed chromosome: ACGT only (so that the default strict translation is defined for every codon), rich in start
# and stop codons on both strands, no period shorter than its length
GENOME = "ATGGCCTAAATGCATTGACGTA"

# ---- tiers --------------------------------------------------------------------------------------------------------
WORLD = {
    # singles: every structure; pairs: every ordered pair of a layout world (no flags) + every flag vector on a smaller
    # one; triples: every ordered triple of a designed menu x every flag vector
    "quick": dict(Ns=6, ks=3, Np=4, kp=2, Npf=3, kpf=2, Nf=5, kf=2),
    "thorough": dict(Ns=8, ks=3, Np=5, kp=2, Npf=4, kpf=2, Nf=6, kf=3),
}
N_MENU = 12  # chromosome length of the menu world (triples, gene_type=None leg); menu coordinates are shifted by SHIFT
SHIFT = 1  # so that the structures lie in [1, 11) = MENU_CHUNK, a chunk with a non-zero offset
MENU_CHUNK = (1, 11)
FLAGS = (None, False, True)


def placements(ln, mode):
    """CDS placements [c0,c1) in transcript coordinates for a transcript of spliced length ln"""
    if mode == "all":
        return [(c0, c1) for c0 in range(ln) for c1 in range(c0 + 1, ln + 1)]
    cand = [(0, ln), (1, ln), (0, ln - 1), (0, 3), (ln - 3, ln), (1, 2)]
    out = []
    for c0, c1 in cand:
        if 0 <= c0 < c1 <= ln and (c0, c1) not in out:
            out.append((c0, c1))
    return out


def tx_structs(N, k, mode):
    """every transcript structure of the world: (exons, strand, cds|None)"""
    out = []
    for ex in worlds.layouts(N, k, "disjoint"):
        ln = sum(e - s for s, e in ex)
        for strand in "+-":
            out.append((ex, strand, None))
            for cds in placements(ln, mode):
                out.append((ex, strand, cds))
    return out


def feat_structs(N, k):
    return [(ex, strand) for ex in worlds.layouts(N, k, "disjoint") for strand in "+-"]


def tx_child(st, flag=None, f0=0):
    ex, strand, cds = st
    return {"exons": [list(b) for b in ex], "strand": strand, "cds": list(cds) if cds else None, "f0": f0, "flag": flag}


def feat_child(st, flag=None, types=None):
    ex, strand = st
    return {"exons": [list(b) for b in ex], "strand": strand, "types": types, "flag": flag}


def flag_vectors(n, values=(None, True)):
    return list(itertools.product(values, repeat=n))


# ---- designed menus (coordinates before SHIFT, in [0, 10)): engineered ties -----------------------------------------------------------------------
# (exons, strand, cds, f0); spliced length / CDS length in the comment
TX_MENU = [
    (((1, 4), (6, 9)), "+", (0, 6), 0),  # len 6, cds 6
    (((0, 2), (3, 5), (7, 9)), "+", (0, 6), 0),  # len 6, cds 6   tie in both with #0 (3 exons, touching nothing)
    (((1, 9),), "+", (1, 7), 0),  # len 8, cds 6   tie in CDS, longer spliced
    (((2, 5), (5, 8)), "-", (0, 6), 0),  # len 6, cds 6   minus strand, adjacent exons, tie in both with #0
    (((0, 10),), "-", None, 0),  # len 10, non-coding (longest spliced, loses to any CDS)
    (((0, 4), (6, 10)), "+", None, 0),  # len 8, non-coding, tie in spliced length with #2
    (((3, 7),), "-", (0, 3), 0),  # len 4, cds 3
    (((1, 4), (6, 9)), "-", (1, 6), 1),  # len 6, cds 5, start frame 1, same exons as #0 on the other strand
    (((4, 6),), "+", (0, 2), 2),  # len 2, cds 2 (no codon), start frame 2
    (((0, 4), (5, 9)), "-", None, 0),  # len 8, non-coding, minus: tie with #5
]
# (exons, strand, types)
FEAT_MENU = [
    (((1, 4), (6, 9)), "+", ["promoter"]),  # len 6
    (((0, 2), (3, 5), (7, 9)), "+", ["promoter", "tfbs"]),  # len 6 tie
    (((1, 9),), "-", None),  # len 8, no type
    (((2, 5), (5, 8)), "-", ["tfbs"]),  # len 6 tie, adjacent blocks
    (((0, 10),), "+", []),  # len 10, empty type list
    (((0, 4), (6, 10)), "-", ["enhancer"]),  # len 8 tie with #2
    (((3, 7),), "+", ["promoter"]),  # len 4
    (((4, 6),), "-", ["a b", "tfbs"]),  # len 2
]


# zero-length members (a valid, unusual input: an insertion site / a feature reduced to a point).  Their truth value is
# False (len 0), so any `if member:` shortcut in the aggregate treats them as absent.
ZERO_TX = [(((5, 5),), "+", None, 0), (((0, 0),), "-", None, 0)]
ZERO_FEAT = [(((5, 5),), "+", ["point"]), (((10, 10),), "-", None)]


def _shift(ex):
    return tuple((s + SHIFT, e + SHIFT) for s, e in ex)


def menu_tx(i, flag=None):
    ex, strand, cds, f0 = TX_MENU[i]
    return tx_child((_shift(ex), strand, cds), flag, f0)


def menu_feat(i, flag=None):
    ex, strand, types = FEAT_MENU[i]
    return feat_child((_shift(ex), strand), flag, types)


def zero_tx(i, flag=None):
    ex, strand, cds, f0 = ZERO_TX[i]
    return tx_child((_shift(ex), strand, cds), flag, f0)


def zero_feat(i, flag=None):
    ex, strand, types = ZERO_FEAT[i]
    return feat_child((_shift(ex), strand), flag, types)


def zero_arrangements(n_menu, n_zero, tier):
    """every aggregate of 2..3 children that contains a zero-length member: (list of ('z', i) | ('m', j)) x flag vector"""
    M = range(n_menu)
    for z in range(n_zero):
        others = [[("z", z2)] for z2 in range(n_zero) if z2 != z] + [[("m", a)] for a in M]
        others += [[("m", a), ("m", b)] for a in M for b in (M if tier == "thorough" else range(0, n_menu, 3))]
        for rest in others:
            for pos in range(len(rest) + 1):
                kids = rest[:pos] + [("z", z)] + rest[pos:]
                for fv in flag_vectors(len(kids)):
                    yield kids, fv


# ---- aggregates -------------------------------------------------------------------------------------------------------
def gene_spec(N, children, parent="chrom", gene_type="protein_coding"):
    return {"agg": "gene", "N": N, "parent": parent, "gene_type": gene_type, "children": children}


def fc_spec(N, children, parent="chrom"):
    return {"agg": "fc", "N": N, "parent": parent, "children": children}


def gene_cases(tier, pick=lambda: True):
    """yield (part, spec) for every gene of the tier (pick() is asked once per case, before its spec is built)"""
    w = WORLD[tier]
    # 1 child: every structure, every flag value, every parent kind
    for st in tx_structs(w["Ns"], w["ks"], "all"):
        for fl in FLAGS:
            for pk in ("none", "chrom"):
                if pick():
                    yield "single", gene_spec(w["Ns"], [tx_child(st, fl)], pk)
    # 2 children, unflagged: every ordered pair of the layout world
    S = tx_structs(w["Np"], w["kp"], "menu")
    for a in S:
        for b in S:
            if pick():
                yield "pair", gene_spec(w["Np"], [tx_child(a), tx_child(b)], "chrom")
    # 2 children x every flag vector with at least one flag
    S = tx_structs(w["Npf"], w["kpf"], "menu")
    for a in S:
        for b in S:
            for fa, fb in flag_vectors(2):
                if fa is None and fb is None:
                    continue  # unflagged pairs: 'pair'; the value False: 'single' and 'menupair'
                if pick():
                    yield "pairflag", gene_spec(w["Npf"], [tx_child(a, fa), tx_child(b, fb)], "chrom")
    # 3 children: every ordered triple of the menu x every flag vector; parent kinds on the unflagged ones
    M = range(len(TX_MENU)) if tier == "thorough" else range(8)
    for i, j, k in itertools.product(M, repeat=3):
        for fv in flag_vectors(3):
            pks = ("chrom", "none", "chrom-late", list(MENU_CHUNK)) if not any(fv) else ("chrom",)
            for pk in pks:
                if pick():
                    yield "triple", gene_spec(N_MENU, [menu_tx(i, fv[0]), menu_tx(j, fv[1]), menu_tx(k, fv[2])], pk)
    # 1..2 children of the menu without a gene type (constructor default), all parent kinds
    for n in (1, 2):
        for idx in itertools.product(range(len(TX_MENU)), repeat=n):
            for pk in ("chrom", "none", list(MENU_CHUNK)):
                if pick():
                    yield "notype", gene_spec(N_MENU, [menu_tx(i) for i in idx], pk, None)
    # 2 children of the menu, late parent, every flag vector incl. False
    for i, j in itertools.product(range(len(TX_MENU)), repeat=2):
        for fa, fb in flag_vectors(2, FLAGS):
            if pick():
                yield "menupair", gene_spec(N_MENU, [menu_tx(i, fa), menu_tx(j, fb)], "chrom-late")
    # aggregates with a zero-length member in every position x every flag vector
    for kids, fv in zero_arrangements(len(TX_MENU), len(ZERO_TX), tier):
        for pk in ("chrom", "none"):
            if pick():
                yield "zerolen", gene_spec(N_MENU, [(zero_tx if k == "z" else menu_tx)(i, f) for (k, i), f in zip(kids, fv)], pk)


    # MANY children (a short-cut over the children list needs more than three): the menu cycled from every rotation, no flag /
    # one flag at the first, a middle, the last position / two flags; identical structures tie in CDS length and in length
    for k in MANY_K[tier]:
        for rot in range(len(TX_MENU)):
            idxs = [(rot + i) % len(TX_MENU) for i in range(k)]
            for fv in many_flag_vectors(k):
                for pk in ("chrom", "none"):
                    if pick():
                        yield "many", gene_spec(N_MENU, [menu_tx(i, f) for i, f in zip(idxs, fv)], pk)


MANY_K = {"quick": (5, 9, 20), "thorough": (4, 5, 6, 7, 9, 13, 20, 33)}


def many_flag_vectors(k):
    out = [tuple([None] * k)]
    for p_ in (0, k // 2, k - 1):
        out.append(tuple(True if i == p_ else None for i in range(k)))
    out.append(tuple(True if i in (1, k - 2) else None for i in range(k)))
    return out


def fc_cases(tier, pick=lambda: True):
    w = WORLD[tier]
    S = feat_structs(w["Nf"], w["kf"])
    TY = (None, ["promoter"], ["tfbs", "promoter"])
    for st in S:
        for fl in FLAGS:
            for ty in TY:
                for pk in ("none", "chrom"):
                    if pick():
                        yield "single", fc_spec(w["Nf"], [feat_child(st, fl, ty)], pk)
    for a in S:
        for b in S:
            for fa, fb in flag_vectors(2):
                if pick():
                    yield "pair", fc_spec(w["Nf"], [feat_child(a, fa, ["tfbs"]), feat_child(b, fb, ["promoter"] if fa else None)], "chrom")
    M = range(len(FEAT_MENU))
    for i, j, k in itertools.product(M, repeat=3):
        for fv in flag_vectors(3):
            pks = ("chrom", "none", "chrom-late", list(MENU_CHUNK)) if not any(fv) else ("chrom",)
            for pk in pks:
                if pick():
                    yield "triple", fc_spec(N_MENU, [menu_feat(i, fv[0]), menu_feat(j, fv[1]), menu_feat(k, fv[2])], pk)
    for i, j in itertools.product(M, repeat=2):
        for fa, fb in flag_vectors(2, FLAGS):
            if pick():
                yield "menupair", fc_spec(N_MENU, [menu_feat(i, fa), menu_feat(j, fb)], "chrom-late")
    for kids, fv in zero_arrangements(len(FEAT_MENU), len(ZERO_FEAT), tier):
        for pk in ("chrom", "none"):
            if pick():
                yield "zerolen", fc_spec(N_MENU, [(zero_feat if k == "z" else menu_feat)(i, f) for (k, i), f in zip(kids, fv)], pk)


    for k in MANY_K[tier]:
        for rot in range(len(FEAT_MENU)):
            idxs = [(rot + i) % len(FEAT_MENU) for i in range(k)]
            for fv in many_flag_vectors(k):
                for pk in ("chrom", "none"):
                    if pick():
                        yield "many", fc_spec(N_MENU, [menu_feat(i, f) for i, f in zip(idxs, fv)], pk)


# ---- annotation collections -----------------------------------------------------------------------------------------------
AC_N = 11
AC_CHUNK = (1, 10)
AC_GRID = (1, 3, 6, 8, 9)
AC_VARIANTS = ((2, 3), (5, 7), (9, 10))  # spans of single-variant collections


def ac_members():
    """member descriptors: every span over the grid as a gene and as a feature collection (equal starts, equal spans,
    nesting and disjointness all occur); longer spans get two children"""
    out = []
    for i, j in itertools.combinations(range(len(AC_GRID)), 2):
        s, e = AC_GRID[i], AC_GRID[j]
        if e - s >= 5:
            ex2 = ((s, s + 2), (e - 2, e))
            g = [tx_child((ex2, "+", (0, 3))), tx_child((((s + 1, e),), "-", None))]
            f = [feat_child((ex2, "-"), None, ["tfbs"]), feat_child((((s, e - 1),), "+"), None, None)]
        else:
            g = [tx_child((((s, e),), "+" if (i + j) % 2 else "-", (0, e - s) if (e - s) >= 3 else None))]
            f = [feat_child((((s, e),), "-" if (i + j) % 2 else "+"), None, ["promoter"])]
        out.append({"agg": "gene", "key": f"g{s}-{e}", "children": g})
        out.append({"agg": "fc", "key": f"f{s}-{e}", "children": f})
    return out


P4_Q = ["g1-6", "f1-9", "g3-8", "f3-6", "g1-3", "f6-9"]
P4_T = P4_Q + ["g6-8", "f1-6", "g8-9"]
P3_Q = P4_T + ["f3-9"]


def ac_cases(tier, pick=lambda: True):
    """every selection of <= 4 distinct members in every input order (as the two constructor lists see it), x parent kind
    x bounds argument.  Selections of <= 2 (thorough: <= 3) members range over all 20 descriptors, larger ones over
    the sub-menus P3_Q / P4_Q / P4_T (equal starts, equal spans, nesting, disjoint)."""
    mem = ac_members()
    by_key = {m["key"]: i for i, m in enumerate(mem)}
    every = list(range(len(mem)))
    if tier == "thorough":
        pools = {0: every, 1: every, 2: every, 3: every, 4: [by_key[k] for k in P4_T]}
    else:
        pools = {0: every, 1: every, 2: every, 3: [by_key[k] for k in P3_Q], 4: [by_key[k] for k in P4_Q]}
    seen = set()
    for n in range(0, 5):
        for sel in itertools.permutations(pools[n], n):
            genes = tuple(m for m in sel if mem[m]["agg"] == "gene")
            fcs = tuple(m for m in sel if mem[m]["agg"] == "fc")
            if (genes, fcs) in seen:
                continue
            seen.add((genes, fcs))
            members = [mem[m] for m in genes + fcs]
            lo = min((min(c["exons"][0][0] for c in m["children"]) for m in members), default=2)
            hi = max((max(c["exons"][-1][1] for c in m["children"]) for m in members), default=5)
            blist = [(None, None), (0, AC_N), (lo, hi)]
            if n <= 1:
                blist += [(lo, None), (None, hi), (0, None), (None, 0)]
            for pk in ("none", "chrom", list(AC_CHUNK), ["minus"] + list(AC_CHUNK)):
                for b in blist:
                    if b[0] is not None and b[1] is not None and isinstance(pk, list) and (b[0] < pk[-2] or b[1] > pk[-1]):
                        continue  # explicit bounds outside the chunk: no documented meaning
                    if pick():
                        yield "ac", {"agg": "ac", "N": AC_N, "parent": pk, "bounds": list(b), "members": members}
                    # variant collections among the members (every input order of two or three of them): part of the iteration
                    # by start like any other member
                    if n <= 2 and b == (None, None) and pk in ("none", "chrom"):
                        for r in (1, 2, 3):
                            for vs in itertools.permutations(AC_VARIANTS, r):
                                if pick():
                                    yield "ac", {"agg": "ac", "N": AC_N, "parent": pk, "bounds": list(b), "members": members, "variants": [list(v) for v in vs]}


def ac_many_cases(tier, pick=lambda: True):
    """annotation collections holding ALL 20 member descriptors (and the first 9 / 13), in four input orders"""
    mem = ac_members()
    for n in (9, 13, len(mem)):
        base = list(range(n))
        for order in (base, base[::-1], base[7:] + base[:7], base[::2] + base[1::2]):
            genes = [mem[m] for m in order if mem[m]["agg"] == "gene"]
            fcs = [mem[m] for m in order if mem[m]["agg"] == "fc"]
            for pk in ("none", "chrom", list(AC_CHUNK)):
                if pick():
                    yield "ac", {"agg": "ac", "N": AC_N, "parent": pk, "bounds": [None, None], "members": genes + fcs, "variants": [list(v) for v in AC_VARIANTS[::-1]]}


class Pick:
    """shard selector: true for every n-th case, counted over the whole enumeration"""

    def __init__(self, i=0, n=1):
        self.i, self.n, self.k = i, n, -1

    def __call__(self):
        self.k += 1
        return self.k % self.n == self.i


def all_cases(tier, i=0, n=1):
    """the whole world of the tier (n=1) or its i-th of n interleaved shards"""
    pick = Pick(i, n)
    for part, spec in gene_cases(tier, pick):
        yield "gene-" + part, spec
    for part, spec in fc_cases(tier, pick):
        yield "fc-" + part, spec
    yield from ac_cases(tier, pick)
    yield from ac_many_cases(tier, pick)
