"""C01 - Location <-> parent coordinate maps are exact, mutually inverse and strand-aware.

E1 closed small-world search on the real implementation; oracle = position-list model P(L) (vlib/model/loc.py).
"""
import itertools

from vlib import lib, worlds
from vlib.model import loc as M
from vlib.runner import ShardResult

from inscripta.biocantor.exc import (
    InvalidPositionException,
    LocationOverlapException,
    ParentException,
    BioCantorException,
    EmptyLocationException,
)
from inscripta.biocantor.location.location_impl import SingleInterval, CompoundInterval, _EmptyLocation
from inscripta.biocantor.location.strand import Strand
from inscripta.biocantor.parent import Parent
from inscripta.biocantor.gene.feature import FeatureInterval

PROPERTY = "C01"
TITLE = "Location <-> parent coordinate maps are exact, mutually inverse and strand-aware"
RULE = (
    "every block layout of the world (disjoint incl. adjacent, +zero-length blocks, +overlapping blocks) x both "
    "strands x parent kinds; for each: every relative position in [-1,len+1], every parent position in [-1,N+1], "
    "every (a,b,strand) sub-interval incl. malformed ones, every ordered pair (L,Q) for the relative-location form, "
    "and the FeatureInterval wrappers. A case is non-trivial when the location has >=2 blocks, or is on the minus "
    "strand, or the query touches a block boundary; distinct = distinct (layout,strand,op,args)."
)
ASSUMPTIONS = [
    "reference model: python lists of positions (vlib/model/loc.py)",
    "worlds bounded: see coverage.world; beyond them only the small-scope argument of DESIGN section 1",
    "blocks sharing a start coordinate may be walked in either order (no documentation fixes it)",
]

WORLD = {
    "quick": dict(N=6, k=3, N_over=5, N_pairs=5, k_pairs=2, N_feat=6),
    "thorough": dict(N=9, k=9, N_over=7, N_pairs=7, k_pairs=3, N_feat=8),
}
NSHARD = 32


def world_description(tier):
    w = WORLD[tier]
    return (
        f"unary: disjoint layouts N={w['N']} k<={w['k']}, +empty/+overlap layouts N={w['N_over']} k<=3, both strands, "
        f"3 parent kinds; pairs: all ordered pairs of disjoint(+empty k<=2) layouts N={w['N_pairs']} k<={w['k_pairs']} "
        f"x strands x optimize_blocks; wrappers: FeatureInterval on disjoint layouts N={w['N_feat']} k<=3; scale family: "
        f"{len(list(worlds.scale_layouts(tier)))} layouts with k in {worlds.SCALE_K[tier]} blocks (lengths/gaps cycling through "
        f"{3 if tier == 'quick' else 5}x{3 if tier == 'quick' else 5} patterns, every phase) x strands x parent kinds: every "
        f"position, every sub-interval with both ends within 1 of a block boundary (k<=8) / on a block boundary (k>8); the same "
        f"layouts (k<=6) at offsets {worlds.BIG_OFFSETS} on sequence-less parents; single-interval and shifted-twin queries "
        f"against every scale layout for the relative-location form; huge: locations of {[h[0] for h in HUGE]} blocks (beyond the "
        f"interpreter's recursion limit), both strands: point maps and sub-intervals on a ladder of positions"
    )


def shards(tier, seed):
    out = []
    for part in ("unary", "pairs", "feat", "scale"):
        for i in range(NSHARD):
            out.append({"tier": tier, "part": part, "i": i})
    for i in range(len(HUGE) * 2):
        out.append({"tier": tier, "part": "huge", "i": i})
    return out


GENOME = "ACGTNRYKMSWBDHVacgtnrykmswbdhv"
# locations with more blocks than the interpreter's default recursion limit (1000): (number of blocks, block length, gap)
HUGE = ((1100, 1, 1), (2500, 2, 0), (1001, 1, 3))


def _parents(N):
    return {
        "none": None,
        "id": Parent(id="chrV", sequence_type="chromosome"),
        "seq": lib.seq_parent(worlds.designed_genome(N, GENOME)),
    }


def _unary_layouts(tier):
    w = WORLD[tier]
    for bl in worlds.layouts(w["N"], w["k"], "disjoint"):
        yield "disjoint", w["N"], bl
    for bl in worlds.layouts(w["N_over"], 3, "empty"):
        yield "empty", w["N_over"], bl
    for bl in worlds.layouts(w["N_over"], 3, "overlap"):
        yield "overlap", w["N_over"], bl


def run_shard(shard):
    res = ShardResult()
    tier, part, i = shard["tier"], shard["part"], shard["i"]
    if part == "unary":
        for idx, (mode, N, bl) in enumerate(_unary_layouts(tier)):
            if idx % NSHARD != i:
                continue
            for strand in "+-":
                pkinds = ("none", "id", "seq") if mode == "disjoint" else ("none", "seq")
                for pk in pkinds:
                    check_unary(res, mode, N, bl, strand, pk)
    elif part == "pairs":
        w = WORLD[tier]
        N = w["N_pairs"]
        lays = [("disjoint", b) for b in worlds.layouts(N, w["k_pairs"], "disjoint")]
        lays += [("empty", b) for b in worlds.layouts(N, 2, "empty")]
        idx = 0
        for (m1, b1) in lays:
            for s1 in "+-":
                idx += 1
                if idx % NSHARD != i:
                    continue
                for (m2, b2) in lays:
                    for s2 in "+-":
                        check_pair(res, N, b1, s1, b2, s2)
        # queries with overlapping blocks against every disjoint reference location
        ovl = [b for b in worlds.layouts(N, 2, "overlap") if all(s < e for s, e in b)]
        idx = 0
        for b1 in worlds.layouts(N, w["k_pairs"], "disjoint"):
            for s1 in "+-":
                idx += 1
                if idx % NSHARD != i:
                    continue
                for b2 in ovl:
                    for s2 in "+-":
                        check_pair_overlapping_query(res, N, b1, s1, b2, s2)
        # parent mismatch menu on a few layouts (every combination of parent kinds)
        if i == 0:
            check_pair_parents(res, N)
    elif part == "feat":
        w = WORLD[tier]
        N = w["N_feat"]
        for idx, bl in enumerate(worlds.layouts(N, 3, "disjoint")):
            if idx % NSHARD != i:
                continue
            for strand in "+-":
                check_feature_wrappers(res, N, bl, strand)
    elif part == "huge":
        k, ln_, gap = HUGE[i // 2]
        check_huge(res, k, ln_, gap, "+-"[i % 2])
    elif part == "scale":
        for idx, (k, bl) in enumerate(worlds.scale_layouts(tier)):
            if idx % NSHARD != i:
                continue
            N = bl[-1][1] + 2
            for strand in "+-":
                for pk in ("none", "seq"):
                    check_unary(res, "scale", N, bl, strand, pk)
                check_scale_pairs(res, N, bl, strand)
            if k <= 6:
                for off in worlds.BIG_OFFSETS:
                    sh = tuple((s + off, e + off) for s, e in bl)
                    for strand in "+-":
                        check_unary(res, "scale-big", sh[-1][1] + 2, sh, strand, "id")
    return res


def _case(kind, **kw):
    d = {"kind": kind}
    d.update(kw)
    return d


def build(mode, N, bl, strand, pk):
    if pk == "seq":
        par = lib.seq_parent(worlds.designed_genome(N, GENOME))
    elif pk == "id":
        par = Parent(id="chrV", sequence_type="chromosome")
    else:
        par = None
    return lib.mk_loc(bl, strand, par)


def check_unary(res, mode, N, bl, strand, pk, only=None):
    """all unary questions on one location; `only` restricts to one op for replay"""
    base = dict(mode=mode, N=N, blocks=[list(b) for b in bl], strand=strand, parent=pk)
    scale = mode.startswith("scale")
    L = build(mode, N, bl, strand, pk)
    sorted_bl = M.sort_blocks(bl, strand)
    res.state(("loc", sorted_bl, strand, pk))
    ln = sum(e - s for s, e in bl)
    multi = len(bl) > 1 or strand == "-"
    # ---- item 1: relative -> parent ------------------------------------------------------------
    P_impl = []
    p_ok = True
    for r in range(-1, ln + 2):
        o = lib.outcome(L.relative_to_parent_pos, r)
        res.trans()
        if 0 <= r < ln:
            if o[0] != "ok":
                res.deviation("relative_to_parent_pos", _case("unary", op="r2p", r=r, **base), o[1], "position", sig="r2p-raises-inside")
                p_ok = False
                P_impl.append(None)
            else:
                P_impl.append(o[1])
            res.note("r2p", "inside")
        else:
            res.note("r2p", "outside")
            if o[0] == "ok":
                res.deviation("relative_to_parent_pos", _case("unary", op="r2p", r=r, **base), o[1], "raise", sig="r2p-accepts-outside")
            elif not isinstance(o[2], (ValueError, InvalidPositionException, EmptyLocationException)):
                res.deviation("relative_to_parent_pos", _case("unary", op="r2p", r=r, **base), o[1], "ValueError/InvalidPositionException", sig="r2p-wrong-exc")
        if multi:
            res.nontriv(("r2p", sorted_bl, strand, r))
    adm = M.admissible_P(bl, strand)
    if p_ok and P_impl not in adm:
        res.deviation(
            "relative_to_parent_pos",
            _case("unary", op="r2p", **base),
            P_impl,
            adm[0],
            sig="r2p-wrong-map" + ("" if mode != "overlap" else "-overlap"),
        )
    Pref = P_impl if (p_ok and P_impl in adm) else adm[0]
    # ---- item 2: parent -> relative -------------------------------------------------------------
    Sset = set(Pref)
    for p in (range(-1, N + 2) if not scale else range(bl[0][0] - 2, bl[-1][1] + 3)):
        o = lib.outcome(L.parent_to_relative_pos, p)
        res.trans()
        if p in Sset:
            exp = Pref.index(p)
            res.note("p2r", "inside")
            if o[0] != "ok" or o[1] != exp:
                res.deviation("parent_to_relative_pos", _case("unary", op="p2r", p=p, **base), o[1], exp, sig="p2r-wrong")
        else:
            res.note("p2r", "outside")
            if o[0] == "ok":
                res.deviation("parent_to_relative_pos", _case("unary", op="p2r", p=p, **base), o[1], "InvalidPositionException", sig="p2r-accepts-outside")
            elif not isinstance(o[2], InvalidPositionException):
                res.deviation("parent_to_relative_pos", _case("unary", op="p2r", p=p, **base), o[1], "InvalidPositionException", sig="p2r-wrong-exc")
        if multi or any(p in (s, e - 1, e, s - 1) for s, e in bl):
            res.nontriv(("p2r", sorted_bl, strand, p))
    # ---- item 3: relative interval -> parent location ---------------------------------------------
    exp_parent = lib.parent_chain(L.parent)
    ab = range(-1, ln + 2)
    if scale:
        # larger layouts: both ends within 1 of a block boundary (k <= 8) or on a block boundary (k > 8), plus malformed
        ab = [-1] + worlds.boundary_points(bl, around=1 if len(bl) <= 8 else 0) + [ln + 1]
    for a in ab:
        for b in ab:
            for rho in "+-":
                o = lib.outcome(L.relative_interval_to_parent_location, a, b, lib.STRAND[rho])
                res.trans()
                case = _case("unary", op="ri2p", a=a, b=b, rho=rho, **base)
                valid = 0 <= a <= b <= ln
                if not valid:
                    res.note("ri2p", "malformed")
                    if o[0] == "ok":
                        res.deviation("relative_interval_to_parent_location", case, lib.canon_loc(o[1]), "raise", sig="ri2p-accepts-malformed")
                    elif not isinstance(o[2], (ValueError, InvalidPositionException)):
                        res.deviation("relative_interval_to_parent_location", case, o[1], "ValueError/InvalidPositionException", sig="ri2p-wrong-exc")
                    continue
                if a == b:
                    res.note("ri2p", "zero-length")
                    if o[0] == "ok":
                        R = o[1]
                        if len(R) != 0:
                            res.deviation("relative_interval_to_parent_location", case, lib.canon_loc(R), "zero-length", sig="ri2p-zero-nonzero")
                        elif type(R) is not _EmptyLocation and not (min(s for s, e in bl) <= R.start <= max(e for s, e in bl)):
                            res.deviation("relative_interval_to_parent_location", case, lib.canon_loc(R), "zero-length inside span", sig="ri2p-zero-outside")
                        elif type(R) is not _EmptyLocation and lib.loc_strand(R) != M.strand_rel(strand, rho):
                            # an empty sub-interval that is answered with a placed zero-length location still carries the composed strand
                            res.deviation("relative_interval_to_parent_location", case, lib.loc_strand(R), M.strand_rel(strand, rho), sig="ri2p-zero-strand")
                    elif not isinstance(o[2], (ValueError, BioCantorException)):
                        res.deviation("relative_interval_to_parent_location", case, o[1], "zero-length or documented exception", sig="ri2p-zero-internal-error")
                    continue
                res.note("ri2p", "proper")
                res.nontriv(("ri2p", sorted_bl, strand, a, b, rho))
                E = Pref[a:b] if rho == "+" else list(reversed(Pref[a:b]))
                exp_strand = M.strand_rel(strand, rho)
                if o[0] != "ok":
                    res.deviation("relative_interval_to_parent_location", case, o[1], E, sig="ri2p-raises")
                    continue
                R = o[1]
                probs = lib.check_wellformed(R)
                if probs:
                    res.deviation("relative_interval_to_parent_location", case, probs, "well-formed", sig="ri2p-illformed")
                    continue
                O = M.P(lib.loc_blocks(R), lib.loc_strand(R))
                if lib.loc_strand(R) != exp_strand:
                    res.deviation("relative_interval_to_parent_location", case, lib.loc_strand(R), exp_strand, sig="ri2p-strand")
                elif O != E:
                    if mode == "overlap" and sorted(O) == sorted(E):
                        res.deviation(
                            "relative_interval_to_parent_location", case, O, E, sig="ri2p-overlap-order",
                            representable=_representable(E, exp_strand),
                        )
                    else:
                        res.deviation("relative_interval_to_parent_location", case, O, E, sig="ri2p-positions")
                elif lib.parent_chain(R.parent) != exp_parent or (R.parent is not None and R.parent.location is not None and lib.loc_blocks(R.parent.location) != lib.loc_blocks(R)):
                    res.deviation("relative_interval_to_parent_location", case, lib.parent_chain(R.parent), exp_parent, sig="ri2p-parent")
                elif mode != "overlap" and not lib.is_normalised(R):
                    res.deviation("relative_interval_to_parent_location", case, lib.canon_loc(R), "normalised", sig="ri2p-not-normalised")
                else:
                    res.state(("loc", lib.loc_blocks(R), lib.loc_strand(R), pk))
    # ---- derived states: reverse / reverse_strand keep the map consistent --------------------------
    o = lib.outcome(L.reverse_strand)
    res.trans()
    if o[0] != "ok" or M.S(lib.loc_blocks(o[1])) != set(Pref) or lib.loc_strand(o[1]) != M.strand_rev(strand) or len(o[1]) != ln:
        res.deviation("reverse_strand", _case("unary", op="revstrand", **base), lib.canon_loc(o[1]) if o[0] == "ok" else o[1], "same blocks, opposite strand", sig="reverse_strand")
    elif mode != "overlap":
        O = M.P(lib.loc_blocks(o[1]), lib.loc_strand(o[1]))
        if O != list(reversed(Pref)):
            res.deviation("reverse_strand", _case("unary", op="revstrand", **base), O, list(reversed(Pref)), sig="reverse_strand-order")
    o = lib.outcome(L.reverse)
    res.trans()
    if o[0] == "ok" and (mode == "disjoint" or scale):
        # reverse() reflects the blocks about the span and flips the strand: relative structure is preserved
        R = o[1]
        lo, hi = min(s for s, e in bl), max(e for s, e in bl)
        if type(L) is SingleInterval:
            expb = tuple(bl)
        else:
            expb = tuple(sorted((lo + hi - e, lo + hi - s) for s, e in bl))
        if lib.loc_blocks(R) != expb or lib.loc_strand(R) != M.strand_rev(strand):
            res.deviation("reverse", _case("unary", op="reverse", **base), lib.canon_loc(R), [expb, M.strand_rev(strand)], sig="reverse")
    elif o[0] != "ok" and mode != "overlap":
        # (nested overlapping blocks: .end is the end of the last block, reflect() may leave the sequence; no
        # property speaks of reverse() there)
        res.deviation("reverse", _case("unary", op="reverse", **base), o[1], "location", sig="reverse-raises")
    # the maps are functions of the location: the same questions after the sequence was extracted (twice) and the blocks were
    # listed - extraction and block listing walk the structures the maps use
    if pk == "seq" and strand != "." and ln:
        for nth in (1, 2):  # (after one extraction, and after a second one)
            lib.outcome(lambda: (str(L.extract_sequence()), [(b_.start, b_.end) for b_ in L.blocks]))
            again_r = [lib.outcome(L.relative_to_parent_pos, r)[1] for r in range(ln)]
            again_p = [lib.outcome(L.parent_to_relative_pos, p)[1] for p in Pref]
            res.trans(2 * ln)
            if again_r != Pref or again_p != [Pref.index(p) for p in Pref]:
                res.deviation("relative_to_parent_pos", _case("unary", op="maps-after-extract", nth=nth, **base), [again_r, again_p], [Pref, [Pref.index(p) for p in Pref]], sig="maps-after-extract")
                break
    res.sample({"layout": [list(b) for b in bl], "strand": strand, "mode": mode, "parent": pk, "P": Pref})


def _representable(E, strand):
    bl = M.blocks_from_positions_in_order(E, strand)
    return M.P(M.sort_blocks(bl, strand), strand) == list(E)


def check_pair_overlapping_query(res, N, b1, s1, b2, s2):
    """the QUERY has overlapping blocks (frameshift-style): the relative location must keep every duplicated base (same
    multiset as the point-wise map); the order of overlapping blocks is the C01-overlap-order representation limit"""
    L = lib.mk_loc(b1, s1)
    Q = lib.mk_loc(b2, s2)
    PL = M.P(M.sort_blocks(b1, s1), s1)
    SL = set(PL)
    E = [p for p in M.P(M.sort_blocks(b2, s2), s2) if p in SL]
    base = dict(N=N, L=[list(b) for b in b1], Ls=s1, Q=[list(b) for b in b2], Qs=s2)
    for opt in (True, False):
        o = lib.outcome(L.parent_to_relative_location, Q, optimize_blocks=opt)
        res.trans()
        case = _case("pairovl", opt=opt, **base)
        if not E:
            continue
        res.nontriv(("lrt-ovl", tuple(b1), s1, tuple(b2), s2, opt))
        res.note("lrt", "overlapping-query")
        if o[0] != "ok":
            res.deviation("location_relative_to", case, o[1], sorted(E), sig="lrt-ovl-raises")
            continue
        R = o[1]
        rb = lib.loc_blocks(R)
        if any(s < 0 or e > len(PL) or s > e for s, e in rb):
            res.deviation("location_relative_to", case, lib.canon_loc(R), "inside [0,len)", sig="lrt-ovl-out-of-range")
            continue
        O = [PL[i] for i in M.P(rb, lib.loc_strand(R))]
        if sorted(O) != sorted(E) or lib.loc_strand(R) != M.strand_rel(s2, s1):
            res.deviation("location_relative_to", case, sorted(O), sorted(E), sig="lrt-ovl-multiset")


def check_pair(res, N, b1, s1, b2, s2, pk="none"):
    """L = (b1,s1) is the reference location; Q = (b2,s2) is the query; Q relative to L."""
    par = _parents(N)[pk]
    L = lib.mk_loc(b1, s1, par)
    Q = lib.mk_loc(b2, s2, par)
    PL = M.P(M.sort_blocks(b1, s1), s1)
    PQ = M.P(M.sort_blocks(b2, s2), s2)
    SL = set(PL)
    E = [p for p in PQ if p in SL]
    exp_strand = M.strand_rel(s2, s1)
    base = dict(N=N, L=[list(b) for b in b1], Ls=s1, Q=[list(b) for b in b2], Qs=s2, parent=pk)
    for opt in (True, False):
        for form in ("lrt", "p2rl"):
            if form == "lrt":
                o = lib.outcome(Q.location_relative_to, L, optimize_blocks=opt)
            else:
                o = lib.outcome(L.parent_to_relative_location, Q, optimize_blocks=opt)
            res.trans()
            case = _case("pair", form=form, opt=opt, **base)
            if not E:
                res.note("lrt", "disjoint")
                if o[0] == "ok":
                    if len(o[1]) != 0:
                        res.deviation("location_relative_to", case, lib.canon_loc(o[1]), "LocationOverlapException", sig="lrt-accepts-disjoint")
                elif not isinstance(o[2], (LocationOverlapException, EmptyLocationException)):
                    res.deviation("location_relative_to", case, o[1], "LocationOverlapException", sig="lrt-wrong-exc")
                continue
            res.note("lrt", "overlap")
            res.nontriv(("lrt", tuple(b1), s1, tuple(b2), s2, opt, form))
            if o[0] != "ok":
                res.deviation("location_relative_to", case, o[1], E, sig="lrt-raises")
                continue
            R = o[1]
            rb = lib.loc_blocks(R)
            if any(s < 0 or e > len(PL) or s > e for s, e in rb):
                res.deviation("location_relative_to", case, lib.canon_loc(R), "inside [0,len)", sig="lrt-out-of-range")
                continue
            rel = M.P(rb, lib.loc_strand(R))
            O = [PL[i] for i in rel]
            if lib.loc_strand(R) != exp_strand:
                res.deviation("location_relative_to", case, lib.loc_strand(R), exp_strand, sig="lrt-strand")
            elif O != E:
                res.deviation("location_relative_to", case, O, E, sig="lrt-positions")
            elif opt and not lib.is_normalised(R):
                res.deviation("location_relative_to", case, lib.canon_loc(R), "normalised", sig="lrt-not-normalised")
            else:
                res.state(("rel", rb, lib.loc_strand(R)))


def check_huge(res, k, ln_, gap, strand):
    """a location with more than a thousand blocks: the point maps at a ladder of positions over the whole length, and
    sub-intervals (also zero-length ones) anchored there"""
    bl = tuple((j * (ln_ + gap), j * (ln_ + gap) + ln_) for j in range(k))
    L = lib.mk_loc(bl, strand)
    Pm = M.P(bl, strand)
    ln = len(Pm)
    base = dict(kind="huge", k=k, block_len=ln_, gap=gap, strand=strand)
    res.state(("huge", k, ln_, gap, strand))
    ladder = sorted({0, 1, ln_ , ln // 3, ln // 2, 995 * ln_, 1005 * ln_, ln - ln_ - 1, ln - 2, ln - 1} & set(range(ln)))
    for r in ladder:
        o = lib.outcome(L.relative_to_parent_pos, r)
        res.trans()
        res.nontriv(("huge-r2p", k, ln_, gap, strand, r))
        res.note("r2p", "huge")
        if o[0] != "ok" or o[1] != Pm[r]:
            res.deviation("relative_to_parent_pos", dict(op="r2p", r=r, **base), o[1], Pm[r], sig="huge-r2p")
        o = lib.outcome(L.parent_to_relative_pos, Pm[r])
        res.trans()
        if o[0] != "ok" or o[1] != r:
            res.deviation("parent_to_relative_pos", dict(op="p2r", p=Pm[r], **base), o[1], r, sig="huge-p2r")
    for a in ladder:
        for b in ladder + [ln]:
            if b < a:
                continue
            for rho in "+-":
                o = lib.outcome(L.relative_interval_to_parent_location, a, b, lib.STRAND[rho])
                res.trans()
                res.note("ri2p", "huge")
                case = dict(op="ri2p", a=a, b=b, rho=rho, **base)
                if a == b:
                    if o[0] == "ok":
                        if len(o[1]) != 0:
                            res.deviation("relative_interval_to_parent_location", case, len(o[1]), 0, sig="huge-ri2p-zero")
                    elif not isinstance(o[2], (ValueError, BioCantorException)):
                        res.deviation("relative_interval_to_parent_location", case, o[1], "zero-length or documented exception", sig="huge-ri2p-zero-internal")
                    continue
                E = Pm[a:b] if rho == "+" else list(reversed(Pm[a:b]))
                if o[0] != "ok":
                    res.deviation("relative_interval_to_parent_location", case, o[1], [E[0], E[-1], len(E)], sig="huge-ri2p-raises")
                    continue
                O = M.P(lib.loc_blocks(o[1]), lib.loc_strand(o[1]))
                if O != E or lib.loc_strand(o[1]) != M.strand_rel(strand, rho):
                    res.deviation("relative_interval_to_parent_location", case, [O[:3], len(O)], [E[:3], len(E)], sig="huge-ri2p")
    res.sample({"huge": base, "ladder": ladder})


def check_scale_pairs(res, N, bl, strand):
    """relative-location form on the scale family: the reference L is a many-block layout; queries are every single
    interval whose ends lie within 1 of a block boundary of L (parent coordinates), and L's own layout shifted by 1"""
    if len(bl) > 6:
        pts = sorted({c for s, e in bl for c in (s, e)})
    else:
        pts = sorted({c + d for s, e in bl for c in (s, e) for d in (-1, 0, 1) if c + d >= 0})
    for qi, qs in enumerate(pts):
        for qe in pts[qi + 1 :]:
            for s2 in "+-":
                check_pair(res, N, bl, strand, ((qs, qe),), s2)
    sh = tuple((s + 1, e + 1) for s, e in bl)
    for s2 in "+-":
        check_pair(res, N, bl, strand, sh, s2)
        check_pair(res, N, sh, s2, bl, strand)


def check_pair_parents(res, N):
    pars = {"none": None, "A": Parent(id="A"), "B": Parent(id="B"), "Aseq": lib.seq_parent("ACGTAC", pid="A"), "Aseq2": lib.seq_parent("ACGTAA", pid="A")}
    lays = [((1, 4),), ((0, 2), (3, 5))]
    for b1 in lays:
        for b2 in lays:
            for s1 in "+-":
                for s2 in "+-":
                    for k1, p1 in pars.items():
                        for k2, p2 in pars.items():
                            L = lib.mk_loc(b1, s1, p1)
                            Q = lib.mk_loc(b2, s2, p2)
                            o = lib.outcome(Q.location_relative_to, L)
                            res.trans()
                            same = k1 == k2
                            case = _case("pairparent", L=[list(b) for b in b1], Ls=s1, Q=[list(b) for b in b2], Qs=s2, pL=k1, pQ=k2)
                            res.note("lrt-parent", "same" if same else "mismatch")
                            if same:
                                if o[0] != "ok":
                                    res.deviation("location_relative_to", case, o[1], "location", sig="lrt-parent-raises")
                            else:
                                if o[0] == "ok":
                                    res.deviation("location_relative_to", case, lib.canon_loc(o[1]), "ParentException", sig="lrt-parent-accepts-mismatch")
                                elif not isinstance(o[2], (ParentException, LocationOverlapException)):
                                    res.deviation("location_relative_to", case, o[1], "ParentException", sig="lrt-parent-wrong-exc")


def check_feature_wrappers(res, N, bl, strand):
    """FeatureInterval.sequence_pos_to_feature & co answer the same questions identically."""
    genome = worlds.designed_genome(N, GENOME)
    par = lib.seq_parent(genome)
    fi = FeatureInterval([b[0] for b in bl], [b[1] for b in bl], lib.STRAND[strand], parent_or_seq_chunk_parent=par)
    Pm = M.P(bl, strand)
    ln = len(Pm)
    base = dict(N=N, blocks=[list(b) for b in bl], strand=strand)
    res.state(("feat", bl, strand))
    for r in range(-1, ln + 2):
        for name in ("feature_pos_to_sequence", "feature_pos_to_chunk_relative"):
            o = lib.outcome(getattr(fi, name), r)
            res.trans()
            case = _case("feat", op=name, r=r, **base)
            if 0 <= r < ln:
                if o[0] != "ok" or o[1] != Pm[r]:
                    res.deviation(name, case, o[1], Pm[r], sig="feat-r2p")
            elif o[0] == "ok" or not isinstance(o[2], (ValueError, InvalidPositionException)):
                res.deviation(name, case, o[1], "raise", sig="feat-r2p-outside")
    for p in range(-1, N + 2):
        for name in ("sequence_pos_to_feature", "chunk_relative_pos_to_feature"):
            o = lib.outcome(getattr(fi, name), p)
            res.trans()
            case = _case("feat", op=name, p=p, **base)
            if p in Pm:
                if o[0] != "ok" or o[1] != Pm.index(p):
                    res.deviation(name, case, o[1], Pm.index(p), sig="feat-p2r")
            elif o[0] == "ok" or not isinstance(o[2], InvalidPositionException):
                res.deviation(name, case, o[1], "InvalidPositionException", sig="feat-p2r-outside")
    for a in range(0, ln + 1):
        for b in range(a + 1, ln + 1):
            for rho in "+-":
                E = Pm[a:b] if rho == "+" else list(reversed(Pm[a:b]))
                for name in ("feature_interval_to_sequence", "feature_interval_to_chunk_relative"):
                    o = lib.outcome(getattr(fi, name), a, b, lib.STRAND[rho])
                    res.trans()
                    res.nontriv((name, bl, strand, a, b, rho))
                    case = _case("feat", op=name, a=a, b=b, rho=rho, **base)
                    if o[0] != "ok":
                        res.deviation(name, case, o[1], E, sig="feat-ri2p-raises")
                        continue
                    R = o[1]
                    O = M.P(lib.loc_blocks(R), lib.loc_strand(R))
                    if O != E or lib.loc_strand(R) != M.strand_rel(strand, rho):
                        res.deviation(name, case, [O, lib.loc_strand(R)], [E, M.strand_rel(strand, rho)], sig="feat-ri2p")
    SL = set(Pm)
    for cs in range(0, N):
        for ce in range(cs + 1, N + 1):
            for rho in "+-":
                PQ = list(range(cs, ce)) if rho == "+" else list(range(ce - 1, cs - 1, -1))
                E = [p for p in PQ if p in SL]
                for name in ("sequence_interval_to_feature", "chunk_relative_interval_to_feature"):
                    o = lib.outcome(getattr(fi, name), cs, ce, lib.STRAND[rho])
                    res.trans()
                    case = _case("feat", op=name, a=cs, b=ce, rho=rho, **base)
                    if not E:
                        if o[0] == "ok" and len(o[1]) != 0:
                            res.deviation(name, case, lib.canon_loc(o[1]), "LocationOverlapException", sig="feat-si2f-accepts-disjoint")
                        elif o[0] != "ok" and not isinstance(o[2], (LocationOverlapException, EmptyLocationException)):
                            res.deviation(name, case, o[1], "LocationOverlapException", sig="feat-si2f-wrong-exc")
                        continue
                    res.nontriv((name, bl, strand, cs, ce, rho))
                    if o[0] != "ok":
                        res.deviation(name, case, o[1], E, sig="feat-si2f-raises")
                        continue
                    R = o[1]
                    rb = lib.loc_blocks(R)
                    if any(s < 0 or e > ln for s, e in rb):
                        res.deviation(name, case, lib.canon_loc(R), "in range", sig="feat-si2f-range")
                        continue
                    O = [Pm[i] for i in M.P(rb, lib.loc_strand(R))]
                    if O != E or lib.loc_strand(R) != M.strand_rel(rho, strand):
                        res.deviation(name, case, [O, lib.loc_strand(R)], [E, M.strand_rel(rho, strand)], sig="feat-si2f")


# ---- replay ------------------------------------------------------------------------------------------
def replay(case):
    res = ShardResult()
    k = case["kind"]
    if k == "unary":
        bl = tuple(tuple(b) for b in case["blocks"])
        check_unary(res, case["mode"], case["N"], bl, case["strand"], case["parent"])
    elif k == "pair":
        check_pair(res, case["N"], tuple(tuple(b) for b in case["L"]), case["Ls"], tuple(tuple(b) for b in case["Q"]), case["Qs"], case.get("parent", "none"))
    elif k == "pairovl":
        check_pair_overlapping_query(res, case["N"], tuple(tuple(b) for b in case["L"]), case["Ls"], tuple(tuple(b) for b in case["Q"]), case["Qs"])
    elif k == "pairparent":
        check_pair_parents(res, 6)
    elif k == "huge":
        check_huge(res, case["k"], case["block_len"], case["gap"], case["strand"])
        devs = [d for d in res.deviations if d["case"].get("op") == case.get("op")]
        return devs or res.deviations
    elif k == "feat":
        check_feature_wrappers(res, case["N"], tuple(tuple(b) for b in case["blocks"]), case["strand"])
    return res.deviations


# ---- known-finding matchers ------------------------------------------------------------------------------
def _m_overlap_order(d):
    return (
        d["sig"] == "ri2p-overlap-order"
        and d["case"].get("mode") == "overlap"
        and sorted(d["observed"]) == sorted(d["expected"])
    )


MATCHERS = {"c01_overlap_order": _m_overlap_order}
