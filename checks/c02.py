"""C02 - location set algebra equals position-set semantics; results are normalised/well-formed."""
import itertools

from vlib import lib, worlds
from vlib.model import loc as M
from vlib.runner import ShardResult

from inscripta.biocantor import DistanceType
from inscripta.biocantor.exc import (
    InvalidPositionException,
    MismatchedParentException,
    ParentException,
    InvalidStrandException,
    BioCantorException,
    EmptyLocationException,
)
from inscripta.biocantor.location.location_impl import SingleInterval, CompoundInterval, EmptyLocation, _EmptyLocation
from inscripta.biocantor.parent import Parent

PROPERTY = "C02"
TITLE = "Location set algebra equals position-set semantics; results are normalised"
RULE = (
    "all ordered pairs of locations of the world (disjoint layouts incl. adjacent blocks, both strands) for each "
    "parent kind, every flag combination of has_overlap/intersection/minus/contains, union, union_preserve_overlaps, "
    "4 distance types; cross-parent-kind pairs; unary battery (gaps, optimisation, merging, extension, shifting, "
    "windows, reset) on disjoint/+empty/+overlap layouts; derived non-normalised results are re-explored (depth 2). "
    "Non-trivial = operands share a block boundary, touch, nest or overlap, or have >=2 blocks."
)
ASSUMPTIONS = [
    "oracle: python set algebra on covered positions (vlib/model/loc.py); flags as documented in AbstractLocation docstrings",
    "difference/containment decided only for operands whose own blocks do not overlap (as the property says)",
    "cgranges is not installed: only the pairwise intersection branch exists at run time",
]

WORLD = {
    "quick": dict(N=5, k=3, Nu=5, Nx=4, Nsparse=11),
    "thorough": dict(N=7, k=3, Nu=6, Nx=5, Nsparse=14),
}
NSH = 48
GENOME = "ACGTNRYKMSWBDHV"
DT = {"INNER": DistanceType.INNER, "OUTER": DistanceType.OUTER, "STARTS": DistanceType.STARTS, "ENDS": DistanceType.ENDS}


def world_description(tier):
    w = WORLD[tier]
    return (
        f"pairs: disjoint layouts N={w['N']} k<={w['k']} x strands x parent kinds none/id/seq; cross-kind pairs N={w['Nx']} k<=2; "
        f"unary: disjoint/+empty/+overlap layouts N={w['Nu']} k<=3; scale family: layouts with k in {worlds.SCALE_K[tier]} "
        f"(k<={16 if tier == 'quick' else 40}) blocks x strands: unary battery, and the whole pair battery against the shifted twin, "
        f"the gaps, the next family member and the single intervals anchored at block boundaries (both operand orders); sparse: every location of 3 single-base blocks x every location of 1-2 single-base blocks on N={w['Nsparse']}"
    )


def shards(tier, seed):
    out = [{"tier": tier, "part": "pairs", "pk": pk, "i": i} for pk in ("none", "id", "seq") for i in range(NSH)]
    out += [{"tier": tier, "part": "cross", "i": i} for i in range(16)]
    out += [{"tier": tier, "part": "unary", "i": i} for i in range(NSH)]
    out += [{"tier": tier, "part": "empty", "i": 0}]
    out += [{"tier": tier, "part": "unstranded", "i": i} for i in range(8)]
    out += [{"tier": tier, "part": "scale", "i": i} for i in range(NSH)]
    out += [{"tier": tier, "part": "sparse", "i": i} for i in range(NSH)]
    return out


def parents(N):
    g = worlds.designed_genome(N, GENOME)
    return {
        "none": None,
        "id": Parent(id="A", sequence_type="chromosome"),
        "seq": lib.seq_parent(g, pid="A"),
        "idB": Parent(id="B", sequence_type="chromosome"),
        "seq2": lib.seq_parent(g[::-1], pid="A"),
        # parents WITHOUT an id (parent_id is None on both sides of a none-vs-parent comparison)
        "noid_type": Parent(sequence_type="chromosome"),
        "noid_seq": Parent(sequence=lib.Sequence(g, lib.Alphabet.NT_EXTENDED_GAPPED)),
    }


def pmatch(k1, k2):
    return k1 == k2


def span(bl):
    return ((min(s for s, e in bl), max(e for s, e in bl)),)


def Sx(bl, full):
    return M.S(span(bl)) if full else M.S(bl)


def _res_check(res, op, case, o, expS, exp_strand, exp_parent_chain, N, want_disjoint=True, allow_empty=True, multiset=None):
    """common verdict on a returned location"""
    if o[0] != "ok":
        res.deviation(op, case, o[1], sorted(expS), sig=f"{op}-raises")
        return None
    R = o[1]
    if not expS:
        if len(R) != 0:
            res.deviation(op, case, lib.canon_loc(R), "empty", sig=f"{op}-not-empty")
        return R
    if type(R) is _EmptyLocation:
        res.deviation(op, case, "EmptyLocation", sorted(expS), sig=f"{op}-empty")
        return R
    probs = lib.check_wellformed(R)
    if probs:
        res.deviation(op, case, probs, "well-formed", sig=f"{op}-illformed")
        return R
    bl = lib.loc_blocks(R)
    if M.S(bl) != expS:
        res.deviation(op, case, sorted(M.S(bl)), sorted(expS), sig=f"{op}-positions")
    elif lib.loc_strand(R) != exp_strand:
        res.deviation(op, case, lib.loc_strand(R), exp_strand, sig=f"{op}-strand")
    elif exp_parent_chain is not None and lib.parent_chain(R.parent) != exp_parent_chain:
        res.deviation(op, case, lib.parent_chain(R.parent), exp_parent_chain, sig=f"{op}-parent")
    elif want_disjoint and len(R) != len(expS):
        res.deviation(op, case, bl, "no position counted twice", sig=f"{op}-multiplicity")
    elif multiset is not None and sorted(M.P(bl, "+")) != multiset:
        res.deviation(op, case, sorted(M.P(bl, "+")), multiset, sig=f"{op}-multiset")
    else:
        # optimisation of any returned location is idempotent, normalised, position preserving
        o2 = lib.outcome(R.optimize_blocks)
        if o2[0] != "ok" or (M.is_disjoint(bl) and not lib.is_normalised(o2[1])) or sorted(M.P(lib.loc_blocks(o2[1]), "+")) != sorted(M.P(bl, "+")) or lib.loc_strand(o2[1]) != lib.loc_strand(R):
            res.deviation("optimize_blocks", case, lib.canon_loc(o2[1]) if o2[0] == "ok" else o2[1], "normalised, same positions", sig=f"{op}-then-optimize")
        res.state(("loc", bl, lib.loc_strand(R)))
    return R


def _snap(L):
    return (type(L).__name__, tuple((b.start, b.end, lib.SYM[b.strand]) for b in L.blocks), lib.loc_strand(L), lib.parent_chain(L.parent), len(L), L.start, L.end)


def check_pair(res, N, b1, s1, k1, b2, s2, k2, derived=None):
    par = parents(N)
    A = lib.mk_loc(b1, s1, par[k1])
    B = lib.mk_loc(b2, s2, par[k2])
    snapA, snapB = _snap(A), _snap(B)
    _check_pair_ops(res, N, A, B, b1, s1, k1, b2, s2, k2, derived)
    # operations never change their operands (all of the above ran on the SAME two objects, in sequence)
    res.trans()
    if _snap(A) != snapA or _snap(B) != snapB:
        res.deviation("operand-unchanged", dict(op="operands", kind="pair", N=N, A=[list(b) for b in b1], As=s1, Ak=k1, B=[list(b) for b in b2], Bs=s2, Bk=k2),
                      [_snap(A)[1], _snap(B)[1]], [snapA[1], snapB[1]], sig="operand-mutated")


def _check_pair_ops(res, N, A, B, b1, s1, k1, b2, s2, k2, derived=None):
    par = parents(N)
    base = dict(kind="pair", N=N, A=[list(b) for b in b1], As=s1, Ak=k1, B=[list(b) for b in b2], Bs=s2, Bk=k2)
    pm = pmatch(k1, k2)
    a_disj, b_disj = M.is_disjoint(b1), M.is_disjoint(b2)
    SA, SB = M.S(b1), M.S(b2)
    touching = bool(SA & SB) or any(x[1] == y[0] or y[1] == x[0] for x in b1 for y in b2) or len(b1) > 1 or len(b2) > 1
    if touching:
        res.nontriv(("pair", b1, s1, k1, b2, s2, k2))
    apc = lib.parent_chain(A.parent)
    # ---- has_overlap ---------------------------------------------------------------------------------------
    for ms, fs, st in itertools.product((False, True), repeat=3):
        o = lib.outcome(A.has_overlap, B, match_strand=ms, full_span=fs, strict_parent_compare=st)
        res.trans()
        case = dict(op="has_overlap", ms=ms, fs=fs, st=st, **base)
        if st and not pm:
            res.note("has_overlap", "strict-mismatch")
            if o[0] == "ok" or not isinstance(o[2], MismatchedParentException):
                res.deviation("has_overlap", case, o[1], "MismatchedParentException", sig="has_overlap-strict")
            continue
        exp = pm and not (ms and s1 != s2) and bool(Sx(b1, fs) & Sx(b2, fs))
        res.note("has_overlap", str(exp))
        if o[0] != "ok" or o[1] is not exp:
            res.deviation("has_overlap", case, o[1], exp, sig="has_overlap")
    # ---- intersection ----------------------------------------------------------------------------------------
    for ms, fs, st in itertools.product((False, True), repeat=3):
        o = lib.outcome(A.intersection, B, match_strand=ms, full_span=fs, strict_parent_compare=st)
        res.trans()
        case = dict(op="intersection", ms=ms, fs=fs, st=st, **base)
        if st and not pm:
            if o[0] == "ok" or not isinstance(o[2], MismatchedParentException):
                res.deviation("intersection", case, o[1], "MismatchedParentException", sig="intersection-strict")
            continue
        expS = Sx(b1, fs) & Sx(b2, fs) if (pm and not (ms and s1 != s2)) else set()
        res.note("intersection", "empty" if not expS else "nonempty")
        R = _res_check(res, "intersection", case, o, expS, s1, apc, N, want_disjoint=(a_disj and b_disj) or fs)
        if R is not None and expS and o[0] == "ok" and type(R) is not _EmptyLocation and a_disj and b_disj and not lib.is_normalised(R):
            res.deviation("intersection", case, lib.canon_loc(R), "normalised", sig="intersection-not-normalised")
        if derived is not None and R is not None and type(R) is not _EmptyLocation:
            derived.add((lib.loc_blocks(R), lib.loc_strand(R)))
    # ---- union / union_preserve_overlaps -----------------------------------------------------------------------
    for op in ("union", "union_preserve_overlaps"):
        o = lib.outcome(getattr(A, op), B)
        res.trans()
        case = dict(op=op, **base)
        if s1 != s2:
            res.note(op, "strand-mismatch")
            if o[0] == "ok" or not isinstance(o[2], (ValueError, InvalidStrandException)):
                res.deviation(op, case, o[1], "ValueError/InvalidStrandException", sig=f"{op}-strand-mismatch")
            continue
        if not pm:
            res.note(op, "parent-mismatch")
            # "commutative; raises exception if locations cannot be combined": a mismatch is refused whichever side
            # lacks the parent (the parentless-left order used to return an un-merged compound of overlapping blocks)
            if o[0] == "ok" or not isinstance(o[2], ParentException):
                res.deviation(op, case, lib.canon_loc(o[1]) if o[0] == "ok" else o[1], "MismatchedParentException", sig=f"{op}-parent-mismatch")
            continue
        res.note(op, "ok")
        if op == "union":
            R = _res_check(res, op, case, o, SA | SB, s1, apc, N, want_disjoint=a_disj and b_disj)
        else:
            ms_ = sorted(M.P(b1, "+") + M.P(b2, "+"))
            R = _res_check(res, op, case, o, SA | SB, s1, apc, N, want_disjoint=False, multiset=ms_)
        if derived is not None and R is not None and o[0] == "ok" and type(R) is not _EmptyLocation:
            derived.add((lib.loc_blocks(R), lib.loc_strand(R)))
    # ---- minus ----------------------------------------------------------------------------------------------
    if a_disj and b_disj:
        for ms, st in itertools.product((False, True), repeat=2):
            o = lib.outcome(A.minus, B, match_strand=ms, strict_parent_compare=st)
            res.trans()
            case = dict(op="minus", ms=ms, st=st, **base)
            if st and not pm:
                if o[0] == "ok" or not isinstance(o[2], MismatchedParentException):
                    res.deviation("minus", case, o[1], "MismatchedParentException", sig="minus-strict")
                continue
            sub = SB if (pm and not (ms and s1 != s2)) else set()
            expS = SA - sub
            res.note("minus", "empty" if not expS else ("same" if expS == SA else "cut"))
            R = _res_check(res, "minus", case, o, expS, s1, apc if expS != SA or True else None, N)
            if R is not None and o[0] == "ok" and expS and type(R) is not _EmptyLocation and (SA & sub) and not lib.is_normalised(R):
                res.deviation("minus", case, lib.canon_loc(R), "normalised", sig="minus-not-normalised")
    # ---- contains ---------------------------------------------------------------------------------------------
    if a_disj and b_disj:
        for ms, fs, st in itertools.product((False, True), repeat=3):
            o = lib.outcome(A.contains, B, match_strand=ms, full_span=fs, strict_parent_compare=st)
            res.trans()
            case = dict(op="contains", ms=ms, fs=fs, st=st, **base)
            if st and not pm:
                if o[0] == "ok" or not isinstance(o[2], MismatchedParentException):
                    res.deviation("contains", case, o[1], "MismatchedParentException", sig="contains-strict")
                continue
            ov = pm and not (ms and s1 != s2) and bool(Sx(b1, fs) & Sx(b2, fs))
            exp = ov and Sx(b2, fs) <= Sx(b1, fs)
            res.note("contains", str(exp))
            if o[0] != "ok" or o[1] is not exp:
                res.deviation("contains", case, o[1], exp, sig="contains")
    # ---- distance ------------------------------------------------------------------------------------------------
    if a_disj and b_disj:
        for name, dt in DT.items():
            o = lib.outcome(A.distance_to, B, dt)
            res.trans()
            case = dict(op="distance_to", dt=name, **base)
            if not pm:
                if o[0] == "ok" or not isinstance(o[2], MismatchedParentException):
                    res.deviation("distance_to", case, o[1], "MismatchedParentException", sig="distance-parent")
                continue
            a0, a1 = span(b1)[0]
            c0, c1 = span(b2)[0]
            if name == "STARTS":
                exp = abs(a0 - c0)
            elif name == "ENDS":
                exp = abs(a1 - c1)
            elif name == "OUTER":
                exp = max(abs(a0 - c1), abs(a1 - c0))
            else:
                if SA & SB:
                    exp = 0
                else:
                    exp = min(min(abs(x[0] - y[1]), abs(x[1] - y[0])) for x in b1 for y in b2)
            res.note("distance", name)
            if o[0] != "ok" or o[1] != exp:
                res.deviation("distance_to", case, o[1], exp, sig=f"distance-{name}")


def check_unary(res, mode, N, bl, strand, pk):
    par = parents(N)
    L = lib.mk_loc(bl, strand, par[pk])
    base = dict(kind="unary", mode=mode, N=N, blocks=[list(b) for b in bl], strand=strand, pk=pk)
    sb = M.sort_blocks(bl, strand)
    res.state(("loc", sb, strand))
    if len(bl) > 1:
        res.nontriv(("unary", sb, strand, pk))
    SL = M.S(bl)
    ne = [b for b in bl if b[1] > b[0]]
    pc = lib.parent_chain(L.parent)
    probs = lib.check_wellformed(L)
    if probs:
        res.deviation("constructor", dict(op="ctor", **base), probs, "well-formed", sig="ctor-illformed")
    multiset = sorted(M.P(sb, "+"))
    # optimize_blocks
    o = lib.outcome(L.optimize_blocks)
    res.trans()
    case = dict(op="optimize_blocks", **base)
    R = _res_check(res, "optimize_blocks", case, o, SL, strand, pc, N, want_disjoint=False, multiset=multiset if SL else None)
    if o[0] == "ok" and SL and type(R) is not _EmptyLocation:
        # (for strictly overlapping blocks 'adjacent' is not well defined after sorting; demanded for the rest)
        if mode != "overlap" and not lib.is_normalised(R):
            res.deviation("optimize_blocks", case, lib.canon_loc(R), "normalised", sig="optimize-not-normalised")
    # optimize_and_combine_blocks
    if type(L) is CompoundInterval:
        o = lib.outcome(L.optimize_and_combine_blocks)
        res.trans()
        case = dict(op="optimize_and_combine_blocks", **base)
        R = _res_check(res, "optimize_and_combine_blocks", case, o, SL, strand, pc, N)
        if o[0] == "ok" and SL and type(R) is not _EmptyLocation and lib.loc_blocks(R) != M.runs(SL):
            res.deviation("optimize_and_combine_blocks", case, lib.loc_blocks(R), M.runs(SL), sig="combine-not-runs")
    # merge_overlapping
    o = lib.outcome(L.merge_overlapping)
    res.trans()
    case = dict(op="merge_overlapping", **base)
    R = _res_check(res, "merge_overlapping", case, o, SL, strand, pc, N, want_disjoint=not M.has_empty(bl) or True)
    # gaps
    if ne:
        lo, hi = min(s for s, e in ne), max(e for s, e in ne)
        gaps = M.runs(set(range(lo, hi)) - SL)
        expg = list(gaps) if strand != "-" else list(reversed(gaps))
    else:
        expg = []
    o = lib.outcome(L.gap_list)
    res.trans()
    case = dict(op="gap_list", **base)
    if o[0] != "ok":
        if ne or not lib.is_documented_exc(o[2]) or isinstance(o[2], TypeError):
            res.deviation("gap_list", case, o[1], expg, sig="gap_list-raises" + ("" if ne else "-allempty"))
    else:
        got = [(g.start, g.end) for g in o[1]]
        if got != expg or any(lib.loc_strand(g) != strand or lib.parent_chain(g.parent) != pc for g in o[1]):
            res.deviation("gap_list", case, got, expg, sig="gap_list")
    o = lib.outcome(L.gaps_location)
    res.trans()
    case = dict(op="gaps_location", **base)
    if o[0] != "ok":
        if ne or not lib.is_documented_exc(o[2]) or isinstance(o[2], TypeError):
            res.deviation("gaps_location", case, o[1], expg, sig="gaps_location-raises" + ("" if ne else "-allempty"))
    else:
        _res_check(res, "gaps_location", case, o, M.S(expg), strand, pc if expg else None, N)
    # extension
    if ne and mode != "empty":
        lo, hi = min(s for s, e in bl), max(e for s, e in bl)
        seqlen = N if pk == "seq" else None
        for i, j in itertools.product((-1, 0, 1, 2, 3), repeat=2):
            for rel in (False, True):
                if rel:
                    o = lib.outcome(L.extend_relative, i, j)
                    ei, ej = (i, j) if strand == "+" else (j, i)
                else:
                    o = lib.outcome(L.extend_absolute, i, j)
                    ei, ej = i, j
                res.trans()
                case = dict(op="extend_relative" if rel else "extend_absolute", i=i, j=j, **base)
                opn = case["op"]
                if min(i, j) < 0:
                    res.note(opn, "negative")
                    if o[0] == "ok" or not isinstance(o[2], ValueError):
                        res.deviation(opn, case, o[1], "ValueError", sig="extend-negative")
                    continue
                if lo - ei < 0 or (seqlen is not None and hi + ej > seqlen):
                    res.note(opn, "out-of-bounds")
                    if o[0] == "ok" or not isinstance(o[2], (InvalidPositionException, ValueError)):
                        res.deviation(opn, case, lib.canon_loc(o[1]) if o[0] == "ok" else o[1], "InvalidPositionException", sig="extend-out-of-bounds")
                    continue
                res.note(opn, "ok")
                expS = SL | set(range(lo - ei, lo)) | set(range(hi, hi + ej))
                _res_check(res, opn, case, o, expS, strand, pc, N, want_disjoint=(mode == "disjoint"))
    # shift
    if ne:
        lo, hi = min(s for s, e in bl), max(e for s, e in bl)
        for d in range(-N - 1, N + 2):
            o = lib.outcome(L.shift_position, d)
            res.trans()
            case = dict(op="shift_position", d=d, **base)
            if lo + d < 0 or (pk == "seq" and hi + d > N):
                res.note("shift", "out-of-bounds")
                if o[0] == "ok" or not isinstance(o[2], (InvalidPositionException, ValueError)):
                    res.deviation("shift_position", case, lib.canon_loc(o[1]) if o[0] == "ok" else o[1], "InvalidPositionException", sig="shift-out-of-bounds")
                continue
            res.note("shift", "ok")
            if o[0] != "ok" or sorted(lib.loc_blocks(o[1])) != sorted((s + d, e + d) for s, e in bl) or lib.loc_strand(o[1]) != strand or lib.parent_chain(o[1].parent) != pc:
                res.deviation("shift_position", case, lib.canon_loc(o[1]) if o[0] == "ok" else o[1], sorted((s + d, e + d) for s, e in bl), sig="shift")
    # reset_strand / reset_parent
    for ns in "+-.":
        o = lib.outcome(L.reset_strand, lib.STRAND[ns])
        res.trans()
        if o[0] != "ok" or sorted(lib.loc_blocks(o[1])) != sorted(bl) or lib.loc_strand(o[1]) != ns or lib.parent_chain(o[1].parent) != pc or lib.check_wellformed(o[1]):
            res.deviation("reset_strand", dict(op="reset_strand", ns=ns, **base), lib.canon_loc(o[1]) if o[0] == "ok" else o[1], [sorted(bl), ns], sig="reset_strand")
    for nk in ("none", "idB", "seq"):
        o = lib.outcome(L.reset_parent, par[nk])
        res.trans()
        epc = lib.parent_chain(par[nk])
        if o[0] != "ok" or sorted(lib.loc_blocks(o[1])) != sorted(bl) or lib.loc_strand(o[1]) != strand or lib.parent_chain(o[1].parent) != epc or lib.check_wellformed(o[1]):
            res.deviation("reset_parent", dict(op="reset_parent", nk=nk, **base), lib.canon_loc(o[1]) if o[0] == "ok" else o[1], [sorted(bl), epc], sig="reset_parent")
    # scan_windows
    if mode == "disjoint":
        Pm = M.P(sb, strand)
        ln = len(Pm)
        for w in range(0, ln + 2):
            for st in range(0, 4):
                for sp in range(-1, ln + 1):
                    o = lib.outcome(lambda: list(L.scan_windows(w, st, sp)))
                    res.trans()
                    case = dict(op="scan_windows", w=w, step=st, start=sp, **base)
                    valid = 0 <= sp < ln and w >= 1 and st >= 1 and w <= ln and sp + w <= ln
                    if not valid:
                        res.note("scan_windows", "invalid")
                        if o[0] == "ok" or not isinstance(o[2], ValueError):
                            res.deviation("scan_windows", case, o[1] if o[0] == "exc" else "accepted", "ValueError", sig="scan_windows-invalid")
                        continue
                    res.note("scan_windows", "ok")
                    exp = [Pm[c : c + w] for c in range(sp, ln - w + 1, st)]
                    if o[0] != "ok":
                        res.deviation("scan_windows", case, o[1], exp, sig="scan_windows-raises")
                        continue
                    got = [M.P(lib.loc_blocks(x), lib.loc_strand(x)) for x in o[1]]
                    if got != exp or any(lib.loc_strand(x) != strand for x in o[1]):
                        res.deviation("scan_windows", case, got, exp, sig="scan_windows")


def check_empty(res):
    E = EmptyLocation()
    par = parents(5)
    others = [lib.mk_loc(((1, 3),), "+", par[k]) for k in ("none", "id")] + [lib.mk_loc(((0, 1), (2, 4)), "-", par[k]) for k in ("none", "seq")]
    res.state(("Empty",))
    for X in others:
        xs = (lib.loc_blocks(X), lib.loc_strand(X))
        case0 = dict(kind="empty", X=[list(b) for b in xs[0]], Xs=xs[1])
        for ms, fs in itertools.product((False, True), repeat=2):
            for a, b, nm in ((E, X, "E.x"), (X, E, "x.E")):
                o = lib.outcome(a.has_overlap, b, match_strand=ms, full_span=fs)
                res.trans()
                if o[0] != "ok" or o[1] is not False:
                    res.deviation("has_overlap", dict(op="has_overlap", form=nm, **case0), o[1], False, sig="empty-has_overlap")
                o = lib.outcome(a.intersection, b, match_strand=ms, full_span=fs)
                res.trans()
                if o[0] != "ok" or type(o[1]) is not _EmptyLocation:
                    res.deviation("intersection", dict(op="intersection", form=nm, **case0), o[1], "EmptyLocation", sig="empty-intersection")
                o = lib.outcome(a.contains, b, match_strand=ms, full_span=fs)
                res.trans()
                if o[0] == "ok" and o[1] is not False or o[0] == "exc" and not lib.is_documented_exc(o[2]):
                    res.deviation("contains", dict(op="contains", form=nm, **case0), o[1], False, sig="empty-contains")
        o = lib.outcome(X.minus, E)
        res.trans()
        if o[0] != "ok" or lib.loc_blocks(o[1]) != xs[0] or lib.loc_strand(o[1]) != xs[1]:
            res.deviation("minus", dict(op="minus", form="x.E", **case0), o[1], "x", sig="empty-minus")
        o = lib.outcome(E.minus, X)
        res.trans()
        if o[0] != "ok" or type(o[1]) is not _EmptyLocation:
            res.deviation("minus", dict(op="minus", form="E.x", **case0), o[1], "EmptyLocation", sig="empty-minus")
        for nm, fn in (("x.union(E)", lambda: X.union(E)), ("E.union(x)", lambda: E.union(X)), ("x.upo(E)", lambda: X.union_preserve_overlaps(E)), ("x.distance(E)", lambda: X.distance_to(E)), ("E.distance(x)", lambda: E.distance_to(X))):
            o = lib.outcome(fn)
            res.trans()
            if o[0] == "exc":
                if not lib.is_documented_exc(o[2]):
                    res.deviation(nm, dict(op=nm, **case0), o[1], "documented exception or x", sig="empty-internal-error")
            elif "union" in nm or "upo" in nm:
                if M.S(lib.loc_blocks(o[1])) != M.S(xs[0]):
                    res.deviation(nm, dict(op=nm, **case0), lib.canon_loc(o[1]), "x", sig="empty-union")
    for nm, fn, exp in (
        ("len", lambda: len(E), 0), ("is_empty", lambda: E.is_empty, True), ("blocks", lambda: E.blocks, []), ("num_blocks", lambda: E.num_blocks, 0),
        ("optimize", lambda: E.optimize_blocks() is E, True), ("gap_list", lambda: E.gap_list(), []), ("gaps", lambda: E.gaps_location() is E, True),
        ("reverse", lambda: E.reverse() is E, True), ("merge", lambda: E.merge_overlapping() is E, True), ("singleton", lambda: EmptyLocation() is E, True),
        ("is_overlapping", lambda: E.is_overlapping, False),
    ):
        o = lib.outcome(fn)
        res.trans()
        if o[0] != "ok" or o[1] != exp:
            res.deviation(nm, dict(kind="empty", op=nm), o[1], exp, sig="empty-identity")
    for nm, fn in (("start", lambda: E.start), ("end", lambda: E.end), ("strand", lambda: E.strand), ("extract", E.extract_sequence), ("shift", lambda: E.shift_position(1)), ("extend", lambda: E.extend_absolute(1, 1))):
        o = lib.outcome(fn)
        res.trans()
        if o[0] == "ok" or not isinstance(o[2], EmptyLocationException):
            res.deviation(nm, dict(kind="empty", op=nm), o[1], "EmptyLocationException", sig="empty-refusal")
    res.sample({"EmptyLocation": "identities"})


def run_shard(shard):
    res = ShardResult()
    tier, part = shard["tier"], shard["part"]
    w = WORLD[tier]
    if part == "pairs":
        N = w["N"]
        lays = list(worlds.layouts(N, w["k"], "disjoint"))
        locs = [(b, s) for b in lays for s in "+-"]
        derived = set()
        pk = shard["pk"]
        for idx, (b1, s1) in enumerate(locs):
            if idx % NSH != shard["i"]:
                continue
            for (b2, s2) in locs:
                check_pair(res, N, b1, s1, pk, b2, s2, pk, derived)
        # depth 2: re-explore results that are not themselves initial states (unmerged adjacent / overlapping blocks)
        init = set((M.sort_blocks(b, s), s) for b, s in locs)
        partners = [(((1, 3),), "+"), (((0, 2), (3, 5)), "+"), (((2, 4),), "-"), (((0, 1), (1, 2)), "-"), (((0, N),), "+")]
        new = sorted(d for d in derived if d not in init)
        res.extra["derived_states"] += len(new)
        for (bl, st) in new:
            check_unary(res, "overlap" if not M.is_disjoint(bl) else "disjoint", N, bl, st, pk)
            for (b2, s2) in partners:
                check_pair(res, N, bl, st, pk, b2, s2, pk)
                check_pair(res, N, b2, s2, pk, bl, st, pk)
        res.sample({"A": [[0, 2], [3, 5]], "As": "+", "B": [[1, 4]], "Bs": "-", "parent_kind": pk})
    elif part == "cross":
        N = w["Nx"]
        lays = list(worlds.layouts(N, 2, "disjoint"))
        locs = [(b, s) for b in lays for s in "+-"]
        kinds = ["none", "id", "seq", "idB", "seq2", "noid_type", "noid_seq"]
        combos = [(a, b) for a in kinds for b in kinds if a != b]
        for ci, (k1, k2) in enumerate(combos):
            if ci % 16 != shard["i"]:
                continue
            for (b1, s1) in locs:
                for (b2, s2) in locs:
                    check_pair(res, N, b1, s1, k1, b2, s2, k2)
        res.sample({"cross-parent kinds": combos[shard["i"]] if shard["i"] < len(combos) else None})
    elif part == "unary":
        N = w["Nu"]
        allL = [("disjoint", b) for b in worlds.layouts(N, 3, "disjoint")]
        allL += [("empty", b) for b in worlds.layouts(N, 3, "empty")]
        allL += [("overlap", b) for b in worlds.layouts(N - 1, 3, "overlap")]
        for idx, (mode, bl) in enumerate(allL):
            if idx % NSH != shard["i"]:
                continue
            for strand in "+-":
                for pk in ("none", "seq"):
                    check_unary(res, mode, N, bl, strand, pk)
        res.sample({"unary": "layout battery", "N": N})
    elif part == "empty":
        check_empty(res)
    elif part == "unstranded":
        # operands without a direction take part in the set algebra like any other strand value
        N = w["Nx"]
        locs = [(b, s) for b in worlds.layouts(N, 2, "disjoint") for s in "+-."]
        for idx, (b1, s1) in enumerate(locs):
            if idx % 8 != shard["i"]:
                continue
            for (b2, s2) in locs:
                if "." in (s1, s2):
                    for pk in ("none", "seq"):
                        check_pair(res, N, b1, s1, pk, b2, s2, pk)
        res.sample({"unstranded": "pairs with at least one UNSTRANDED operand"})
    elif part == "sparse":
        # sparse operands on a longer genome: every location of three single-base blocks against every location of one or
        # two single-base blocks (interleavings in which the block-to-block distance falls, rises and falls again need
        # more room than the dense worlds have)
        import itertools

        N = w["Nsparse"]
        a_lays = [tuple((p, p + 1) for p in c) for c in itertools.combinations(range(N), 3)]
        b_lays = [tuple((p, p + 1) for p in c) for r in (1, 2) for c in itertools.combinations(range(N), r)]
        for idx, A in enumerate(a_lays):
            if idx % NSH != shard["i"]:
                continue
            for B in b_lays:
                check_pair(res, N, A, "+-"[idx % 2], "none", B, "+", "none")
                check_pair(res, N, B, "-", "none", A, "+-"[idx % 2], "none")
        res.sample({"sparse": "3 single-base blocks vs 1-2 single-base blocks", "N": N})
    elif part == "scale":
        # the scale family (vlib/worlds.py): operands with many blocks.  Partners of a layout A: A shifted by one, A's own
        # gaps, the next layout of the family, every single interval from before A to a block boundary / from a block
        # boundary to behind A, every single interval covering block i and one base more
        fam = [bl for k, bl in worlds.scale_layouts(tier) if k <= (16 if tier == "quick" else 40)]
        for idx, A in enumerate(fam):
            if idx % NSH != shard["i"]:
                continue
            N = max(A[-1][1], fam[(idx + 1) % len(fam)][-1][1]) + 3
            lo, hi = A[0][0], A[-1][1]
            partners = [tuple((s + 1, e + 1) for s, e in A), fam[(idx + 1) % len(fam)]]
            gaps = tuple((A[j][1], A[j + 1][0]) for j in range(len(A) - 1) if A[j + 1][0] > A[j][1])
            if gaps:
                partners.append(gaps)
            coords = sorted({c for s, e in A for c in (s, e)})
            step = 1 if len(A) <= 8 else 3
            singles = {(max(lo - 1, 0), c) for c in coords[1::step]} | {(c, hi + 1) for c in coords[:-1:step]} | {(s, e + 1) for s, e in A[::step]}
            partners += [(b,) for b in sorted(singles) if b[1] > b[0]]
            for s1 in "+-":
                for pk in ("none", "seq"):
                    check_unary(res, "disjoint", N, A, s1, pk)
                for B in partners:
                    for s2 in "+-":
                        check_pair(res, N, A, s1, "seq", B, s2, "seq")
                        check_pair(res, N, B, s2, "none", A, s1, "none")
        res.sample({"scale": "many-block operands", "layouts": len(fam)})
    return res


def replay(case):
    res = ShardResult()
    if case["kind"] == "pair":
        check_pair(res, case["N"], tuple(tuple(b) for b in case["A"]), case["As"], case["Ak"], tuple(tuple(b) for b in case["B"]), case["Bs"], case["Bk"])
    elif case["kind"] == "unary":
        check_unary(res, case["mode"], case["N"], tuple(tuple(b) for b in case["blocks"]), case["strand"], case["pk"])
    else:
        check_empty(res)
    devs = [d for d in res.deviations if d["case"].get("op") == case.get("op")]
    return devs or res.deviations


MATCHERS = {}
