"""C13 core legs: alternative sequence ('alt') and location lift-over ('lift') against the edit model."""
from vlib import lib
from vlib.model import variants as V

from checks import c13_world as W

import inscripta.biocantor.io.parser  # noqa: F401  (loaded before the runner forks: seq_to_parent & co. import Bio.SeqIO)
from inscripta.biocantor.gene.interval import AbstractInterval
from inscripta.biocantor.gene.variants import VariantInterval, VariantIntervalCollection
from inscripta.biocantor.location.location_impl import SingleInterval, CompoundInterval, EmptyLocation, _EmptyLocation
from inscripta.biocantor.sequence.sequence import SequenceType


# ---- building the haplotype on the implementation ------------------------------------------------------
def mk_parent(ref, window):
    if window is None:
        return lib.chrom_parent(ref)
    return lib.chunk_parent(ref, window[0], window[1])


def mk_variants(edits, parent, order="asc"):
    vis = [VariantInterval(s, e, a, W.kind((s, e, a)), parent_or_seq_chunk_parent=parent) for s, e, a in edits]
    if order == "desc":
        vis = vis[::-1]
    return vis


def mk_collection(edits, parent, order="asc"):
    return VariantIntervalCollection(mk_variants(edits, parent, order), parent_or_seq_chunk_parent=parent)


class Hap:
    """one haplotype of the implementation: variant objects built once, used for many locations (as a user would)"""

    def __init__(self, N, rot, edits, window, seqless=False, noid=False):
        self.N, self.rot, self.edits, self.window, self.seqless, self.noid = N, rot, tuple(edits), window, seqless, noid
        self.ref = W.genome(N, rot)
        self.parent = None if seqless else mk_parent(self.ref, window)
        if noid:
            # a whole chromosome WITH sequence but without an identifier (seq_to_parent(reference))
            self.parent = lib.chrom_parent(self.ref, name=None)
        self.coll = mk_collection(self.edits, self.parent)
        self.single = mk_variants(self.edits, self.parent)[0] if len(self.edits) == 1 else None
        self.nlc = W.n_len_changing(self.edits)


# ---- reading a location answer -----------------------------------------------------------------------------
def read_location(r, want_seq=True):
    """(summary dict, raw block list). A zero-length answer counts as empty whatever its class."""
    if type(r) is _EmptyLocation or len(r) == 0:
        return {"empty": True, "blocks": [], "strand": None, "seq": ""}, []
    raw = [list(b) for b in lib.loc_blocks(r)]
    pos = [p for s, e in raw for p in range(s, e)]
    out = {"empty": False, "blocks": [list(b) for b in V.runs(pos)], "strand": lib.loc_strand(r)}
    if len(pos) != len(set(pos)):
        out["overlapping_blocks"] = raw
    if want_seq:
        out["seq"] = str(r.extract_sequence())
        out["alt"] = str(r.parent.sequence) if r.parent is not None and r.parent.sequence is not None else None
    return out, raw


def expected_summary(exp, strand, want_seq=True):
    if exp["empty"]:
        return {"empty": True, "blocks": [], "strand": None, "seq": ""}
    out = {"empty": False, "blocks": [list(b) for b in exp["blocks"]], "strand": strand}
    if want_seq:
        out["seq"] = exp["seq"]
        out["alt"] = exp["alt"]
    return out


def input_location(blocks, strand, window, form, parent):
    """the location handed to lift_over_location.
    bare   : chromosome coordinates, no parent        chrom : chromosome coordinates on the reference parent
    chunk  : chunk-relative coordinates on the reference chunk parent (location restricted to the chunk)
    Returns None when the form cannot express the location (chunk form, no base inside the chunk)."""
    if form in ("bare", "seqless"):
        return lib.mk_loc(blocks, strand)
    if form == "chrom":
        return lib.mk_loc(blocks, strand, parent=parent)
    if form == "chunk":
        a, b = window
        bl = V.shift_blocks(V.restrict(blocks, a, b), -a)
        if not bl:
            return None
        return lib.mk_loc(bl, strand, parent=parent)
    raise ValueError(form)


def rtl_reference(hap, loc):
    """Classification aid for deviations ONLY (never the expected value): the library's own single-variant
    coordinate arithmetic applied right-to-left. Returns a summary like read_location or {'exc':..}."""
    try:
        if loc.has_ancestor_of_type(SequenceType.SEQUENCE_CHUNK):
            loc = loc.lift_over_to_first_ancestor_of_type(SequenceType.CHROMOSOME)
        for v in reversed(hap.coll.variant_intervals):
            if type(loc) is SingleInterval:
                loc = v._lift_over_chromosome_location_single_interval(loc)
            elif type(loc) is CompoundInterval:
                loc = v._lift_over_chromosome_location_compound_interval(loc)
            else:
                break
        if loc is not EmptyLocation() and not hap.seqless:
            loc = AbstractInterval.liftover_location_to_seq_chunk_parent(loc, hap.coll.parent_with_alternative_sequence)
        return read_location(loc, want_seq=not hap.seqless)[0]
    except Exception as e:  # noqa
        return {"exc": type(e).__name__}


def lift_case(res, hap, blocks, strand, form, api):
    """one (haplotype, location, input form, api) case. api: 'collection' | 'single' (single only for 1 variant)"""
    exp = V.lifted(hap.ref, blocks, strand, hap.edits, hap.window)
    if exp is None:
        res.extra["lift_inadmissible"] += 1
        return
    loc = input_location(blocks, strand, hap.window, form, hap.parent)
    if loc is None:
        return
    target = hap.single if api == "single" else hap.coll
    o = lib.outcome(target.lift_over_location, loc)
    res.trans()
    want_seq = not hap.seqless
    case = dict(
        leg="lift", N=hap.N, rot=hap.rot, edits=[list(e) for e in hap.edits], blocks=[list(b) for b in blocks],
        strand=strand, window=list(hap.window) if hap.window else None, form=form, api=api,
    )
    expd = expected_summary(exp, strand, want_seq)
    classes = tuple(V.edit_class(V.restrict(blocks, *hap.window) if hap.window else blocks, e) for e in hap.edits)
    if hap.nlc and (len(hap.edits) > 1 or "inside" in classes):
        res.nontriv((hap.edits, classes, len(blocks), strand))
    if o[0] == "exc":
        obs = {"exc": o[1]}
        if hap.seqless and o[1] == "NullSequenceException":
            # outside the quantifier (no reference): the refusal of a sequence-less variant is accepted
            res.note("lift", "seqless-refused")
            return
        if exp["alt"] == "" and lib.is_documented_exc(o[2]):
            # a haplotype of ZERO bases (every base of the chromosome/chunk deleted) cannot be carried by a
            # Parent/Sequence; every location on it is empty anyway: a documented refusal is accepted
            res.note("lift", "empty-haplotype-refused")
            return
        res.note("lift", "exc-" + o[1])
        ok = False
    else:
        obs, raw = read_location(o[1], want_seq)
        ok = obs == expd
        if ok:
            res.note("lift", "empty" if exp["empty"] else ("chunk-" if hap.window else "") + f"{len(exp['blocks'])}-block")
            res.state(("res", exp["blocks"], strand, len(exp["alt"])))
            if [tuple(b) for b in raw] != [tuple(b) for b in obs["blocks"]]:
                res.extra["lift_adjacent_blocks_left_unmerged"] += 1
            return
    # ---- deviation: classify ---------------------------------------------------------------------------
    # rtl_ok: the library's own single-variant arithmetic, applied right-to-left, gives the model's answer (so every
    # single-variant step is right and only the order of application / the handling of the empty result is wrong).
    # All single variants are also decided on their own in this same leg (api 'single' and 1-variant collections).
    rtl_ok = rtl_reference(hap, loc) == expd
    if exp["empty"] and obs == {"exc": "EmptyLocationException"}:
        sig = "lift-deleted-location-raises"
    elif len(hap.edits) > 1 and hap.nlc >= 2 and rtl_ok:
        sig = "lift-sequential-shift"
    else:
        sig = "lift-" + ("exc-" + obs["exc"] if "exc" in obs else "wrong") + f"-{len(hap.edits)}var"
    res.deviation(
        "lift_over_location", case, obs, expd, sig=sig, n_variants=len(hap.edits), n_len_changing=hap.nlc,
        rtl_ok=rtl_ok, seqless=hap.seqless,
    )


# ---- alternative sequence leg ---------------------------------------------------------------------------
def read_alt_parent(p):
    """what a user can observe of parent_with_alternative_sequence"""
    out = {"seq": None if p.sequence is None else str(p.sequence)}
    if p.has_ancestor_of_type(SequenceType.SEQUENCE_CHUNK):
        out["kind"] = "chunk"
        ck = p.first_ancestor_of_type(SequenceType.SEQUENCE_CHUNK)
        lp = ck.sequence.location_on_parent if ck.sequence is not None else None
        out["span"] = None if lp is None else [lp.start, lp.end]
        out["has_chromosome"] = p.has_ancestor_of_type(SequenceType.CHROMOSOME)
    else:
        out["kind"] = "chromosome" if p.has_ancestor_of_type(SequenceType.CHROMOSOME) else "other"
        out["span"] = None if p.location is None else [p.location.start, p.location.end]
        out["has_chromosome"] = out["kind"] == "chromosome"
    return out


def alt_case(res, N, rot, edits, window, order):
    ref = W.genome(N, rot)
    a = window[0] if window else 0
    sub = ref[window[0]:window[1]] if window else ref
    local = V.shift_edits(edits, -a)
    exp_alt = V.apply_edits(sub, local)
    case = dict(leg="alt", N=N, rot=rot, edits=[list(e) for e in edits], window=list(window) if window else None, order=order)
    parent = mk_parent(ref, window)
    exp_parent = {
        "seq": exp_alt, "kind": "chunk" if window else "chromosome", "span": [a, a + len(exp_alt)], "has_chromosome": True,
    }
    coll = mk_collection(edits, parent, order)
    res.state(("hap", edits, window))
    if W.n_len_changing(edits) or len(edits) > 1:
        res.nontriv(("alt", edits, window))
    targets = [("collection", coll, exp_alt, exp_parent)]
    for i, v in enumerate(coll.variant_intervals):
        one = V.apply_edits(sub, (local[i],))
        targets.append((f"variant{i}", v, one, dict(exp_parent, seq=one, span=[a, a + len(one)])))
    if [(v.start, v.end, str(v.sequence)) for v in coll.variant_intervals] != [tuple(e) for e in sorted(edits)]:
        res.deviation("VariantIntervalCollection", case, [repr(v) for v in coll.variant_intervals], [list(e) for e in edits], sig="alt-members")
    for name, obj, want, want_parent in targets:
        o = lib.outcome(lambda: str(obj.alternative_genomic_sequence))
        res.trans()
        if o[0] == "exc" or o[1] != want:
            res.deviation("alternative_genomic_sequence", dict(case, target=name), o[1], want,
                          sig="alt-seq-" + ("exc-" + o[1] if o[0] == "exc" else "wrong") + ("-collection" if name == "collection" else "-single"))
        else:
            res.note("alt", ("chunk-" if window else "chrom-") + ("empty" if not want else "seq"))
        o = lib.outcome(lambda: read_alt_parent(obj.parent_with_alternative_sequence))
        res.trans()
        if o[0] == "exc" or o[1] != want_parent:
            if o[0] == "exc" and not want and lib.is_documented_exc(o[2]):
                # an alternative haplotype of ZERO bases cannot be carried by a Parent/Sequence: a documented refusal
                # of that degenerate parent is accepted (the alternative sequence text itself was compared above)
                res.note("alt-parent", "empty-haplotype-refused")
                continue
            res.deviation("parent_with_alternative_sequence", dict(case, target=name), o[1] if o[0] == "ok" else {"exc": o[1]}, want_parent,
                          sig="alt-parent-" + ("exc-" + o[1] if o[0] == "exc" else "wrong"))
        else:
            res.note("alt-parent", want_parent["kind"])
