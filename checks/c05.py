"""C05 - CDS codons, frame bookkeeping and translation follow one reading-frame model."""
import itertools

from vlib import lib, worlds
from vlib.model import loc as M
from vlib.model import frame as F
from vlib.runner import ShardResult

from inscripta.biocantor.gene.cds import CDSInterval
from inscripta.biocantor.gene.cds_frame import CDSFrame
from inscripta.biocantor.gene.codon import TranslationTable
from inscripta.biocantor.exc import BioCantorException
from inscripta.biocantor.location.location_impl import _EmptyLocation

PROPERTY = "C05"
TITLE = "CDS codons, frame bookkeeping and translation follow one reading-frame model"
RULE = (
    "every CDSInterval on every exon layout (disjoint incl. 0-bp gaps, <=k blocks) x both strands x EVERY frame vector in "
    "{0,1,2}^k on three designed genomes; for each: codon location lists (chromosome, chunk-relative), every chromosome "
    "window (a,b) x expand flag, extract_sequence, scan_codons, num_codons, translate under every (table, truncate, strict), "
    "stop/start predicates; construct_frames_from_location for every layout x start frame; all 64 codons (+ambiguous) "
    "as first/middle/last codon. Non-trivial = frame vector with a non-zero entry, >=2 blocks, minus strand or a window "
    "cutting the CDS."
)
ASSUMPTIONS = [
    "reference: reading-frame model vlib/model/frame.py (kept_positions/codons/translate), validated against brute force in selftest",
    "when the model expects ZERO codons the implementation may return nothing or refuse with any documented exception (class of the refusal is C19's business)",
    "expand_window_to_partial_codons=True: exact only for a single uninterrupted reading frame with start frame 0; otherwise "
    "the result must lie between 'codons fully inside the window' and 'all codons of the CDS'",
]

WORLD = {"quick": dict(N=9, k=2, Nw=8, Nc=9, N3=8), "thorough": dict(N=12, k=3, Nw=9, Nc=10, N3=0)}
NSH = 64
GENOMES = {
    "startstop": "ATGTTGACTGATAGGTGCATTAAATGA",
    "iupac": "ATGNCTNRAYGGNTAGCGNACNKTTGA",
    "lower": "atgttGActgaTAGgtgcattaaatga",
}
TABLES = {0: TranslationTable.DEFAULT, 1: TranslationTable.STANDARD, 11: TranslationTable.PROKARYOTE}


def world_description(tier):
    w = WORLD[tier]
    return ((f"three-exon structures N={w['N3']} x all 27 frame vectors; " if w["N3"] else "") + f"structure: layouts N={w['N']} k<={w['k']} x strands x all frame vectors; windows: layouts N={w['Nw']} k<=2 x all (a,b) x expand; "
            f"sequence: 3 genomes on layouts N={w['Nc']}; codon table: 64 codons x 3 positions x 2 structures x 3 tables x truncate x strict; "
            f"windows also on chunk-built CDS (containing / cutting chunks); scale family: CDS of {SCALE_KS[tier]} exons x strands x start frames x "
            f"frameshift at the middle exon; every CDS of >= 2 exons also listed in every other order (all permutations of 3, rotations + reversal of more), "
            f"merged twice on an object that shares its lists with a sibling, empty windows (b == a)")


def shards(tier, seed):
    out = [{"tier": tier, "part": p, "i": i} for p in ("struct", "window") for i in range(NSH)]
    if WORLD[tier]["N3"]:
        out += [{"tier": tier, "part": "struct3", "i": i} for i in range(NSH)]
    out += [{"tier": tier, "part": "frames", "i": i} for i in range(8)]
    out += [{"tier": tier, "part": "codontable", "i": i} for i in range(8)]
    out += [{"tier": tier, "part": "scale", "i": i} for i in range(16)]
    return out


def model_codons(bl, strand, frames_plus):
    ex = F.exons_5to3(bl, strand)
    fr = F.frames_5to3(frames_plus, strand)
    return F.codons(ex, fr)


def codon_pos(locs):
    out = []
    for c in locs:
        out.append(tuple(M.P(lib.loc_blocks(c), lib.loc_strand(c))))
    return out


def mk(bl, strand, frames, genome, chunk=None):
    par = lib.chrom_parent(genome) if chunk is None else lib.chunk_parent(genome, chunk[0], chunk[1])
    return lib.mk_cds(bl, strand, frames, par)


def cmp_codons(res, op, case, o, exp, strand):
    """compare a codon-location outcome with the model; zero expected codons may be refused"""
    if not exp:
        res.note(op, "zero-codons")
        if o[0] == "ok":
            if len(o[1]) != 0:
                res.deviation(op, case, codon_pos(o[1]), [], sig=f"{op}-extra-codons")
        return
    res.note(op, "codons")
    if o[0] != "ok":
        res.deviation(op, case, o[1], [list(c) for c in exp], sig=f"{op}-raises", n_expected=len(exp))
        return
    got = codon_pos(o[1])
    if got != exp:
        res.deviation(op, case, [list(c) for c in got], [list(c) for c in exp], sig=f"{op}-codons")
    elif any(lib.loc_strand(c) != strand for c in o[1]):
        res.deviation(op, case, [lib.loc_strand(c) for c in o[1]], strand, sig=f"{op}-strand")


PERMS3 = [p for p in itertools.permutations(range(3)) if p != (0, 1, 2)]


def _check_order_and_merge(res, bl, strand, frames, genome, case, exp):
    """(a) a coding interval is the SET of its (exon, frame) pairs: listing them in any other order (every permutation of
    three exons, every rotation and the reversal of more) reads the same codons; (b) merging the blocks of a CDS
    (optimize_blocks / optimize_and_combine_blocks) leaves the source reading the same codons - asked AFTER the merge,
    on an object that was never asked before, and built from the very same list objects as a sibling that is asked too -
    and a second merge gives the object the first one gave"""
    k = len(bl)
    if k >= 2:
        if k == 3:
            perms = PERMS3
        else:
            perms = [tuple(range(r, k)) + tuple(range(r)) for r in range(1, k)] + [tuple(range(k - 1, -1, -1))]
        for pm in dict.fromkeys(perms):
            o = lib.outcome(lambda: CDSInterval([bl[i][0] for i in pm], [bl[i][1] for i in pm], lib.STRAND[strand], [CDSFrame(frames[i]) for i in pm],
                                                parent_or_seq_chunk_parent=lib.chrom_parent(genome)).chromosome_codon_locations)
            res.trans()
            cmp_codons(res, "permuted.chromosome_codon_locations", dict(op="permuted-codons", perm=list(pm), **case), o, exp, strand)
    if k < 2:
        return
    starts, ends, fr = [b[0] for b in bl], [b[1] for b in bl], [CDSFrame(f) for f in frames]
    par = lib.chrom_parent(genome)
    a_ = lib.outcome(lambda: CDSInterval(starts, ends, lib.STRAND[strand], fr, parent_or_seq_chunk_parent=par))
    b_ = lib.outcome(lambda: CDSInterval(starts, ends, lib.STRAND[strand], fr, parent_or_seq_chunk_parent=par))
    if a_[0] != "ok" or b_[0] != "ok":
        return
    for meth in ("optimize_blocks", "optimize_and_combine_blocks"):
        m1 = lib.outcome(getattr(a_[1], meth))
        m2 = lib.outcome(getattr(a_[1], meth))
        res.trans(2)
        c = dict(op=meth, **case)
        if m1[0] != m2[0] or (m1[0] == "ok" and (lib.loc_blocks(m1[1].chromosome_location), [f.value for f in m1[1].frames]) != (lib.loc_blocks(m2[1].chromosome_location), [f.value for f in m2[1].frames])):
            res.deviation(meth, c, [m2[1] if m2[0] != "ok" else [lib.loc_blocks(m2[1].chromosome_location), [f.value for f in m2[1].frames]]],
                          [m1[1] if m1[0] != "ok" else [lib.loc_blocks(m1[1].chromosome_location), [f.value for f in m1[1].frames]]], sig="merge-not-repeatable")
        if m1[0] == "exc" and not lib.is_documented_exc(m1[2]):
            res.deviation(meth, c, m1[1], "merged CDS or documented exception", sig="merge-internal-error")
        f0 = frames[0 if strand == "+" else -1]
        ex5 = F.exons_5to3(bl, strand)
        if m1[0] == "ok" and exp and len(ex5[0]) >= f0 and list(frames) == F.consistent_frames_plus_order(bl, strand, f0):
            # one uninterrupted reading frame: the merged CDS reads the very same codons
            o = lib.outcome(lambda: m1[1].chromosome_codon_locations)
            cmp_codons(res, meth + ".codons", dict(op=meth + "-codons", **case), o, exp, strand)
    if [f.value for f in fr] != list(frames) or starts != [b[0] for b in bl] or ends != [b[1] for b in bl]:
        res.deviation("optimize_blocks", dict(op="merge-arguments", **case), [starts, ends, [f.value for f in fr]], "caller's lists untouched", sig="merge-mutates-arguments")
    for who, ob in (("merged-source", a_[1]), ("sibling", b_[1])):
        o = lib.outcome(lambda: ob.chromosome_codon_locations)
        res.trans()
        cmp_codons(res, who + ".chromosome_codon_locations", dict(op=who + "-codons", **case), o, exp, strand)


def check_struct(res, N, bl, strand, frames, gname, seq_checks=True):
    genome = (GENOMES[gname] * (N // len(GENOMES[gname]) + 2))[:max(N, 1)]
    cds_o = lib.outcome(mk, bl, strand, frames, genome)
    case = dict(kind="struct", N=N, blocks=[list(b) for b in bl], strand=strand, frames=list(frames), genome=gname)
    res.trans()
    if cds_o[0] != "ok":
        res.deviation("CDSInterval", case, cds_o[1], "object", sig="ctor-raises")
        return
    cds = cds_o[1]
    res.state(("cds", bl, strand, tuple(frames)))
    if any(frames) or len(bl) > 1 or strand == "-":
        res.nontriv(("cds", bl, strand, tuple(frames), gname))
    exp = model_codons(bl, strand, frames)
    o = lib.outcome(lambda: cds.chromosome_codon_locations)
    res.trans()
    cmp_codons(res, "chromosome_codon_locations", dict(op="chromosome_codon_locations", **case), o, exp, strand)
    o = lib.outcome(lambda: len(cds.chromosome_codon_locations))
    o2 = lib.outcome(lambda: cds.num_codons)
    res.trans()
    if exp and (o2[0] != "ok" or o2[1] != len(exp)):
        res.deviation("num_codons", dict(op="num_codons", **case), o2[1], len(exp), sig="num_codons")
    # the same CDS described by GFF3 phases instead of frames (CDSPhase.to_frame) must read the same codons
    from inscripta.biocantor.gene.cds_frame import CDSPhase

    ph = lib.outcome(lambda: CDSInterval([b[0] for b in bl], [b[1] for b in bl], lib.STRAND[strand], [CDSFrame(f).to_phase() for f in frames],
                                         parent_or_seq_chunk_parent=lib.chrom_parent(genome)))
    res.trans()
    if ph[0] != "ok":
        res.deviation("CDSInterval(phases)", dict(op="phases-ctor", **case), ph[1], "object", sig="phases-ctor-raises")
    else:
        o = lib.outcome(lambda: ph[1].chromosome_codon_locations)
        cmp_codons(res, "phases.chromosome_codon_locations", dict(op="phases-codons", **case), o, exp, strand)
        o = lib.outcome(lambda: [f.value for f in ph[1].frames])
        if o[0] != "ok" or o[1] != list(frames):
            res.deviation("CDSInterval(phases).frames", dict(op="phases-frames", **case), o[1], list(frames), sig="phases-frames")
    _check_order_and_merge(res, bl, strand, frames, genome, case, exp)
    if not seq_checks:
        return
    # a fresh object for the sequence paths (history dependence is C10's business): fast path first
    cds2 = mk(bl, strand, frames, genome)
    exp_codon_strs = [F.splice(genome, c, strand) for c in exp]
    exp_seq = "".join(exp_codon_strs)
    o = lib.outcome(lambda: str(cds2.extract_sequence()))
    res.trans()
    c = dict(op="extract_sequence", **case)
    if not exp:
        if o[0] == "ok" and o[1] != "":
            res.deviation("extract_sequence", c, o[1], "", sig="extract-extra")
    elif o[0] != "ok":
        res.deviation("extract_sequence", c, o[1], exp_seq, sig="extract-raises")
    elif o[1] != exp_seq:
        res.deviation("extract_sequence", c, o[1], exp_seq, sig="extract-seq")
    elif len(o[1]) % 3:
        res.deviation("extract_sequence", c, len(o[1]), "multiple of 3", sig="extract-mod3")
    # codon iterator path: chunk_relative_codon_locations on a third fresh object
    cds3 = mk(bl, strand, frames, genome)
    o = lib.outcome(lambda: cds3.chunk_relative_codon_locations)
    res.trans()
    cmp_codons(res, "chunk_relative_codon_locations", dict(op="chunk_relative_codon_locations", **case), o, exp, strand)
    if o[0] == "ok" and exp:
        o3 = lib.outcome(lambda: [str(x.extract_sequence()) for x in o[1]])
        res.trans()
        if o3[0] != "ok" or o3[1] != exp_codon_strs:
            res.deviation("codon.extract_sequence", dict(op="codon-seq", **case), o3[1], exp_codon_strs, sig="codon-seq")
    # the two documented paths of extract_sequence name one sequence: once the codon locations have been listed the
    # cached path is taken (anchor: "fast path vs cached codon path"); both also on a chunk that contains the CDS
    # (offset = first block's start), where chromosome-coordinate codon locations carry no sequence
    for label, obj_fn in (("cached", lambda: cds3), ("chunk-fast", lambda: mk(bl, strand, frames, genome, (bl[0][0], N))),
                          ("chunk-cached", lambda: mk(bl, strand, frames, genome, (bl[0][0], N)))):
        ob = lib.outcome(obj_fn)
        if ob[0] != "ok":
            res.deviation("CDSInterval", dict(op="extract_sequence-" + label, **case), ob[1], "object", sig="ctor-raises-" + label)
            continue
        if label.endswith("cached"):
            lib.outcome(lambda: list(ob[1].chunk_relative_codon_locations))  # switches extract_sequence to its cached path
        o = lib.outcome(lambda: str(ob[1].extract_sequence()))
        res.trans()
        res.note("extract_sequence-path", label)
        c = dict(op="extract_sequence-" + label, **case)
        if not exp:
            if o[0] == "ok" and o[1] != "":
                res.deviation("extract_sequence", c, o[1], "", sig="extract-extra-" + label)
        elif o[0] != "ok" or o[1] != exp_seq:
            res.deviation("extract_sequence", c, o[1], exp_seq, sig="extract-seq-" + label)
    if not exp:
        return
    cds4 = mk(bl, strand, frames, genome)
    o = lib.outcome(lambda: [str(x) for x in cds4.scan_codons()])
    res.trans()
    if o[0] != "ok" or o[1] != [x.upper() for x in exp_codon_strs]:
        res.deviation("scan_codons", dict(op="scan_codons", **case), o[1], [x.upper() for x in exp_codon_strs], sig="scan_codons")
    # the truncated codon walk ends WITH the first in-frame stop codon (the truncated protein, which ends in '*', is the
    # translation of exactly these codons)
    ups = [x.upper() for x in exp_codon_strs]
    stop_at = next((i for i, c_ in enumerate(ups) if F.GENCODE.get(c_) == "*"), None)
    exp_trunc = ups if stop_at is None else ups[: stop_at + 1]
    cds4t = mk(bl, strand, frames, genome)
    o = lib.outcome(lambda: [str(x) for x in cds4t.scan_codons(truncate_at_in_frame_stop=True)])
    res.trans()
    res.note("scan_codons", "truncated" if stop_at is not None and stop_at + 1 < len(ups) else "whole")
    if o[0] != "ok" or o[1] != exp_trunc:
        res.deviation("scan_codons", dict(op="scan_codons-truncate", **case), o[1], exp_trunc, sig="scan_codons-truncate")
    # translation: every (table, truncate, strict)
    for tab, trunc, strict in itertools.product((0, 1, 11), (False, True), (True, False)):
        cds5 = mk(bl, strand, frames, genome)
        o = lib.outcome(lambda: cds5.translate(truncate_at_in_frame_stop=trunc, translation_table=TABLES[tab], strict=strict))
        res.trans()
        c = dict(op="translate", table=tab, truncate=trunc, strict=strict, **case)
        try:
            ep = F.translate(exp_codon_strs, tab, trunc, strict)
        except ValueError:
            ep = None
        if ep is None:
            res.note("translate", "refuse-nonstrict")
            if o[0] == "ok" or not isinstance(o[2], ValueError):
                res.deviation("translate", c, str(o[1]) if o[0] == "ok" else o[1], "ValueError", sig="translate-strict-accepts")
        else:
            res.note("translate", "protein")
            if o[0] != "ok" or str(o[1]) != ep:
                res.deviation("translate", c, str(o[1]) if o[0] == "ok" else o[1], ep, sig="translate")
    # one object, asked for its protein under one table and then under another (every ordered pair of tables): each answer is
    # the answer a fresh object gives
    for t1, t2 in itertools.permutations((0, 1, 11), 2):
        cds7 = mk(bl, strand, frames, genome)
        lib.outcome(lambda: cds7.translate(translation_table=TABLES[t1]))
        o = lib.outcome(lambda: cds7.translate(translation_table=TABLES[t2]))
        res.trans()
        try:
            ep = F.translate(exp_codon_strs, t2, False, True)
        except ValueError:
            ep = None
        if ep is not None and (o[0] != "ok" or str(o[1]) != ep):
            res.deviation("translate", dict(op="translate-second-table", first=t1, second=t2, **case), str(o[1]) if o[0] == "ok" else o[1], ep, sig="translate-second-table")
    # predicates
    cds6 = mk(bl, strand, frames, genome)
    first, last = exp_codon_strs[0].upper(), exp_codon_strs[-1].upper()
    preds = [
        ("has_valid_stop", lambda: cds6.has_valid_stop, last in ("TAA", "TAG", "TGA")),
        ("has_canonical_start_codon", lambda: cds6.has_canonical_start_codon, first == "ATG"),
    ]
    for tab in (0, 1, 11):
        preds.append((f"has_start_codon_in_specific_translation_table[{tab}]", (lambda t=tab: cds6.has_start_codon_in_specific_translation_table(TABLES[t])), first in F.STARTS[tab]))
    try:
        prot = F.translate(exp_codon_strs, 0, False, True)
        preds.append(("has_in_frame_stop", lambda: cds6.has_in_frame_stop, "*" in prot[:-1]))
    except ValueError:
        pass
    for name, fn, e in preds:
        o = lib.outcome(fn)
        res.trans()
        if o[0] != "ok" or o[1] is not e:
            res.deviation(name, dict(op=name, **case), o[1], e, sig="predicate-" + name.split("[")[0])


def check_windows(res, N, bl, strand, frames):
    genome = (GENOMES["startstop"] * 2)[:N]
    cds_o = lib.outcome(mk, bl, strand, frames, genome)
    case = dict(kind="window", N=N, blocks=[list(b) for b in bl], strand=strand, frames=list(frames))
    if cds_o[0] != "ok":
        return
    cds = cds_o[1]
    allc = model_codons(bl, strand, frames)
    lo, hi = bl[0][0], bl[-1][1]
    res.state(("cdsw", bl, strand, tuple(frames)))
    single_frame0 = frames[0 if strand == "+" else -1] == 0 and list(frames) == F.consistent_frames_plus_order(bl, strand, 0)
    for a in range(0, N):
        # (the documentation allows an end beyond the end of the chromosome: N + 1 and N + 3 mean "to the end")
        # (b == a is the EMPTY window: no codon lies inside it - it used to be read as 'no window at all')
        for b in list(range(a, N + 1)) + [N + 1, N + 3]:
            for expand in (False, True):
                if (b > N or b == a) and expand:
                    continue
                for which in ("chromosome", "chunk"):
                    if which == "chunk" and (a + b) % 2:
                        continue  # same code path on a chromosome parent; halve the cost
                    fn = cds.scan_chromosome_codon_locations if which == "chromosome" else cds.scan_chunk_relative_codon_locations
                    o = lib.outcome(lambda: list(fn(a, b, expand)))
                    res.trans()
                    c = dict(op=f"scan_{which}_codon_locations", a=a, b=b, expand=expand, **case)
                    inside = F.codons_in_window(allc, a, b)
                    cuts = a > lo or b < hi
                    if cuts:
                        res.nontriv(("win", bl, strand, tuple(frames), a, b, expand))
                    if not expand:
                        trim5 = (a - lo) if strand == "+" else (hi - b)
                        cmp_codons(res, "scan_codon_locations", dict(trim5=max(trim5, 0), **c), o, inside, strand)
                    else:
                        touching = [cd for cd in allc if any(a <= p < b for p in cd)]
                        if o[0] != "ok":
                            # the statement does not speak of the expand flag; a documented refusal is accepted
                            # (today: the expansion is done in CDS coordinates modulo 3 and leaves the CDS when its
                            # length is not a multiple of 3), an internal error is not
                            res.extra["expand_refusals"] += 1
                            if inside and not lib.is_documented_exc(o[2]):
                                res.deviation("scan_codon_locations", c, o[1], [list(x) for x in inside], sig="scan-expand-internal-error")
                            continue
                        got = codon_pos(o[1])
                        if single_frame0:
                            if got != touching:
                                res.deviation("scan_codon_locations", c, [list(x) for x in got], [list(x) for x in touching], sig="scan-expand-codons")
                        else:
                            gs = set(got)
                            if not (set(inside) <= gs <= set(allc)) or got != [cd for cd in allc if cd in gs]:
                                res.deviation("scan_codon_locations", c, [list(x) for x in got], [list(x) for x in inside], sig="scan-expand-bounds")


def check_windows_chunk(res, N, bl, strand, frames, stride=1):
    """the window restriction on a CDS that lives on a sequence CHUNK: chromosome windows are chromosome coordinates all
    the same; the chromosome-coordinate scan answers as on the whole chromosome, the chunk-relative scan gives the codons
    fully inside window AND chunk, shifted by the chunk start"""
    genome = (GENOMES["startstop"] * 2)[:N]
    allc = model_codons(bl, strand, frames)
    lo, hi = bl[0][0], bl[-1][1]
    chunks = [(0, N)]
    if lo >= 1:
        chunks.append((1, N))
    if hi - lo >= 4:
        chunks += [(lo + 1, hi), (lo, hi - 1)]
    cds_pos = {p for s_, e_ in bl for p in range(s_, e_)}
    for ca, cb in chunks:
        if not any(ca <= p < cb for p in cds_pos):
            continue  # (a CDS without a base in its chunk is C07's subject)
        o_ = lib.outcome(lambda: lib.mk_cds(bl, strand, frames, lib.chunk_parent(genome, ca, cb)))
        if o_[0] != "ok":
            continue
        cds = o_[1]
        res.state(("cdswc", bl, strand, tuple(frames), ca, cb))
        case = dict(kind="window", N=N, blocks=[list(b) for b in bl], strand=strand, frames=list(frames), chunk=[ca, cb])
        for a in range(0, N):
            for b in range(a, N + 1):
                if (a + b + ca + len(bl)) % stride:
                    continue  # (a fraction of the windows per chunk; every window is met on some chunk of some CDS)
                trim5 = max((max(a, ca) - lo) if strand == "+" else (hi - min(b, cb)), 0)
                o = lib.outcome(lambda: list(cds.scan_chunk_relative_codon_locations(a, b, False)))
                res.trans()
                res.nontriv(("winc", bl, strand, tuple(frames), ca, cb, a, b))
                inside = [tuple(p - ca for p in c) for c in F.codons_in_window(allc, max(a, ca), min(b, cb))]
                c = dict(op="scan_chunk_codon_locations", a=a, b=b, expand=False, trim5=trim5, **case)
                cmp_codons(res, "scan_codon_locations", c, o, inside, strand)
                if ca > 0:
                    o = lib.outcome(lambda: list(cds.scan_chromosome_codon_locations(a, b, False)))
                    res.trans()
                    c = dict(op="scan_chromosome_codon_locations", a=a, b=b, expand=False, trim5=max((a - lo) if strand == "+" else (hi - b), 0), **case)
                    cmp_codons(res, "scan_codon_locations", c, o, F.codons_in_window(allc, a, b), strand)


def check_frames(res, N, bl, strand, f0):
    L = lib.mk_loc(bl, strand)
    o = lib.outcome(CDSInterval.construct_frames_from_location, L, CDSFrame(f0))
    res.trans()
    case = dict(kind="frames", N=N, blocks=[list(b) for b in bl], strand=strand, f0=f0)
    res.state(("frames", bl, strand, f0))
    ex = F.exons_5to3(bl, strand)
    # (a first exon SHORTER than the start offset - 1 bp, offset 2 - leaves one base of the offset to the next exon; the
    # generated frames must still describe the one reading frame that skips exactly f0 bases)
    res.note("construct_frames", "first-exon-shorter-than-offset" if len(ex[0]) < f0 else "ok")
    if len(bl) > 1 or f0:
        res.nontriv(("frames", bl, strand, f0))
    if o[0] != "ok" or len(o[1]) != len(bl):
        res.deviation("construct_frames_from_location", case, o[1], "one frame per block", sig="frames-raises")
        return
    fr = [f.value for f in o[1]]
    fr5 = F.frames_5to3(fr, strand)
    kept = F.kept_positions(ex, fr5)
    allp = [p for e in ex for p in e]
    if fr5[0] != f0 or kept != allp[f0:]:
        good = [list(F.frames_5to3(list(v), strand)) for v in itertools.product(range(3), repeat=len(bl)) if v[0] == f0 and F.kept_positions(ex, list(v)) == allp[f0:]]
        res.deviation("construct_frames_from_location", dict(first_exon=len(ex[0]), skipped=len(allp) - len(kept), **case), fr, good[:3], sig="frames-not-uninterrupted")
        return
    # fed back into a CDS: codons == model codons of one uninterrupted frame
    genome = (GENOMES["startstop"] * 2)[:N]
    cds = lib.outcome(mk, bl, strand, fr, genome)
    if cds[0] == "ok":
        exp = [tuple(allp[f0:][3 * i : 3 * i + 3]) for i in range(len(allp[f0:]) // 3)]
        o = lib.outcome(lambda: cds[1].chromosome_codon_locations)
        res.trans()
        cmp_codons(res, "construct_frames->codons", dict(op="frames-codons", **case), o, exp, strand)


STRICT64 = ["".join(p) for p in itertools.product("ACGT", repeat=3)]
AMBIG = ["CTN", "NNN", "RAY", "ATR", "TAR", "GGN", "ACN", "YTG", "ATK", "TGN"]


def check_codontable(res, codon, pos, two_exon):
    filler = "GCA"
    cods = [filler, filler, filler]
    cods[pos] = codon
    genome = "".join(cods) + "CC"
    bl = ((0, 4), (4, 9)) if two_exon else ((0, 9),)
    frames = (0, 1) if two_exon else (0,)
    for strand in "+-":
        g = genome if strand == "+" else F.splice(genome, list(range(len(genome) - 1, -1, -1)), "-")
        if strand == "-":
            # place the coding strand on the minus strand of the reversed-complemented genome
            blm = tuple(sorted((len(g) - e, len(g) - s) for s, e in bl))
            frm = tuple(F.consistent_frames_plus_order(blm, "-", 0))
        else:
            blm, frm = bl, frames
        for tab, trunc, strict in itertools.product((0, 1, 11), (False, True), (True, False)):
            cds = mk(blm, strand, frm, g)
            o = lib.outcome(lambda: str(cds.translate(truncate_at_in_frame_stop=trunc, translation_table=TABLES[tab], strict=strict)))
            res.trans()
            case = dict(kind="codontable", codon=codon, pos=pos, two_exon=two_exon, strand=strand, table=tab, truncate=trunc, strict=strict)
            res.state(("ct", codon, pos, two_exon, strand))
            res.nontriv(("ct", codon, pos, two_exon, strand, tab, trunc, strict))
            try:
                ep = F.translate(cods, tab, trunc, strict)
            except ValueError:
                ep = None
            if ep is None:
                res.note("codontable", "refuse")
                if o[0] == "ok" or not isinstance(o[2], ValueError):
                    res.deviation("translate", case, o[1], "ValueError", sig="ct-strict-accepts")
            else:
                res.note("codontable", "aa")
                if o[0] != "ok" or o[1] != ep:
                    res.deviation("translate", case, o[1], ep, sig="ct-translate")


SCALE_KS = {"quick": (4, 6, 9, 16), "thorough": (4, 5, 6, 7, 8, 9, 11, 16, 24, 33)}


def frame_vectors(k):
    return itertools.product((0, 1, 2), repeat=k)


def run_shard(shard):
    res = ShardResult()
    tier, part = shard["tier"], shard["part"]
    w = WORLD[tier]
    if part == "struct":
        idx = 0
        N = w["N"]
        for bl in worlds.layouts(N, w["k"], "disjoint"):
            for strand in "+-":
                for fv in frame_vectors(len(bl)):
                    idx += 1
                    if idx % NSH != shard["i"]:
                        continue
                    seqc = bl[-1][1] <= w["Nc"]
                    check_struct(res, N, bl, strand, fv, "startstop", seq_checks=seqc)
                    if seqc and sum(e - s for s, e in bl) >= 3:
                        for g in ("iupac", "lower"):
                            check_struct(res, N, bl, strand, fv, g)
        res.sample({"blocks": [[0, 4], [5, 9]], "strand": "-", "frames": [1, 0], "model_codons": [list(c) for c in model_codons(((0, 4), (5, 9)), "-", (1, 0))]})
    elif part == "struct3":
        # three-exon CDS (frameshift at the 3rd exon, 1-2 bp exons) on a smaller chromosome, every frame vector
        idx = 0
        N = w["N3"]
        for bl in worlds.layouts(N, 3, "disjoint"):
            if len(bl) != 3:
                continue
            for strand in "+-":
                for fv in frame_vectors(3):
                    idx += 1
                    if idx % NSH != shard["i"]:
                        continue
                    check_struct(res, N, bl, strand, fv, "startstop", seq_checks=True)
    elif part == "window":
        idx = 0
        N = w["Nw"]
        for bl in worlds.layouts(N, 2, "disjoint"):
            for strand in "+-":
                for fv in frame_vectors(len(bl)):
                    idx += 1
                    if idx % NSH != shard["i"]:
                        continue
                    check_windows(res, N, bl, strand, fv)
                    check_windows_chunk(res, N, bl, strand, fv, stride=5 if tier == "quick" else 1)
        res.sample({"window": "every (a,b) x expand on every CDS of the window world"})
    elif part == "frames":
        idx = 0
        N = w["N"]
        for bl in worlds.layouts(N, 3, "disjoint"):
            idx += 1
            if idx % 8 != shard["i"]:
                continue
            for strand in "+-":
                for f0 in (0, 1, 2):
                    check_frames(res, N, bl, strand, f0)
    elif part == "scale":
        # the scale family (vlib/worlds.py): CDS with many exons; frame vectors: one uninterrupted frame for every start
        # offset, and the same with a programmed frameshift (+1 / +2) at the middle exon
        idx = 0
        for k, bl in worlds.scale_layouts(tier, offset=1, ks=SCALE_KS[tier], npat=2 if tier == "quick" else 3):
            for strand in "+-":
                for f0 in (0, 1, 2):
                    if len(F.exons_5to3(bl, strand)[0]) < f0:
                        continue
                    base = F.consistent_frames_plus_order(bl, strand, f0)
                    mid = len(bl) // 2
                    for bump in (0, 1, 2):
                        idx += 1
                        if idx % 16 != shard["i"]:
                            continue
                        fv = list(base)
                        fv[mid] = (fv[mid] + bump) % 3
                        check_struct(res, bl[-1][1] + 2, bl, strand, tuple(fv), "startstop", seq_checks=True)
        res.sample({"scale": "many-exon CDS", "ks": list(SCALE_KS[tier])})
    elif part == "codontable":
        for idx, codon in enumerate(STRICT64 + AMBIG + [c.lower() for c in ("ATG", "TAA", "CTN")]):
            if idx % 8 != shard["i"]:
                continue
            for pos in (0, 1, 2):
                for two in (False, True):
                    check_codontable(res, codon, pos, two)
    return res


def replay(case):
    res = ShardResult()
    k = case["kind"]
    if k in ("struct", "window", "frames"):
        bl = tuple(tuple(b) for b in case["blocks"])
    if k == "struct":
        check_struct(res, case["N"], bl, case["strand"], tuple(case["frames"]), case["genome"])
    elif k == "window":
        check_windows(res, case["N"], bl, case["strand"], tuple(case["frames"]))
    elif k == "frames":
        check_frames(res, case["N"], bl, case["strand"], case["f0"])
    else:
        check_codontable(res, case["codon"], case["pos"], case["two_exon"])
    keys = ("op", "a", "b", "expand", "table", "truncate", "strict", "strand")
    devs = [d for d in res.deviations if all(d["case"].get(x) == case.get(x) for x in keys)]
    return devs or res.deviations


# ---- known findings -----------------------------------------------------------------------------------------
def _m_lost_first_codon(d):
    """single-exon CDS, non-zero start frame, window cuts the 5' end: start frame and 5' trim offset are added without
    reducing modulo 3 -> the first complete codon inside the window is lost (pinned by the bundled test
    test_single_exon_chunk_relative_translation[3-27-1-24-CDSFrame.TWO-+-PGFHP*])"""
    c = d["case"]
    if d["sig"] not in ("scan_codon_locations-codons", "scan_codon_locations-raises"):
        return False
    if c.get("kind") != "window" or len(c["blocks"]) != 1 or c["expand"]:
        return False
    f0 = c["frames"][0]
    if f0 == 0 or not c.get("trim5"):
        return False
    exp = d["expected"]
    if d["sig"].endswith("raises"):
        return len(exp) == 1
    return d["observed"] == exp[1:]


def _m_negative_block(d):
    """programmed frameshift whose dropped partial codon is longer than the last kept block: the cleaned block gets a
    negative length and InvalidPositionException is raised although complete codons exist"""
    c = d["case"]
    if d["observed"] != "InvalidPositionException" or c.get("kind") not in ("struct", "window", "frames"):
        return False
    if len(c.get("blocks", [])) < 3:
        return False
    bl = [tuple(b) for b in c["blocks"]]
    ex = F.exons_5to3(bl, c["strand"])
    fr = F.frames_5to3(c["frames"], c["strand"])
    # model of the library's cleaning: does trimming the previous block by `shift` exceed that block's kept length?
    running, kept_blocks = 0, []
    for pos, f in zip(ex, fr):
        n = len(pos)
        if f != running:
            shift = sum(kept_blocks) % 3
            if shift and kept_blocks and kept_blocks[-1] < shift:
                return True
            if shift and kept_blocks:
                kept_blocks[-1] -= shift
            n -= f
            running = 0
        if n <= 0:
            continue
        kept_blocks.append(n)
        running = (running + n) % 3
    return False


def _m_frames_short_first_exon(d):
    """construct_frames_from_location, first exon (5'->3') shorter than the start offset (1 bp exon, offset 2): the
    second exon's frame is computed as (1 - 2) mod 3 = 2 and the codon walk then skips 1 + 2 (or more) bases instead of 2
    (pinned by the bundled test test_construct_frames_from_location[location0-CDSFrame.TWO-expected0])"""
    c = d["case"]
    if d["sig"] != "frames-not-uninterrupted" or c.get("kind") != "frames":
        return False
    if not (c.get("first_exon") == 1 and c.get("f0") == 2 and c.get("skipped", 0) > 2):
        return False
    # wrong-answer shape: exactly the library's formula (offset subtracted from the first length, frames by running sum)
    return d["observed"] == F.consistent_frames_plus_order([tuple(b) for b in c["blocks"]], c["strand"], 2)


MATCHERS = {"c05_lost_first_codon": _m_lost_first_codon, "c05_negative_block": _m_negative_block, "c05_frames_short_first_exon": _m_frames_short_first_exon}
