"""C16 - genomic bin assignment is the UCSC scheme and never hides a contained feature."""
import itertools

from vlib import lib
from vlib.runner import ShardResult

from inscripta.biocantor.util.bins import bins

PROPERTY = "C16"
TITLE = "Genomic bin assignment is the UCSC scheme and never hides a contained feature"
RULE = (
    "all (start,end) pairs inside and across the bands [m*2^s-3, m*2^s+3] for s in {17,20,23,26,29}, m in "
    "{0,1,2,7,8,9,last}, both coordinate conventions, out-of-range values; soundness triples (interval I, range R) "
    "over the same pairs; thorough adds a lattice of all multiples of 2^14 (+0/+1) up to 2^30 with a menu of lengths. "
    "Non-trivial = interval touches or straddles a bin boundary of some level."
)
ASSUMPTIONS = [
    "oracle: kent binFromRangeExtended transcribed from the published algorithm (offsets 4681,585,73,9,1; 128kb first level) "
    "restricted to coordinates < 2^29",
]

SHIFTS = (17, 20, 23, 26, 29)
MAXC = 2**29
OFFS = (4681, 585, 73, 9, 1)


def kent(start, end):
    """smallest standard bin containing the half-open interval [start,end) (0-based); 1 when out of range"""
    if start < 0 or end < 0 or start >= MAXC or end > MAXC:
        return 1
    sb = start >> 17
    eb = (max(end - 1, start)) >> 17
    for off in OFFS:
        if sb == eb:
            return off + sb
        sb >>= 3
        eb >>= 3
    return 1


def kent_overlapping(start, end):
    out = set()
    if start < 0 or end < 0 or start >= MAXC or end > MAXC:
        return {1}
    sb = start >> 17
    eb = (max(end - 1, start)) >> 17
    for off in OFFS:
        out.update(range(off + sb, off + eb + 1))
        sb >>= 3
        eb >>= 3
    return out


def bin_span(b):
    """[lo,hi) covered by bin id b"""
    for lvl, off in enumerate(OFFS):
        nxt = OFFS[lvl - 1] if lvl > 0 else None
        size = 1 << (17 + 3 * lvl)
        n = MAXC // size
        if off <= b < off + n:
            i = b - off
            return i * size, (i + 1) * size
    return None


def band_points():
    pts = set()
    for s in SHIFTS:
        last = (MAXC >> s)
        for m in (0, 1, 2, 7, 8, 9, last - 1, last):
            B = m << s
            if B > MAXC:
                continue
            for d in range(-3, 4):
                pts.add(B + d)
    return sorted(pts)


def world_description(tier):
    n = len(band_points())
    return f"{n} band points -> all ordered pairs start<=end (x fmt x one) + soundness triples; thorough adds the 2^14 lattice and the bands of EVERY multiple of 2^17 up to 2^30"


def shards(tier, seed):
    out = [{"part": "pairs", "i": i, "n": 8} for i in range(8)]
    out += [{"part": "sound", "i": i, "n": 16} for i in range(16)]
    out += [{"part": "stored", "i": i, "n": 4} for i in range(4)]
    out += [{"part": "query", "i": i, "n": 8} for i in range(8)]
    if tier == "thorough":
        out += [{"part": "lattice", "i": i, "n": 32} for i in range(32)]
        out += [{"part": "soundlat", "i": i, "n": 16} for i in range(16)]
        out += [{"part": "allbands", "i": i, "n": 32} for i in range(32)]
    return out


def boundary_touch(s, e):
    return any((s >> sh) != ((e - 1) >> sh) or s % (1 << sh) == 0 or e % (1 << sh) == 0 for sh in SHIFTS)


def check_one(res, start, end, fmt):
    """fmt 'bed': [start,end) 0-based; fmt 'gff': [start,end] 1-based closed == bed [start-1,end)"""
    res.trans()
    o = lib.outcome(bins, start, end, fmt, True)
    if fmt == "bed":
        bs, be = start, end
    else:
        bs, be = start - 1, end
    lib_oor = start < 0 or end < 0 or start >= MAXC or end >= MAXC
    case = {"start": start, "end": end, "fmt": fmt, "one": True}
    if o[0] != "ok":
        res.deviation("bins", case, o[1], "bin id", sig="bins-raises")
        return None
    got = o[1]
    if not isinstance(got, int):
        res.deviation("bins", case, repr(got), "int", sig="bins-type")
        return None
    if bs < 0 or be < 0 or bs >= MAXC or be > MAXC:
        res.note("one", "out-of-range")
        if got != 1:
            res.deviation("bins", case, got, 1, sig="bins-out-of-range")
        return got
    exp = kent(bs, be)
    if boundary_touch(bs, be):
        res.nontriv((start, end, fmt))
    res.state(("bin", got))
    if got != exp:
        res.note("one", "differs-from-kent")
        closed = kent(bs, be + 1) if be + 1 <= MAXC else 1
        res.deviation("bins", case, got, exp, sig="bins-not-smallest", closed_answer=closed, end_on_boundary=(be % (1 << 17) == 0))
    else:
        res.note("one", "kent")
    # whatever the level, the bin must contain the interval
    sp = bin_span(got)
    if sp is None or not (sp[0] <= bs and max(be, bs) <= sp[1]):
        res.deviation("bins", case, got, f"a bin containing [{bs},{be})", sig="bins-not-containing")
    return got


def check_set(res, start, end, fmt):
    res.trans()
    o = lib.outcome(bins, start, end, fmt, False)
    case = {"start": start, "end": end, "fmt": fmt, "one": False}
    if o[0] != "ok":
        res.deviation("bins", case, o[1], "set", sig="bins-set-raises")
        return None
    got = o[1]
    if not isinstance(got, (set, frozenset)):
        res.deviation("bins", case, repr(got)[:60], "set", sig="bins-set-type")
        return None
    if 1 not in got:
        res.deviation("bins", case, sorted(got)[:10], "contains bin 1", sig="bins-set-root")
    return got


def run_shard(shard):
    res = ShardResult()
    part = shard["part"]
    pts = band_points()
    if part == "pairs":
        extra = [-5, -1, MAXC, MAXC + 1, 2**30, 2**31]
        allp = sorted(set(pts + extra))
        for idx, s in enumerate(allp):
            if idx % shard["n"] != shard["i"]:
                continue
            for e in allp:
                if e < s:
                    continue
                for fmt in ("bed", "gff"):
                    check_one(res, s, e, fmt)
                    check_set(res, s, e, fmt)
        res.sample({"start": 131069, "end": 131075, "fmt": "bed", "kent": kent(131069, 131075)})
    elif part == "sound":
        # soundness: interval I (bed), query range R (bed): I within R or overlapping R => bin(I) in bins(R)
        valid = [p for p in pts if 0 <= p < MAXC]
        # query ranges may reach beyond the addressable 2^29 (chromosomes longer than 512 Mb): the bin set must still
        # contain the bin of every interval inside/overlapping the range
        rvalid = valid + [MAXC, MAXC + 1, MAXC + 3, 2**30 - 1, 2**30]
        ranges = [(s, e) for s in rvalid for e in rvalid if s < e]
        my = ranges[shard["i"] :: shard["n"]]
        # intervals: a reduced but complete-per-band set: pairs within the same or neighbouring band
        ivs = [(s, e) for s in rvalid for e in rvalid if s < e and e - s <= (1 << 17) + 8]
        ivbins = {}
        for (s, e) in ivs:
            ivbins[(s, e)] = bins(s, e, fmt="bed", one=True)
        for (rs, re_) in my:
            o = lib.outcome(bins, rs, re_, "bed", False)
            if o[0] != "ok":
                res.deviation("bins", {"start": rs, "end": re_, "fmt": "bed", "one": False}, o[1], "set", sig="bins-set-raises")
                continue
            rb = o[1]
            res.state(("range", rs, re_))
            for (s, e), b in ivbins.items():
                if s < re_ and e > rs:  # overlapping (contains 'contained in')
                    res.trans()
                    contained = rs <= s and e <= re_
                    res.note("sound", "contained" if contained else "overlap")
                    if contained:
                        res.nontriv((rs, re_, s, e))
                    if b not in rb:
                        res.deviation(
                            "bins",
                            {"range": [rs, re_], "interval": [s, e]},
                            f"bin {b} of interval not in query bins",
                            "member",
                            sig="bins-unsound-" + ("contained" if contained else "overlap"),
                        )
        res.sample({"range": list(my[0]) if my else None})
    elif part == "stored":
        for idx, span in enumerate(_boundary_spans()):
            if idx % shard["n"] != shard["i"]:
                continue
            for kind in ("none", "id", "chunk"):
                if kind == "chunk" and span[1] + 5 > MAXC + 10:
                    continue
                check_stored(res, span, kind)
        res.sample({"stored": "bin attribute of transcript/gene/feature/collections/variants at boundary spans"})
    elif part == "query":
        spans = [sp for sp in _boundary_spans() if sp[1] - sp[0] >= 1]
        groups = [spans[i : i + 3] for i in range(0, len(spans) - 2)]
        for idx, grp in enumerate(groups):
            if idx % shard["n"] != shard["i"]:
                continue
            lo = min(s for s, e in grp)
            hi = max(e for s, e in grp)
            pts = sorted({max(lo - 2, 1), lo, lo + 1, hi - 1, hi, hi + 2} | {s for s, e in grp} | {e for s, e in grp})
            for qs in pts:
                for qe in pts:
                    if qs < qe and qs >= max(lo - 4, 0) and qe <= hi + 4:
                        check_query(res, grp, (qs, qe))
        for idx, (B, win) in enumerate(multi_cases()):
            if idx % shard["n"] == shard["i"]:
                check_query_multi(res, B, win)
        res.sample({"query": "strict/relaxed range queries on collections at boundary coordinates vs brute force"})
    elif part == "lattice":
        lens = [0, 1, 2, (1 << 14), (1 << 17) - 1, (1 << 17), (1 << 17) + 1, (1 << 20) - 1, (1 << 20), (1 << 20) + 1, (1 << 23), (1 << 23) + 1, (1 << 26), (1 << 26) + 1, (1 << 29) - 1]
        k = 0
        for m in range(0, (1 << 30) >> 14):
            k += 1
            if k % shard["n"] != shard["i"]:
                continue
            for d in (0, 1):
                s = (m << 14) + d
                for ln in lens:
                    for fmt in ("bed", "gff"):
                        check_one(res, s, s + ln, fmt)
        res.sample({"lattice_step": 1 << 14})
    elif part == "allbands":
        # EVERY multiple of 2^17 up to 2^30 (not only the menu m in {0,1,2,7,8,9,last}): all (start,end) with start in the
        # band of B and end in the band of B + j*2^17 for j spanning the same bin, the next one, and distances that cross a
        # boundary of each higher level (8, 64, 512, 4096 first-level bins)
        W = 1 << 17
        for m in range(0, (1 << 30) >> 17):
            if m % shard["n"] != shard["i"]:
                continue
            B = m << 17
            for j in (0, 1, 7, 8, 9, 63, 64, 65, 511, 512, 4095, 4096):
                B2 = B + j * W
                for ds in (-2, -1, 0, 1, 2):
                    for de in (-2, -1, 0, 1, 2):
                        s_, e_ = B + ds, B2 + de
                        if s_ < 0 or e_ < s_:
                            continue
                        check_one(res, s_, e_, "bed")
                        if e_ > s_:  # (a closed 1-based interval cannot be empty)
                            check_one(res, s_ + 1, e_, "gff")
                # soundness on the same band: the window [B-2, B2+2) must offer the bin of every interval of the band pair
                rb = lib.outcome(bins, max(B - 2, 0), B2 + 2, "bed", False)
                if rb[0] == "ok" and j in (0, 1, 8, 64):
                    for ds in (-2, 0, 1):
                        for de in (-1, 0, 2):
                            s_, e_ = B + ds, B2 + de
                            if 0 <= s_ < e_ <= MAXC:
                                res.trans()
                                b = bins(s_, e_, fmt="bed", one=True)
                                if b not in rb[1]:
                                    res.deviation("bins", {"range": [max(B - 2, 0), B2 + 2], "interval": [s_, e_]}, f"bin {b} not in query bins", "member", sig="bins-unsound-contained")
        res.sample({"allbands": "every multiple of 2^17 up to 2^30"})
    elif part == "soundlat":
        # soundness on lattice: ranges = aligned/unaligned windows of sizes around each level; intervals inside them
        sizes = [(1 << 17), (1 << 17) + 1, (1 << 20), (1 << 20) - 1, 3 * (1 << 17) + 5, (1 << 23) + 7]
        k = 0
        for m in range(0, MAXC >> 17):
            k += 1
            if k % shard["n"] != shard["i"]:
                continue
            for d in (-1, 0, 1):
                rs = (m << 17) + d
                if rs < 0:
                    continue
                for sz in sizes:
                    re_ = rs + sz
                    if re_ >= MAXC:
                        continue
                    rb = bins(rs, re_, fmt="bed", one=False)
                    res.state(("range", rs, re_))
                    for (s, e) in ((rs, re_), (rs, rs + 1), (re_ - 1, re_), (rs + 1, re_ - 1), (rs, (rs | ((1 << 17) - 1)) + 1), (max(rs, re_ - (1 << 17)), re_)):
                        if not (rs <= s < e <= re_):
                            continue
                        res.trans()
                        res.nontriv((rs, re_, s, e))
                        b = bins(s, e, fmt="bed", one=True)
                        if b not in rb:
                            res.deviation("bins", {"range": [rs, re_], "interval": [s, e]}, f"bin {b} not in query bins", "member", sig="bins-unsound-contained")
        res.sample({"lattice": "2^17 aligned windows"})
    return res


# ---- bins stored on intervals, and the pre-filter inside real range queries ------------------------------------------------
def _boundary_spans():
    """(start, end) spans touching / straddling a boundary of every level, plus spans whose smallest bin is the root"""
    out = []
    for s in SHIFTS:
        for m in (1, 2, 8):
            B = m << s
            if B >= MAXC:
                B = MAXC - (1 << 17)
            out += [(B - 3, B - 1), (B - 2, B), (B - 1, B + 2), (B, B + 3), (B + 1, B + 2)]
            # one-base children on either side of / across the boundary (a shortened bin set would lose exactly these)
            out += [(B - 1, B), (B, B + 1), (B - 1, B + 1), (B - 3, B + 3)]
    out += [((1 << 26) - 2, (1 << 26) + 2), (3 * (1 << 26) - 1, 3 * (1 << 26) + 1), (MAXC - 5, MAXC - 1), (MAXC - 2, MAXC + 3), (MAXC + 1, MAXC + 4)]
    return sorted(set(out))


def check_stored(res, span, kind):
    """the bin attribute of every interval class is the bin of its GENOMIC span, also when built on a chunk"""
    from vlib import lib
    from inscripta.biocantor.gene.gene import GeneInterval
    from inscripta.biocantor.gene.feature import FeatureIntervalCollection
    from inscripta.biocantor.gene.variants import VariantInterval, VariantIntervalCollection
    from inscripta.biocantor.io.parser import seq_chunk_to_parent
    from inscripta.biocantor.parent import Parent

    s, e = span
    case = {"stored": kind, "span": [s, e]}
    if kind == "chunk":
        a = max(0, s - 7)
        par = seq_chunk_to_parent("ACGTACGTACGTACGTACGTACGT"[: (e - a) + 5], "chrV", a, e + 5)
    elif kind == "id":
        par = Parent(id="chrV", sequence_type="chromosome")
    else:
        par = None
    exp = kent(s, e)
    closed = kent(s, e + 1) if e + 1 <= MAXC else 1
    objs = {}
    o = lib.outcome(lib.mk_tx, ((s, s + 1), (e - 1, e)) if e - s >= 3 else ((s, e),), "+", None, None, par)
    if o[0] == "ok":
        objs["transcript"] = o[1]
        g = lib.outcome(lambda: GeneInterval([o[1]], parent_or_seq_chunk_parent=par))
        if g[0] == "ok":
            objs["gene"] = g[1]
    if e - s >= 2 and s >= (1 << 17) and kind != "chunk":
        # three blocks handed over in ROTATED order (last block first): the stored bin is that of the genomic span all the same
        from inscripta.biocantor.gene.transcript import TranscriptInterval
        from inscripta.biocantor.gene.feature import FeatureInterval

        s0 = s - (1 << 17)  # (the first block one whole 128 kb bin below the others: a start taken from another block changes the bin)
        bl3 = [(e - 1, e), (s0, s0 + 1), (s, s + 1)]
        for nm_, cls_ in (("transcript-rotated", TranscriptInterval), ("feature-rotated", FeatureInterval)):
            r3 = lib.outcome(lambda: cls_([b[0] for b in bl3], [b[1] for b in bl3], lib.STRAND["+"], parent_or_seq_chunk_parent=par))
            if r3[0] == "ok":
                res.trans()
                b3_ = getattr(r3[1], "bin", None)
                e3_ = kent(s0, e)
                if b3_ not in (e3_, kent(s0, e + 1) if e + 1 <= MAXC else 1):
                    res.deviation("bin", dict(cls=nm_, **case), b3_, e3_, sig=f"stored-bin-{nm_}")
            else:
                res.deviation("bin", dict(cls=nm_, **case), r3[1], exp, sig=f"stored-bin-{nm_}-raises")
    f = lib.outcome(lib.mk_feat, ((s, e),), "-", par)
    if f[0] == "ok":
        objs["feature"] = f[1]
        fc = lib.outcome(lambda: FeatureIntervalCollection([f[1]], parent_or_seq_chunk_parent=par))
        if fc[0] == "ok":
            objs["feature_collection"] = fc[1]
    if kind != "chunk":
        v = lib.outcome(lambda: VariantInterval(s, e, "A", "x", parent_or_seq_chunk_parent=par))
        if v[0] == "ok":
            objs["variant"] = v[1]
    for name, obj in objs.items():
        res.trans()
        res.state(("stored", name, s, e, kind))
        res.nontriv(("stored", name, s, e, kind))
        b = getattr(obj, "bin", None)
        res.note("stored", name)
        if b not in (exp, closed):
            res.deviation("bin", dict(cls=name, **case), b, exp, sig=f"stored-bin-{name}")


def check_query(res, spans, qrange):
    """strict range query on a sequence-less collection == brute force over the child spans (the pre-filter must be invisible)"""
    from vlib import lib
    from inscripta.biocantor.gene.gene import GeneInterval
    from inscripta.biocantor.gene.collections import AnnotationCollection

    genes = []
    for i, (s, e) in enumerate(spans):
        genes.append(GeneInterval([lib.mk_tx(((s, e),), "+", transcript_id=f"t{i}")], gene_id=f"g{i}"))
    lo = min(s for s, e in spans) - 4
    hi = max(e for s, e in spans) + 4
    ac = AnnotationCollection(genes=genes, start=max(lo, 0), end=hi)
    qs, qe = qrange
    case = {"query": [list(x) for x in spans], "range": [qs, qe]}
    res.state(("query", tuple(spans), qs, qe))
    res.nontriv(("query", tuple(spans), qs, qe))
    # history: the bin set of a window is a value.  It is asked for before anything else, a DIFFERENT collection (only
    # the first gene) is queried with the same window first, and the caller's own copy of the set is emptied; none of
    # that may change what the window's bin set is afterwards or what the full collection answers
    before = lib.outcome(lambda: frozenset(bins(qs, qe, fmt="bed", one=False)))
    sub = AnnotationCollection(genes=[GeneInterval([lib.mk_tx((spans[0],), "+", transcript_id="t0")], gene_id="g0")], start=max(lo, 0), end=hi)
    for cw in (True, False):
        res.trans()
        o = lib.outcome(lambda: sorted(g.gene_id for g in sub.query_by_position(qs, qe, completely_within=cw).genes))
        s0, e0 = spans[0]
        exp = ["g0"] if ((s0 >= qs and e0 <= qe) if cw else (s0 < qe and e0 > qs)) else []
        if o[0] != "ok" or o[1] != exp:
            res.deviation("query_by_position", dict(completely_within=cw, sub_collection=True, **case), o[1], exp, sig="query-membership-sub-" + ("strict" if cw else "relaxed"))
    mine = lib.outcome(lambda: bins(qs, qe, fmt="bed", one=False))
    if mine[0] == "ok" and isinstance(mine[1], set):
        mine[1].clear()
    after = lib.outcome(lambda: frozenset(bins(qs, qe, fmt="bed", one=False)))
    res.trans()
    if before[0] == "ok" and (after[0] != "ok" or after[1] != before[1]):
        res.deviation("bins", dict(history="bins, query on another collection, caller empties its copy, bins", **case),
                      sorted(after[1]) if after[0] == "ok" else after[1], sorted(before[1]), sig="bins-set-history-dependent")
    for cw in (True, False):
        o = lib.outcome(lambda: sorted(g.gene_id for g in ac.query_by_position(qs, qe, completely_within=cw).genes))
        res.trans()
        if cw:
            exp = sorted(f"g{i}" for i, (s, e) in enumerate(spans) if s >= qs and e <= qe)
        else:
            exp = sorted(f"g{i}" for i, (s, e) in enumerate(spans) if s < qe and e > qs)
        res.note("query", "strict" if cw else "relaxed")
        if o[0] != "ok" or o[1] != exp:
            res.deviation("query_by_position", dict(completely_within=cw, **case), o[1], exp, sig="query-membership-" + ("strict" if cw else "relaxed"))


def check_query_multi(res, B, window):
    """a gene / feature collection whose members lie in DIFFERENT smallest-level bins (one just below the boundary B,
    one a whole 128 kb bin above it) and a window anywhere around and between them: the answer is brute force over the
    spans of the top-level children (a gene overlaps a window lying between its isoforms)"""
    from vlib import lib
    from inscripta.biocantor.gene.gene import GeneInterval
    from inscripta.biocantor.gene.feature import FeatureIntervalCollection
    from inscripta.biocantor.gene.collections import AnnotationCollection

    W = 1 << 17
    members = [(B - 3, B - 1), (B + W + 1, B + W + 3)]
    lone = (B + 2, B + 4)
    gene = GeneInterval([lib.mk_tx((m,), "+", transcript_id=f"t{i}") for i, m in enumerate(members)], gene_id="multi")
    fc = FeatureIntervalCollection([lib.mk_feat((m,), "-", feature_id=f"f{i}") for i, m in enumerate(members)], feature_collection_id="multifc")
    g1 = GeneInterval([lib.mk_tx((lone,), "-", transcript_id="tl")], gene_id="lone")
    ac = AnnotationCollection(genes=[gene, g1], feature_collections=[fc], start=max(B - 10, 0), end=B + W + 10)
    spans = {"multi": (members[0][0], members[1][1]), "multifc": (members[0][0], members[1][1]), "lone": lone}
    qs, qe = window
    case = {"multi": B, "range": [qs, qe]}
    res.state(("multi", B, qs, qe))
    res.nontriv(("multi", B, qs, qe))
    for cw in (True, False):
        res.trans()
        def ask():
            r = ac.query_by_position(qs, qe, completely_within=cw)
            return sorted([g.gene_id for g in r.genes] + [f.feature_collection_id for f in r.feature_collections])

        o = lib.outcome(ask)
        if cw:
            exp = sorted(k for k, (s, e) in spans.items() if s >= qs and e <= qe)
        else:
            exp = sorted(k for k, (s, e) in spans.items() if s < qe and e > qs)
        res.note("query-multi", ("strict" if cw else "relaxed") + ("-between" if members[0][1] <= qs and qe <= members[1][0] else ""))
        if o[0] != "ok" or o[1] != exp:
            res.deviation("query_by_position", dict(completely_within=cw, **case), o[1], exp, sig="query-multi-membership-" + ("strict" if cw else "relaxed"))


def multi_cases():
    W = 1 << 17
    for s in SHIFTS:
        for m in (1, 2, 8):
            B = m << s
            if B + 2 * W >= MAXC:
                continue
            pts = [B - 5, B - 3, B - 2, B - 1, B, B + 1, B + 3, B + 5, B + 9, B + W - 1, B + W, B + W + 1, B + W + 2, B + W + 3, B + W + 6]
            for qs in pts:
                for qe in pts:
                    if 0 < qs < qe:
                        yield B, (qs, qe)


def replay(case):
    res = ShardResult()
    if "multi" in case:
        check_query_multi(res, case["multi"], tuple(case["range"]))
        return res.deviations
    if "stored" in case:
        check_stored(res, tuple(case["span"]), case["stored"])
        return res.deviations
    if "query" in case:
        check_query(res, [tuple(x) for x in case["query"]], tuple(case["range"]))
        return res.deviations
    if "range" in case:
        rs, re_ = case["range"]
        s, e = case["interval"]
        b = bins(s, e, fmt="bed", one=True)
        rb = bins(rs, re_, fmt="bed", one=False)
        if b not in rb:
            res.deviation("bins", case, f"bin {b} not in query bins", "member", sig="bins-unsound-" + ("contained" if rs <= s and e <= re_ else "overlap"))
    elif case.get("one"):
        check_one(res, case["start"], case["end"], case["fmt"])
    else:
        check_set(res, case["start"], case["end"], case["fmt"])
    return res.deviations


def _m_closed_end(d):
    """the library shifts `stop` rather than `stop-1` (copied from gffutils): at an end lying exactly on a 128 kb
    boundary it answers with the smallest bin containing the CLOSED interval [start,end]"""
    return (
        d["sig"] == "bins-not-smallest"
        and d.get("end_on_boundary") is True
        and d["observed"] == d.get("closed_answer")
    )


MATCHERS = {"c16_closed_end": _m_closed_end}
