"""C03 - extracted sequence is the base-by-base image of the coordinate map; sequence objects keep their location."""
import itertools

from vlib import lib, worlds
from vlib.model import loc as M
from vlib.model import frame as F
from vlib.runner import ShardResult

from inscripta.biocantor.exc import AlphabetError, BioCantorException
from inscripta.biocantor.location.location_impl import _EmptyLocation
from inscripta.biocantor.parent import Parent
from inscripta.biocantor.sequence import Sequence
from inscripta.biocantor.sequence.alphabet import Alphabet

PROPERTY = "C03"
TITLE = "Extracted sequence is the base-by-base image of the coordinate map"
RULE = (
    "every location (disjoint layouts incl. adjacent blocks, <=3 blocks, both strands) over designed genomes of all five "
    "nucleotide alphabets (every position carries a different symbol/case; quick: rotations covering every letter in both cases, thorough: all rotations): extraction, "
    "reverse-strand extraction, every 2- and 3-way split; located sequences built on every location: every slice "
    "s[a:b], s[i], s[:b], s[a:], reverse_complement (twice), append for every ordered pair of slices (compatible or "
    "not). Non-trivial = >=2 blocks or minus strand or a cut inside/at a block boundary."
)
ASSUMPTIONS = [
    "complement letters themselves are decided completely in C15; here the IUPAC complement table of vlib/model/frame.py is used",
    "designed genomes make string equality equivalent to equality of position lists (every position distinguishable)",
]

ALPHS = {
    "NT_STRICT": "ACGTacgt",
    "NT_STRICT_GAPPED": "ACGT-acgt",
    "NT_STRICT_UNKNOWN": "ACGTNacgtn",
    "NT_EXTENDED": "ACGTURYKMSWBDHVNacgturykmswbdhvn",
    "NT_EXTENDED_GAPPED": "ACGTURYKMSWBDHVN-acgturykmswbdhvn",
}
WORLD = {"quick": dict(N=7, k=3, rots=2, Nl=6, Nodd=5), "thorough": dict(N=10, k=3, rots=None, Nl=7, Nodd=7)}
NSH = 32


def world_description(tier):
    w = WORLD[tier]
    return (
        f"extraction: layouts N={w['N']} k<={w['k']} x 5 alphabets x rotations {w['rots'] or 'all'}; located sequences: layouts N={w['Nl']} k<=3; extraction / reverse strand / 2-way splits on all +zero-length and +overlap layouts N={w['Nodd']} k<=3; "
        f"scale family: {len(list(worlds.scale_layouts(tier)))} layouts with k in {worlds.SCALE_K[tier]} blocks x 2 alphabets x strands: "
        f"extraction, reverse strand, every 2/3-way split at block boundaries (+-1 for k<=6); located sequences (k<=16) sliced at "
        f"block boundaries, reverse complement, appends"
    )


def shards(tier, seed):
    return [{"tier": tier, "part": p, "i": i} for p in ("extract", "located", "scale", "odd") for i in range(NSH)]


def genome_for(aname, N, rot):
    letters = ALPHS[aname]
    return "".join(letters[(i + rot) % len(letters)] for i in range(N))


def X(bl, strand, G):
    return F.splice(G, M.P(bl, strand), strand)


def revcomp(text):
    return "".join(F.COMP[c] for c in reversed(text))


def tu(text):
    """identify the RNA letter with T (a complemented U comes back as T; see C15)"""
    return text.replace("U", "T").replace("u", "t")


def check_extract_odd(res, aname, N, bl, strand, mode):
    """layouts with zero-length and/or OVERLAPPING blocks ("any block structure"): the extracted text is the image of the
    library's own point-wise map (C01 decides that map; blocks that share a start may be walked in either order), the
    reverse strand spells the reverse complement, and consecutive sub-intervals split the text."""
    G = genome_for(aname, N, 0)
    alpha = Alphabet[aname]
    par = lib.seq_parent(G, alphabet=alpha)
    L = lib.mk_loc(bl, strand, par)
    case = dict(kind="odd", mode=mode, alphabet=aname, N=N, blocks=[list(b) for b in bl], strand=strand)
    res.state(("odd", aname, bl, strand))
    res.nontriv(("odd", aname, bl, strand))
    adm = [F.splice(G, P_, strand) for P_ in M.admissible_P(bl, strand)]
    o = lib.outcome(lambda: str(L.extract_sequence()))
    res.trans()
    res.note("extract-odd", mode)
    if not adm[0]:
        # nothing but zero-length blocks: an empty text or a documented refusal
        if (o[0] == "ok" and o[1] != "") or (o[0] != "ok" and not lib.is_documented_exc(o[2])):
            res.deviation("extract_sequence", case, o[1], "", sig="odd-empty")
        return
    if o[0] != "ok" or o[1] not in adm:
        res.deviation("extract_sequence", case, o[1], adm[0], sig="odd-text")
        return
    text = o[1]
    ln = len(text)
    # the point-wise map spells the same text
    o = lib.outcome(lambda: "".join(F.base(G, L.relative_to_parent_pos(r), strand) for r in range(ln)))
    res.trans()
    if o[0] != "ok" or o[1] != text:
        res.deviation("extract_sequence", case, text, o[1], sig="odd-vs-pointwise")
    # reverse strand = reverse complement
    o = lib.outcome(lambda: str(L.reverse_strand().extract_sequence()))
    res.trans()
    if o[0] != "ok" or tu(o[1]) != tu(revcomp(text)):
        res.deviation("reverse_strand.extract_sequence", case, o[1], revcomp(text), sig="odd-revstrand", same_start=len({b[0] for b in bl}) < len(bl))
    # two-way splits (proper sub-intervals on both sides)
    for c1 in range(1, ln):
        o = lib.outcome(lambda: [str(L.relative_interval_to_parent_location(a, b, lib.STRAND["+"]).extract_sequence()) for a, b in ((0, c1), (c1, ln))])
        res.trans()
        if o[0] != "ok":
            res.deviation("split", dict(cut=c1, **case), o[1], [text[:c1], text[c1:]], sig="odd-split-raises")
        elif "".join(o[1]) != text:
            if sorted("".join(o[1])) == sorted(text) and mode == "overlap":
                # the C01-overlap-order representation limit: sub-blocks of overlapping blocks are re-sorted by start
                res.extra["odd_split_overlap_order"] += 1
            else:
                res.deviation("split", dict(cut=c1, **case), o[1], [text[:c1], text[c1:]], sig="odd-split-text")


def check_extract(res, aname, rot, N, bl, strand, scale=False):
    G = genome_for(aname, N, rot)
    alpha = Alphabet[aname]
    par = lib.seq_parent(G, alphabet=alpha)
    L = lib.mk_loc(bl, strand, par)
    case = dict(kind="extract", alphabet=aname, rot=rot, N=N, blocks=[list(b) for b in bl], strand=strand, scale=scale)
    res.state(("ext", aname, rot, bl, strand))
    if len(bl) > 1 or strand == "-":
        res.nontriv(("ext", aname, rot, bl, strand))
    exp = X(bl, strand, G)
    o = lib.outcome(lambda: L.extract_sequence())
    res.trans()
    if o[0] != "ok" or str(o[1]) != exp:
        res.deviation("extract_sequence", case, str(o[1]) if o[0] == "ok" else o[1], exp, sig="extract-text")
        return
    if o[1].alphabet is not alpha:
        res.deviation("extract_sequence", case, o[1].alphabet.name, aname, sig="extract-alphabet")
    res.note("extract", strand + str(len(bl)))
    # the same location object asked again (and block by block, twice): extraction is a function of the location
    for rep in (2, 3):
        o = lib.outcome(lambda: (str(L.extract_sequence()), [str(b_.extract_sequence()) for b_ in L.blocks]))
        res.trans()
        exp_blocks = [X((b_,), strand, G) for b_ in sorted(bl)]
        if o[0] != "ok" or o[1][0] != exp or o[1][1] != exp_blocks:
            res.deviation("extract_sequence", dict(repeat=rep, **case), list(o[1]) if o[0] == "ok" else o[1], [exp, exp_blocks], sig="extract-repeat")
            break
    # reverse strand = reverse complement
    o = lib.outcome(lambda: str(L.reverse_strand().extract_sequence()))
    res.trans()
    exp_rev = X(bl, M.strand_rev(strand), G)
    if o[0] != "ok" or o[1] != exp_rev or tu(o[1]) != tu(revcomp(exp)):
        res.deviation("reverse_strand.extract_sequence", case, o[1], exp_rev, sig="extract-revstrand")
    # splits
    ln = len(exp)
    cps = range(0, ln + 1) if not scale else worlds.boundary_points(bl, around=1 if len(bl) <= 6 else 0)
    for c1 in cps:
        for c2 in cps:
            if c2 < c1:
                continue
            cuts = [0, c1, c2, ln]
            parts = []
            ok = True
            for a, b in zip(cuts, cuts[1:]):
                if a == b:
                    continue
                o = lib.outcome(lambda: str(L.relative_interval_to_parent_location(a, b, lib.STRAND["+"]).extract_sequence()))
                res.trans()
                if o[0] != "ok":
                    res.deviation("split", dict(cuts=cuts, **case), o[1], exp[a:b], sig="split-raises")
                    ok = False
                    break
                parts.append(o[1])
            if ok and "".join(parts) != exp:
                res.deviation("split", dict(cuts=cuts, **case), parts, exp, sig="split-text")
            res.nontriv(("split", aname, rot, bl, strand, c1, c2))


def located(G, alpha, bl, strand):
    """a sequence that records its location on the chromosome, the way seq_chunk_to_parent builds one"""
    L = lib.mk_loc(bl, strand, Parent(id="chrV", sequence_type="chromosome"))
    return Sequence(X(bl, strand, G), alpha, id="piece", type="sequence_chunk", parent=Parent(location=L))


def consistent(seq, G):
    """str(s) == X(s.parent.location, G) ?"""
    loc = seq.location_on_parent
    if loc is None:
        return None
    if type(loc) is _EmptyLocation or len(loc) == 0:
        return str(seq) == ""
    if any(not (0 <= p < len(G)) for p in M.P(lib.loc_blocks(loc), lib.loc_strand(loc))):
        return False  # a recorded location that leaves the chromosome spells nothing
    return tu(str(seq)) == tu(X(lib.loc_blocks(loc), lib.loc_strand(loc), G)) and len(loc) == len(seq)


def check_located(res, aname, N, bl, strand, scale=False):
    G = genome_for(aname, N, 0)
    alpha = Alphabet[aname]
    s = located(G, alpha, bl, strand)
    text = str(s)
    ln = len(text)
    Pm = M.P(bl, strand)
    case = dict(kind="located", alphabet=aname, N=N, blocks=[list(b) for b in bl], strand=strand, scale=scale)
    res.state(("located", aname, bl, strand))
    pts = range(0, ln + 1) if not scale else worlds.boundary_points(bl, around=1 if len(bl) <= 5 else 0)
    if consistent(s, G) is not True:
        res.deviation("Sequence", case, "constructor inconsistent", "consistent", sig="located-ctor")
        return
    slices = {}
    # explicit slices
    for a in pts:
        for b in pts:
            if b < a:
                continue
            o = lib.outcome(lambda: s[a:b])
            res.trans()
            c = dict(op="slice", a=a, b=b, **case)
            if a == b:
                res.note("slice", "zero")
                if o[0] == "ok":
                    if str(o[1]) != "" or (o[1].location_on_parent is not None and len(o[1].location_on_parent) != 0):
                        res.deviation("__getitem__", c, str(o[1]), "", sig="slice-zero")
                elif not lib.is_documented_exc(o[2]) or isinstance(o[2], TypeError):
                    res.deviation("__getitem__", c, o[1], "empty slice or documented exception", sig="slice-zero-internal")
                continue
            res.note("slice", "proper")
            res.nontriv(("slice", aname, bl, strand, a, b))
            if o[0] != "ok":
                res.deviation("__getitem__", c, o[1], text[a:b], sig="slice-raises")
                continue
            t = o[1]
            loc = t.location_on_parent
            if str(t) != text[a:b] or loc is None or M.P(lib.loc_blocks(loc), lib.loc_strand(loc)) != Pm[a:b] or consistent(t, G) is not True:
                res.deviation("__getitem__", c, [str(t), lib.canon_loc(loc)], [text[a:b], Pm[a:b]], sig="slice-inconsistent")
                continue
            if t.alphabet is not alpha:
                res.deviation("__getitem__", c, t.alphabet.name, aname, sig="slice-alphabet")
            slices[(a, b)] = t
            res.state(("piece", aname, lib.loc_blocks(loc), lib.loc_strand(loc)))
    # slices with a step: the piece spells every step-th base and its recorded location lists exactly those bases; a
    # negative step (reversed, uncomplemented text) has no location that could describe it - refused, or no location kept
    for a in list(pts) + [None]:
        for b in list(pts) + [None]:
            for step in (2, 3, -1, -2):
                key = slice(a, b, step)
                o = lib.outcome(lambda: s[key])
                res.trans()
                c = dict(op="slice-step", a=a, b=b, step=step, **case)
                exp_t = text[key]
                res.note("slice", "step" if step > 0 else "negative-step")
                if o[0] != "ok":
                    if step > 0 and exp_t:
                        res.deviation("__getitem__", c, o[1], exp_t, sig="slice-step-raises")
                    elif not lib.is_documented_exc(o[2]) or isinstance(o[2], TypeError):
                        res.deviation("__getitem__", c, o[1], "piece or documented refusal", sig="slice-step-internal")
                    continue
                t = o[1]
                loc = t.location_on_parent
                if str(t) != exp_t:
                    res.deviation("__getitem__", c, str(t), exp_t, sig="slice-step-text")
                elif loc is None:
                    if step > 0:
                        res.deviation("__getitem__", c, None, Pm[key], sig="slice-step-location-lost")
                elif exp_t and (consistent(t, G) is not True or M.P(lib.loc_blocks(loc), lib.loc_strand(loc)) != Pm[key]):
                    res.deviation("__getitem__", c, [str(t), lib.canon_loc(loc)], [exp_t, Pm[key]], sig="slice-step-inconsistent")
                elif not exp_t and len(loc) != 0:
                    res.deviation("__getitem__", c, [str(t), lib.canon_loc(loc)], ["", []], sig="slice-step-inconsistent")
    # integer index and open-ended spellings
    for i in range(0, ln):
        o = lib.outcome(lambda: s[i])
        res.trans()
        c = dict(op="index", i=i, **case)
        if o[0] != "ok" or str(o[1]) != text[i] or consistent(o[1], G) is not True:
            res.deviation("__getitem__", c, str(o[1]) if o[0] == "ok" else o[1], text[i], sig="index-inconsistent")
    for b in range(1, ln + 1):
        o = lib.outcome(lambda: s[:b])
        res.trans()
        c = dict(op="slice-open-start", b=b, **case)
        res.note("slice", "open")
        if o[0] != "ok":
            res.deviation("__getitem__", c, o[1], text[:b], sig="slice-open-raises")
        elif str(o[1]) != text[:b] or consistent(o[1], G) is not True:
            res.deviation("__getitem__", c, [str(o[1]), lib.canon_loc(o[1].location_on_parent)], [text[:b], Pm[:b]], sig="slice-open-inconsistent")
    for a in range(0, ln):
        o = lib.outcome(lambda: s[a:])
        res.trans()
        c = dict(op="slice-open-end", a=a, **case)
        if o[0] != "ok":
            res.deviation("__getitem__", c, o[1], text[a:], sig="slice-open-raises")
        elif str(o[1]) != text[a:] or consistent(o[1], G) is not True:
            res.deviation("__getitem__", c, [str(o[1]), lib.canon_loc(o[1].location_on_parent)], [text[a:], Pm[a:]], sig="slice-open-inconsistent")
    # bounds outside [0, len]: negative starts / ends / indices and ends beyond the length.  Python-style counting from
    # the end is not promised anywhere, so a documented refusal is fine; but whatever IS returned must still spell the
    # bases of its recorded location ("keeps their recorded location consistent with the characters they contain")
    outs = [slice(a, b) for a in range(-ln - 1, 0) for b in list(range(-ln - 1, ln + 2)) + [None]] + [slice(a, b) for a in range(0, ln + 1) for b in list(range(-ln - 1, 0)) + [ln + 1]]
    outs += [slice(None, b) for b in range(-ln - 1, 0)] + list(range(-ln - 1, 0)) + [ln, ln + 1]
    if scale:
        outs = [slice(-1, None), slice(0, ln + 1), slice(-ln, ln), -1, ln]
    for key in outs:
        o = lib.outcome(lambda: s[key])
        res.trans()
        kd = [key.start, key.stop] if isinstance(key, slice) else key
        c = dict(op="outside-bounds", key=kd, **case)
        res.note("slice", "outside-bounds")
        if o[0] != "ok":
            if not lib.is_documented_exc(o[2]) and not isinstance(o[2], IndexError):
                res.deviation("__getitem__", c, o[1], "refusal or consistent piece", sig="slice-outside-internal")
            continue
        t = o[1]
        loc = t.location_on_parent
        if loc is None or consistent(t, G) is not True:
            res.deviation("__getitem__", c, [str(t), lib.canon_loc(loc) if loc is not None else None], "characters == bases of the recorded location", sig="slice-outside-inconsistent")
    # reverse complement (once: consistent; twice: identity on text and location)
    for (a, b), t in list(slices.items()) + [((0, ln), s)]:
        o = lib.outcome(t.reverse_complement)
        res.trans()
        c = dict(op="reverse_complement", a=a, b=b, **case)
        if o[0] != "ok" or str(o[1]) != revcomp(str(t)) or consistent(o[1], G) is not True:
            res.deviation("reverse_complement", c, [str(o[1]), lib.canon_loc(o[1].location_on_parent)] if o[0] == "ok" else o[1],
                          [revcomp(str(t)), list(reversed(Pm[a:b]))], sig="rc-inconsistent")
            continue
        rc = o[1]
        lrc = rc.location_on_parent
        if M.P(lib.loc_blocks(lrc), lib.loc_strand(lrc)) != list(reversed(Pm[a:b])):
            res.deviation("reverse_complement", c, lib.canon_loc(lrc), list(reversed(Pm[a:b])), sig="rc-location")
        o2 = lib.outcome(rc.reverse_complement)
        res.trans()
        if o2[0] != "ok" or tu(str(o2[1])) != tu(str(t)) or M.P(lib.loc_blocks(o2[1].location_on_parent), lib.loc_strand(o2[1].location_on_parent)) != Pm[a:b]:
            res.deviation("reverse_complement", c, str(o2[1]) if o2[0] == "ok" else o2[1], str(t), sig="rc-twice")
    # append: every ordered pair of proper slices
    keys = sorted(slices)
    if scale and len(bl) > 8:
        # many blocks: appends of pieces that start or end at the ends of the sequence only
        keys = [k_ for k_ in keys if k_[0] == 0 or k_[1] == ln]
    for (a, b) in keys:
        for (c_, d) in keys:
            t1, t2 = slices[(a, b)], slices[(c_, d)]
            o = lib.outcome(t1.append, t2)
            res.trans()
            cs = dict(op="append", a=a, b=b, c=c_, d=d, **case)
            compatible = b <= c_
            res.note("append", "compatible" if compatible else "incompatible")
            if compatible:
                res.nontriv(("append", aname, bl, strand, a, b, c_, d))
                exp = text[a:b] + text[c_:d]
                p1, p2 = Pm[a:b], Pm[c_:d]
                in_order = (max(p1) < min(p2)) if strand == "+" else (min(p1) > max(p2))
                if o[0] != "ok":
                    if not in_order and isinstance(o[2], ValueError):
                        # (overlapping blocks: consecutive pieces of the sequence need not be consecutive on the parent;
                        # the documented refusal "must be to the left / right of the appended sequence")
                        res.note("append", "refused-not-in-parent-order")
                        continue
                    res.deviation("append", cs, o[1], exp, sig="append-raises")
                    continue
                u = o[1]
                lu = u.location_on_parent
                if str(u) != exp or lu is None or M.P(lib.loc_blocks(lu), lib.loc_strand(lu)) != Pm[a:b] + Pm[c_:d] or consistent(u, G) is not True:
                    res.deviation("append", cs, [str(u), lib.canon_loc(lu)], [exp, Pm[a:b] + Pm[c_:d]], sig="append-inconsistent")
            else:
                if o[0] == "ok":
                    # accepted: then the recorded location must still describe the characters
                    if consistent(o[1], G) is not True:
                        res.deviation("append", cs, [str(o[1]), lib.canon_loc(o[1].location_on_parent)], "ValueError", sig="append-accepts-incompatible")
                elif not isinstance(o[2], ValueError):
                    res.deviation("append", cs, o[1], "ValueError", sig="append-wrong-exc")
    # concatenation with ANOTHER located sequence that lies beyond this one on the same chromosome (two blocks of its own):
    # the recorded location lists the blocks of both, each base as often as it is read
    if not scale:
        G2 = genome_for(aname, N + 6, 0)
        nb = ((N + 1, N + 2), (N + 3, N + 5))
        s2, t2 = located(G2, alpha, bl, strand), located(G2, alpha, nb, strand)
        first, second = (s2, t2) if strand == "+" else (t2, s2)
        exp_pos = M.P(bl, strand) + M.P(nb, strand) if strand == "+" else M.P(nb, strand) + M.P(bl, strand)
        o = lib.outcome(first.append, second)
        res.trans()
        cs = dict(op="append-neighbour", **case)
        if o[0] != "ok":
            res.deviation("append", cs, o[1], str(first) + str(second), sig="append-raises")
        else:
            u = o[1]
            lu = u.location_on_parent
            if str(u) != str(first) + str(second) or lu is None or M.P(lib.loc_blocks(lu), lib.loc_strand(lu)) != exp_pos or consistent(u, G2) is not True:
                res.deviation("append", cs, [str(u), lib.canon_loc(lu)], [str(first) + str(second), exp_pos], sig="append-inconsistent")
    # data_only append and mismatching alphabets
    o = lib.outcome(s.append, s, data_only=True)
    res.trans()
    if o[0] != "ok" or str(o[1]) != text + text or o[1].parent is not None:
        res.deviation("append", dict(op="append-data-only", **case), o[1], text + text, sig="append-data-only")
    res.sample({"located": case, "text": text})


def run_shard(shard):
    res = ShardResult()
    tier, part = shard["tier"], shard["part"]
    w = WORLD[tier]
    if part == "extract":
        N = w["N"]
        idx = 0
        for aname, letters in ALPHS.items():
            # quick: windows of N letters that together cover EVERY letter of the alphabet in both cases; thorough: all rotations
            rots = range(len(letters)) if w["rots"] is None else range(0, len(letters), N)
            for rot in rots:
                for bl in worlds.layouts(N, w["k"], "disjoint"):
                    idx += 1
                    if idx % NSH != shard["i"]:
                        continue
                    for strand in "+-":
                        check_extract(res, aname, rot, N, bl, strand)
        res.sample({"alphabet": "NT_EXTENDED", "genome": genome_for("NT_EXTENDED", N, 0), "blocks": [[0, 2], [4, 7]], "strand": "-",
                    "expected": X(((0, 2), (4, 7)), "-", genome_for("NT_EXTENDED", N, 0))})
    elif part == "odd":
        N = w["Nodd"]
        idx = 0
        for mode in ("empty", "overlap"):
            for bl in worlds.layouts(N, 3, mode):
                idx += 1
                if idx % NSH != shard["i"]:
                    continue
                for strand in "+-":
                    for aname in ("NT_EXTENDED_GAPPED", "NT_STRICT"):
                        check_extract_odd(res, aname, N, bl, strand, mode)
                    if mode == "overlap" and len(bl) <= 2 and len({b_[0] for b_ in bl}) == len(bl):
                        # a located sequence may sit on ANY block structure: slices, stepped slices, reverse complement and
                        # concatenation on locations whose blocks overlap (a base read twice is recorded twice)
                        # (blocks that share a START are the subject of known finding C03-same-start-revstrand, reported by
                        # the extraction part above)
                        check_located(res, "NT_STRICT", N, bl, strand)
    elif part == "scale":
        # the scale family (vlib/worlds.py): many blocks; cuts / slice bounds at (k<=6: within 1 of) block boundaries
        idx = 0
        for k, bl in worlds.scale_layouts(tier):
            for aname in ("NT_EXTENDED_GAPPED", "NT_STRICT"):
                idx += 1
                if idx % NSH != shard["i"]:
                    continue
                N = bl[-1][1] + 1
                for strand in "+-":
                    check_extract(res, aname, k % 5, N, bl, strand, scale=True)
                    if k <= 16:
                        check_located(res, aname, N, bl, strand, scale=True)
    else:
        N = w["Nl"]
        idx = 0
        for aname in ALPHS:
            for bl in worlds.layouts(N, 3, "disjoint"):
                idx += 1
                if idx % NSH != shard["i"]:
                    continue
                for strand in "+-":
                    check_located(res, aname, N, bl, strand)
        if shard["i"] == 0:
            # non-nucleotide alphabets refuse reverse_complement
            for a in Alphabet:
                if not a.name.startswith("NT_"):
                    o = lib.outcome(Sequence("AC", a).reverse_complement)
                    res.trans()
                    if o[0] == "ok" or not isinstance(o[2], AlphabetError):
                        res.deviation("reverse_complement", dict(kind="nonnt", alphabet=a.name), o[1], "AlphabetError", sig="rc-non-nt")
    return res


def replay(case):
    res = ShardResult()
    bl = tuple(tuple(b) for b in case.get("blocks", []))
    if case["kind"] == "odd":
        check_extract_odd(res, case["alphabet"], case["N"], bl, case["strand"], case["mode"])
        return [d for d in res.deviations if d["sig"] == case.get("_sig", d["sig"])]
    if case["kind"] == "extract":
        check_extract(res, case["alphabet"], case["rot"], case["N"], bl, case["strand"], scale=case.get("scale", False))
    elif case["kind"] == "located":
        check_located(res, case["alphabet"], case["N"], bl, case["strand"], scale=case.get("scale", False))
    else:
        r = run_shard({"tier": "quick", "part": "located", "i": 0})
        return [d for d in r.deviations if d["case"].get("kind") == "nonnt"]
    devs = [d for d in res.deviations if d["case"].get("op") == case.get("op")]
    return devs or res.deviations


def _m_located_overlap_order(d):
    """a sequence located on OVERLAPPING blocks: a piece (slice, stepped slice, reverse complement, concatenation) records a
    location that holds the right bases the right number of times, but - its blocks being kept sorted by start - not in the
    order of the characters (the representation limit of C01-overlap-order, seen through Sequence)"""
    c = d["case"]
    if c.get("kind") != "located" or d["sig"] not in ("slice-inconsistent", "slice-open-inconsistent", "slice-step-inconsistent", "rc-inconsistent", "append-inconsistent"):
        return False
    bl = [tuple(b) for b in c["blocks"]]
    if M.is_disjoint(bl):
        return False
    obs, exp = d["observed"], d["expected"]
    if not (isinstance(obs, list) and isinstance(exp, list) and len(obs) == 2 and len(exp) == 2 and isinstance(obs[1], list)):
        return False
    if obs[0] != exp[0]:
        return False  # the characters themselves must be right
    got = M.P(tuple(tuple(b) for b in obs[1][1]), obs[1][2])
    return got != list(exp[1]) and sorted(got) == sorted(exp[1])


def _m_same_start_revstrand(d):
    # only the defect's own input class (overlapping layout with >= 2 blocks sharing a start) and its own shape (the
    # reverse-strand text is a permutation of the reverse complement: right bases, wrong order)
    c = d["case"]
    bl = c.get("blocks", [])
    return (
        d["sig"] == "odd-revstrand"
        and c.get("mode") == "overlap"
        and len({b[0] for b in bl}) < len(bl)
        and isinstance(d["observed"], str)
        and sorted(tu(d["observed"])) == sorted(tu(d["expected"]))
    )


MATCHERS = {"c03_same_start_revstrand": _m_same_start_revstrand, "c03_located_overlap_order": _m_located_overlap_order}
