"""Library-facing helpers of C12 / C18-genbank: build the collection of a record spec, export it, read the file with the
independent reader (Bio.SeqIO) and with BioCantor's parsers, canonicalise what comes back."""
import io
import json

from Bio import SeqIO

from vlib import lib
from checks import c12_world as W

from inscripta.biocantor.gene import GeneInterval, AnnotationCollection, Biotype
from inscripta.biocantor.gene.collections import FeatureIntervalCollection
from inscripta.biocantor.io.genbank.writer import collection_to_genbank
from inscripta.biocantor.io.genbank.constants import GenbankFlavor, GenBankParserType
from inscripta.biocantor.io.genbank.parser import parse_genbank

SEQNAME = "chrV"


def build_collection(rec):
    genome = W.GENOMES[rec["genome"]]
    parent = lib.chrom_parent(genome, name=SEQNAME)
    genes = []
    for i, g in enumerate(rec["genes"]):
        gids = W.ids_of(g, i)
        txs = []
        for k, t in enumerate(W.transcripts_of(g)):
            r = W.resolve(t, genome)
            ids = W.tx_ids(gids, k)
            coding = r["kind"] == "coding"
            bt = Biotype["protein_coding"] if coding else Biotype[r["kind"]]
            kw = dict(transcript_id=ids["transcript_id"], transcript_symbol=ids["transcript_symbol"], protein_id=ids["protein_id"],
                      transcript_type=bt, sequence_name=SEQNAME)
            if coding:
                txs.append(lib.mk_tx(r["exons"], r["strand"], r["cds"], r["frames"], parent, **kw))
            else:
                txs.append(lib.mk_tx(r["exons"], r["strand"], parent=parent, **kw))
        genes.append(GeneInterval(txs, gene_id=gids["gene_id"], gene_symbol=gids["gene_symbol"], gene_type=bt,
                                  locus_tag=gids["locus_tag"], sequence_name=SEQNAME, parent_or_seq_chunk_parent=parent))
    fcs = []
    for j, fc in enumerate(rec.get("fcs", [])):
        ids = W.fc_ids_of(j)
        feat = lib.mk_feat([tuple(b) for b in fc["blocks"]], fc["strand"], parent, feature_name=ids["feature_name"],
                           feature_id=ids["feature_id"], feature_types=["promoter"], sequence_name=SEQNAME)
        fcs.append(FeatureIntervalCollection([feat], feature_collection_name=ids["feature_collection_name"],
                                             feature_collection_id=ids["feature_collection_id"], locus_tag=ids["locus_tag"],
                                             sequence_name=SEQNAME, parent_or_seq_chunk_parent=parent))
    return AnnotationCollection(feature_collections=fcs, genes=genes, sequence_name=SEQNAME, parent_or_seq_chunk_parent=parent)


def export(rec, flavour, upd, **kw):
    ac = build_collection(rec)
    buf = io.StringIO()
    collection_to_genbank([ac], buf, genbank_type=GenbankFlavor[flavour], update_translations=upd, **kw)
    return buf.getvalue()


def read_rows(text):
    """independent reader: (sequence text, name, rows)"""
    rec = SeqIO.read(io.StringIO(text), "genbank")
    rows = []
    for f in rec.features:
        ps = sorted([int(p.start), int(p.end), p.strand] for p in f.location.parts)
        # `listed`: the parts in the order the reader hands them out, which is the order in which a reader that trusts the
        # file (Bio.SeqFeature.extract / translate) splices them: 5'->3' when the file follows the INSDC convention
        listed = [[int(p.start), int(p.end), p.strand] for p in f.location.parts]
        rows.append(dict(type=f.type, parts=ps, q={k: list(v) for k, v in f.qualifiers.items()}, listed=listed))
    return str(rec.seq), rec.name, rows


def canon_tx(t):
    return dict(
        exons=[list(b) for b in zip(t["exon_starts"], t["exon_ends"])],
        strand={"PLUS": "+", "MINUS": "-"}.get(t["strand"], t["strand"]),
        cds=[list(b) for b in zip(t["cds_starts"], t["cds_ends"])] if t.get("cds_starts") is not None else None,
        frames=[{"ZERO": 0, "ONE": 1, "TWO": 2}.get(f, f) for f in t["cds_frames"]] if t.get("cds_frames") else None,
        transcript_id=t.get("transcript_id"), protein_id=t.get("protein_id"), transcript_symbol=t.get("transcript_symbol"),
        biotype=t.get("transcript_type"), product=t.get("product"),
        qualifiers={str(k): sorted(map(str, v)) for k, v in sorted((t.get("qualifiers") or {}).items())},
    )


def canon_gene(g):
    txs = [canon_tx(t) for t in g["transcripts"]]
    txs.sort(key=lambda t: json.dumps(t, sort_keys=True))
    return dict(
        locus_tag=g.get("locus_tag"), gene_symbol=g.get("gene_symbol"), gene_id=g.get("gene_id"), biotype=g.get("gene_type"),
        qualifiers={str(k): sorted(map(str, v)) for k, v in sorted((g.get("qualifiers") or {}).items())},
        transcripts=txs,
    )


def canon_fc(c):
    feats = []
    for f in c["feature_intervals"]:
        feats.append(dict(blocks=[list(b) for b in zip(f["interval_starts"], f["interval_ends"])], strand=f["strand"],
                          feature_name=f.get("feature_name"), feature_id=f.get("feature_id"), types=sorted(f.get("feature_types") or []),
                          qualifiers={str(k): sorted(map(str, v)) for k, v in sorted((f.get("qualifiers") or {}).items())}))
    feats.sort(key=lambda t: json.dumps(t, sort_keys=True))
    return dict(name=c.get("feature_collection_name"), id=c.get("feature_collection_id"), locus_tag=c.get("locus_tag"), features=feats)


def parse(text, mode):
    """BioCantor's reader -> canonical, order-free description {"genes": [...], "fcs": [...], "sequence": str}"""
    recs = list(parse_genbank(io.StringIO(text), gbk_type=GenBankParserType[mode]))
    if len(recs) != 1:
        raise RuntimeError(f"{len(recs)} records parsed")
    ac = recs[0].to_annotation_collection()
    d = ac.to_dict()
    genes = sorted((canon_gene(g) for g in d["genes"]), key=lambda t: json.dumps(t, sort_keys=True))
    fcs = sorted((canon_fc(c) for c in d["feature_collections"]), key=lambda t: json.dumps(t, sort_keys=True))
    # the one order-bearing fact that is kept: the start coordinates of the genes / feature collections in the order in which
    # the returned collection lists them (every mode returns its members sorted by position, whatever their tags spell)
    gene_starts = [min(min(t["exon_starts"]) for t in g["transcripts"]) for g in d["genes"]]
    gene_keys = [g.get("locus_tag") or "tx:" + "|".join(sorted(str(t.get("transcript_id")) for t in g["transcripts"])) for g in d["genes"]]
    fc_starts = [min(min(f["interval_starts"]) for f in c["feature_intervals"]) for c in d["feature_collections"]]
    return dict(genes=genes, fcs=fcs, sequence=None if ac.sequence is None else str(ac.sequence), gene_starts=gene_starts, fc_starts=fc_starts, gene_keys=gene_keys)


# ---------------------------------------------------------------------------------------------------------
# feature-table surgery on the text (C18: permutations of the feature records of a record)
def split_feature_blocks(text):
    lines = text.split("\n")
    i0 = next(i for i, ln in enumerate(lines) if ln.startswith("FEATURES"))
    i1 = next(i for i, ln in enumerate(lines) if ln.startswith("ORIGIN"))
    blocks = []
    for ln in lines[i0 + 1 : i1]:
        if ln[:5] == "     " and ln[5:6] not in ("", " "):
            blocks.append([ln])
        else:
            blocks[-1].append(ln)
    return lines[: i0 + 1], blocks, lines[i1:]


def join_feature_blocks(head, blocks, tail):
    out = list(head)
    for b in blocks:
        out.extend(b)
    out.extend(tail)
    return "\n".join(out)
