"""C17 reference side: synthesis of designed genomes/gene models and the expected content of the .tbl file.

Pure Python; imports nothing from the library.  The expectation is always computed from the finished case
(genome text + block coordinates), never from the recipe that produced the genome, with the shared location model
(vlib.model.loc) and reading-frame model (vlib.model.frame: codons(), translate(), STARTS, GENCODE).
"""
from vlib.model import frame as F
from vlib.model import loc as M

_COMP = {"A": "T", "C": "G", "G": "C", "T": "A", "a": "t", "c": "g", "g": "c", "t": "a"}
RNA_KEYS = {"ncRNA", "tRNA", "rRNA", "misc_RNA", "tmRNA", "precursor_RNA"}
STOPS = ("TAA", "TAG", "TGA")


def revcomp(s):
    return "".join(_COMP[c] for c in reversed(s))


# ---------------------------------------------------------------------------------------------------------
# synthesis (recipe -> region on the plus strand -> placed gene)
# ---------------------------------------------------------------------------------------------------------
def lay_transcript(tseq, cuts, fill="C"):
    """tseq: transcript 5'->3'; cuts: ascending [(transcript position, intron length)], 0 < position < len(tseq);
    an intron length of 0 gives ADJACENT exon blocks.  -> (region text, exon blocks, transcript pos -> region pos)"""
    region = []
    blocks = []
    tmap = []
    prev = 0
    for pos, gap in list(cuts) + [(len(tseq), 0)]:
        seg = tseq[prev:pos]
        b0 = len(region)
        region.extend(seg)
        tmap.extend(range(b0, b0 + len(seg)))
        blocks.append((b0, b0 + len(seg)))
        region.extend(fill * gap)
        prev = pos
    return "".join(region), blocks, tmap


def tx_region(u5, cds_content, u3, cuts, fill="C"):
    """One transcript as a plus-strand region. cds_content None/"" -> non-coding (u5 is the whole transcript).
    -> dict(region, exons, cds|None)"""
    tseq = u5 + (cds_content or "") + u3
    region, exons, tmap = lay_transcript(tseq, cuts, fill)
    cds = None
    if cds_content:
        cpos = set(tmap[len(u5) : len(u5) + len(cds_content)])
        cds = []
        for s, e in exons:
            ps = [p for p in range(s, e) if p in cpos]
            if ps:
                cds.append((min(ps), max(ps) + 1))
    return {"region": region, "exons": exons, "cds": cds}


def place(regions, strand, offset):
    """regions: list of tx_region dicts making up ONE gene (laid side by side, 1 spacer base between transcripts).
    -> (text of the gene region as it appears on the plus strand of the genome, list of (exons, cds) in genome coords)"""
    text = ""
    txs = []
    for i, r in enumerate(regions):
        if i:
            text += "G"
        o = len(text)
        text += r["region"]
        txs.append(([(s + o, e + o) for s, e in r["exons"]], None if r["cds"] is None else [(s + o, e + o) for s, e in r["cds"]]))
    R = len(text)
    if strand == "-":
        text = revcomp(text)
        txs = [
            (sorted((R - e, R - s) for s, e in ex), None if cd is None else sorted((R - e, R - s) for s, e in cd))
            for ex, cd in txs
        ]
    out = []
    for ex, cd in txs:
        out.append(([[s + offset, e + offset] for s, e in ex], None if cd is None else [[s + offset, e + offset] for s, e in cd]))
    return text, out


# ---------------------------------------------------------------------------------------------------------
# expectation
# ---------------------------------------------------------------------------------------------------------
def tbl_intervals_unmerged(blocks, strand):
    """the source blocks exactly as given (adjacent blocks NOT merged), 1-based inclusive, 5'->3'"""
    bl = sorted(tuple(b) for b in blocks)
    if strand == "-":
        return [[e, s + 1] for s, e in reversed(bl)]
    return [[s + 1, e] for s, e in bl]


def tbl_intervals(blocks, strand):
    """(merged) blocks as 1-based inclusive [start, end] pairs in 5'->3' order, start > end on the minus strand.
    Derived from the position list P(L): maximal unit-step runs in walking direction."""
    bl = tuple(sorted(tuple(b) for b in blocks))
    pos = M.P(bl, strand)
    step = -1 if strand == "-" else 1
    out = []
    for p in pos:
        if out and out[-1][1] + step == p + 1:
            out[-1][1] = p + 1
        else:
            out.append([p + 1, p + 1])
    return out


def cds_facts(genome, cds_blocks, strand, f0, table):
    """Reading-frame model of the (merged) CDS with start frame f0 -> dict of the facts the property speaks about."""
    merged = M.runs(M.S([tuple(b) for b in cds_blocks]))
    ex = F.exons_5to3(merged, strand)
    frames = F.consistent_frames([len(x) for x in ex], f0)
    cods = F.codons(ex, frames)
    strs = [F.splice(genome, c, strand).upper() for c in cods]
    L = sum(e - s for s, e in merged)
    ends_in_frame = (L - f0) % 3 == 0
    first_is_start = bool(strs) and strs[0] in F.STARTS[table]
    last_is_stop = bool(strs) and F.GENCODE.get(strs[-1]) == "*"
    prot = F.translate(strs, table=0) if strs else ""
    early_stop = "*" in prot[:-1]
    # a stop in the last COMPLETE codon followed by a dangling partial codon: "in-frame stop" or "the terminal stop"
    # of a CDS annotated a little too long?  the statement does not say -> both answers admissible
    ambiguous = (not early_stop) and last_is_stop and not ends_in_frame
    return {
        "codons": strs,
        "n_codons": len(strs),
        "five_partial": not first_is_start,
        "three_partial": not (ends_in_frame and last_is_stop),
        "in_frame_stop": early_stop,
        "in_frame_stop_ambiguous": ambiguous,
        "codon_start": f0 + 1,
        "ends_in_frame": ends_in_frame,
    }


def expected_section(genome, genes, table, eukaryotic):
    """-> expected features of one collection:
    [{"cls": "gene"|"mRNA"|"CDS"|"RNA", "intervals": [[s,e]..], "gene": index, "tx": index|None, + CDS facts}]"""
    out = []
    for gi, g in enumerate(genes):
        strand = g["strand"]
        lo = min(b[0] for t in g["txs"] for b in t["exons"])
        hi = max(b[1] for t in g["txs"] for b in t["exons"])
        out.append({"cls": "gene", "intervals": tbl_intervals([(lo, hi)], strand), "gene": gi, "tx": None})
        facts = []
        for ti, t in enumerate(g["txs"]):
            if t["cds"] is not None:
                f = cds_facts(genome, t["cds"], strand, t["f0"], table)
                facts.append(f)
        pseudo = any(f["in_frame_stop"] for f in facts)
        pseudo_amb = (not pseudo) and any(f["in_frame_stop_ambiguous"] for f in facts)
        k = 0
        for ti, t in enumerate(g["txs"]):
            if t["cds"] is not None:
                f = dict(facts[k])
                k += 1
                if eukaryotic:
                    out.append({"cls": "mRNA", "intervals": tbl_intervals(t["exons"], strand), "gene": gi, "tx": ti})
                f.update({"cls": "CDS", "intervals": tbl_intervals(t["cds"], strand), "gene": gi, "tx": ti, "pseudo": pseudo, "pseudo_ambiguous": pseudo_amb})
                out.append(f)
            else:
                out.append({"cls": "RNA", "intervals": tbl_intervals(t["exons"], strand), "gene": gi, "tx": ti,
                            "unmerged": tbl_intervals_unmerged(t["exons"], strand)})
    return out


def key_class(key):
    if key in ("gene", "mRNA", "CDS"):
        return key
    if key in RNA_KEYS:
        return "RNA"
    return None
