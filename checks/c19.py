"""C19 - invalid input is refused with documented errors; nothing ill-formed is built; no internal errors."""
import enum
import inspect
import itertools
import types
import typing
import uuid
import warnings

from vlib import lib, worlds, bootstrap
from vlib.model import loc as M
from vlib.model import frame as F
from vlib.runner import ShardResult

from inscripta.biocantor import DistanceType, SequenceType
from inscripta.biocantor.exc import BioCantorException
from inscripta.biocantor.gene.gene import GeneInterval
from inscripta.biocantor.gene.feature import FeatureInterval, FeatureIntervalCollection
from inscripta.biocantor.gene.transcript import TranscriptInterval
from inscripta.biocantor.gene.cds import CDSInterval
from inscripta.biocantor.gene.cds_frame import CDSFrame, CDSPhase
from inscripta.biocantor.gene.codon import TranslationTable
from inscripta.biocantor.gene.collections import AnnotationCollection
from inscripta.biocantor.gene.variants import VariantInterval, VariantIntervalCollection
from inscripta.biocantor.gene.biotype import Biotype
from inscripta.biocantor.gene.interval import AbstractInterval
from inscripta.biocantor.io.bed import RGB
from inscripta.biocantor.location.location import Location
from inscripta.biocantor.location.location_impl import SingleInterval, CompoundInterval, EmptyLocation, _EmptyLocation
from inscripta.biocantor.location.strand import Strand
from inscripta.biocantor.parent import Parent
from inscripta.biocantor.sequence import Sequence
from inscripta.biocantor.sequence.alphabet import Alphabet

from checks import c10

PROPERTY = "C19"
TITLE = "Invalid input is refused with documented errors; nothing ill-formed is built"
RULE = (
    "part A: every constructor / from_dict / from_location of the data model with each argument perturbed to each kind "
    "of invalid value (start>end, negative, beyond the sequence, unequal list lengths, wrong frame counts, frame/phase "
    "mix, CDS outside exons, strand problems, mismatched/missing parents, wrong alphabet, overlapping variants, "
    "duplicate or no children, half-given bounds) on a base of small valid objects; part B: every public method of "
    "every object of the catalogue called with the full product of a boundary-argument menu per parameter type "
    "(ints -1,0,1,len-1,len,len+1; all strands; both booleans; partner locations; enums; None where optional). "
    "Non-trivial = the call receives at least one boundary/invalid value."
)
ASSUMPTIONS = [
    "documented refusals: BioCantorException subclasses, ValueError, NotImplementedError, marshmallow ValidationError for model loads; "
    "TypeError only when an argument of a wrong type was passed",
    "internal errors: AttributeError, IndexError, KeyError, RecursionError, UnboundLocalError, ZeroDivisionError, AssertionError, leaked StopIteration, TypeError on well-typed arguments",
    "parameters of types outside the menu make a method unexplorable; those methods are listed in the evidence counters",
]
GENOME = c10.GENOME
INTERNAL = (AttributeError, IndexError, KeyError, RecursionError, UnboundLocalError, ZeroDivisionError, AssertionError, StopIteration, NameError)


def world_description(tier):
    return f"part A: {len(ctor_cases())} corrupted constructor calls; part B: {len(catalogue(tier))} objects (incl. intervals that lie off their chunk) x public methods x boundary menus"


def catalogue(tier):
    """the C10 catalogue plus intervals that lie OFF their chunk (no base on it) or are cut by it"""
    extra = []
    for s in "+-":
        extra.append(dict(kind="feat", blocks=[[1, 4], [6, 9]], strand=s, parent=(12, 20)))
        extra.append(dict(kind="tx", exons=[[0, 5], [7, 14]], strand=s, cds=[1, 11], f0=0, parent=(16, 24)))
        extra.append(dict(kind="tx", exons=[[0, 5], [7, 14]], strand=s, parent=(16, 24)))
        extra.append(dict(kind="cds", exons=[[0, 5], [7, 14]], strand=s, cds=[0, 12], f0=0, parent=(15, 22)))
        extra.append(dict(kind="gene", exons=[[0, 5], [7, 14]], strand=s, cds=[1, 11], parent=(16, 24)))
        extra.append(dict(kind="fcoll", exons=[[0, 5], [7, 14]], strand=s, parent=(16, 24)))
    extra.append(dict(kind="variant", s=3, e=5, alt="G", parent=(10, 20)))
    extra.append(dict(kind="vcoll", vs=[[2, 3, "T"], [6, 8, ""]], parent=(12, 20)))
    return c10.catalogue(tier) + extra


def shards(tier, seed):
    cat = catalogue(tier)
    return ([{"tier": tier, "part": "ctor", "i": i} for i in range(8)] + [{"tier": tier, "part": "methods", "idx": i} for i in range(len(cat))]
            + [{"tier": tier, "part": "locmethods", "i": i} for i in range(32)])


def loc_specs(tier):
    """every location of a small layout world (disjoint, zero-length, overlapping blocks) as a method-exploration object"""
    N, k = (5, 2) if tier == "quick" else (6, 3)
    out = []
    for mode in ("disjoint", "empty", "overlap"):
        for bl in worlds.layouts(N if mode == "disjoint" else N - 1, k, mode):
            for s in "+-":
                for par in ("chrom", "none"):
                    out.append(dict(kind="loc", blocks=[list(b) for b in bl], strand=s, parent=par))
    for bl in worlds.layouts(4, 2, "disjoint"):
        out.append(dict(kind="loc", blocks=[list(b) for b in bl], strand=".", parent="chrom"))
    return out


# ---- invariants of returned values ---------------------------------------------------------------------------------------
def value_problems(v, depth=0):
    if depth > 3:
        return []
    if isinstance(v, Location):
        try:
            return lib.check_wellformed(v)
        except Exception as e:  # noqa
            return [f"ill-formed location: reading its blocks raises {type(e).__name__}"]
    if isinstance(v, (list, tuple)) and len(v) < 50:
        out = []
        for x in v:
            out += value_problems(x, depth + 1)
        return out
    if type(v).__name__ == "Parent":
        probs = []
        try:
            if v.location is not None and v.sequence is not None and type(v.location) is not _EmptyLocation and v.location.end > len(v.sequence):
                probs.append(f"Parent: child location end {v.location.end} beyond its sequence of {len(v.sequence)}")
            if v.location is not None and type(v.location) is not _EmptyLocation and v._strand is not None and v._strand is not v.location.strand:
                probs.append(f"Parent: strand {v._strand} contradicts its location's strand {v.location.strand}")
            if v.location is not None and v.location.parent is not None and v.id is not None and v.location.parent.id not in (None, v.id):
                probs.append("Parent: id differs from its location's parent id")
        except Exception as e:  # noqa
            probs.append(f"Parent invariant evaluation raised {type(e).__name__}")
        return probs
    if isinstance(v, AbstractInterval):
        return interval_problems(v)
    if isinstance(v, Sequence):
        loc = v.location_on_parent
        if loc is not None and type(loc) is not _EmptyLocation and len(loc) != len(v):
            return [f"sequence of length {len(v)} with location of length {len(loc)}"]
    return []


def interval_problems(o):
    probs = []
    try:
        if isinstance(o, (FeatureInterval, TranscriptInterval, CDSInterval, VariantInterval)):
            cl = o.chromosome_location
            probs += lib.check_wellformed(cl)
            bl = lib.loc_blocks(cl)
            if not bl:
                return probs + ["no blocks"]
            if o.start != min(s for s, e in bl) or o.end != max(e for s, e in bl):
                probs.append(f"start/end {o.start},{o.end} do not span blocks {bl}")
            if any(s >= e for s, e in bl) and not isinstance(o, VariantInterval):
                pass  # zero-length blocks are allowed by locations
            if isinstance(o, TranscriptInterval) and o.cds is not None:
                cds_pos = M.S(lib.loc_blocks(o.cds.chromosome_location))
                if not cds_pos <= M.S(bl):
                    probs.append("CDS positions not inside exons")
                if len(o.cds.frames) != len(lib.loc_blocks(o.cds.chromosome_location)):
                    probs.append("frames/blocks count mismatch")
            if isinstance(o, CDSInterval):
                if len(o.frames) != len(bl):
                    probs.append("frames/blocks count mismatch")
                if len(cl) == 0:
                    probs.append("empty CDS")
        elif isinstance(o, (GeneInterval, FeatureIntervalCollection, VariantIntervalCollection)):
            kids = list(o.iter_children())
            if not kids:
                probs.append("collection without children")
            else:
                if o.start != min(k.start for k in kids) or o.end != max(k.end for k in kids):
                    probs.append("span is not min/max of children")
                guids = [k.guid for k in kids]
                if len(set(guids)) != len(guids):
                    probs.append("duplicate children")
            if isinstance(o, VariantIntervalCollection):
                ks = sorted(kids, key=lambda k: k.start)
                if any(ks[i].end > ks[i + 1].start for i in range(len(ks) - 1)):
                    probs.append("overlapping variants")
        elif isinstance(o, AnnotationCollection):
            if not o.is_empty or hasattr(o, "start"):
                if hasattr(o, "start") and o.start > o.end:
                    probs.append("start > end")
    except Exception as e:  # noqa
        probs.append(f"invariant evaluation raised {type(e).__name__}")
    return probs


def classify(exc, typed_ok):
    """'documented' | 'internal'"""
    import marshmallow

    if isinstance(exc, (BioCantorException, ValueError, NotImplementedError, marshmallow.ValidationError)) and not isinstance(exc, INTERNAL):
        return "documented"
    if isinstance(exc, TypeError) and not typed_ok:
        return "documented"
    return "internal"


# ---- part A: corrupted constructors -------------------------------------------------------------------------------------------
def ctor_cases():
    """list of (name, thunk-source description, callable)"""
    g = GENOME
    P = Strand.PLUS
    Mi = Strand.MINUS
    U = Strand.UNSTRANDED
    Z, O, T = CDSFrame.ZERO, CDSFrame.ONE, CDSFrame.TWO
    cases = []

    def add(name, fn, well_typed=True, must_refuse=False):
        cases.append((name, fn, well_typed, must_refuse))

    chrom = lambda: lib.chrom_parent(g)
    seqp = lambda: lib.seq_parent(g)
    N = len(g)
    # SingleInterval / CompoundInterval
    for s, e in ((5, 2), (-1, 3), (-3, -1), (0, N + 1), (N, N + 2), (N + 1, N + 1)):
        for st in (P, Mi, U):
            add(f"SingleInterval({s},{e},{st.name},seq)", lambda s=s, e=e, st=st: SingleInterval(s, e, st, seqp()))
            add(f"SingleInterval({s},{e},{st.name})", lambda s=s, e=e, st=st: SingleInterval(s, e, st))
    for starts, ends in (([0, 5], [3]), ([], []), ([0], [3, 8]), ([4, 0], [2, 3]), ([0, 5], [3, N + 2]), ([-2, 5], [1, 8]), ([3], [3])):
        for st in (P, Mi):
            add(f"CompoundInterval({starts},{ends},{st.name},seq)", lambda a=starts, b=ends, st=st: CompoundInterval(a, b, st, seqp()))
            add(f"CompoundInterval({starts},{ends},{st.name})", lambda a=starts, b=ends, st=st: CompoundInterval(a, b, st))
    add("from_single_intervals([])", lambda: CompoundInterval.from_single_intervals([]))
    add("from_single_intervals(mixed strands)", lambda: CompoundInterval.from_single_intervals([SingleInterval(0, 2, P), SingleInterval(3, 5, Mi)]))
    add("from_single_intervals(mixed parents)", lambda: CompoundInterval.from_single_intervals([SingleInterval(0, 2, P, "a"), SingleInterval(3, 5, P, "b")]))
    # parents that differ only in HAVING an ancestor are different parents (a block on mid<-top and a block on a bare mid)
    def _depth_pair():
        top = Parent(id="top", sequence_type="chromosome", location=SingleInterval(100, 140, P))
        return SingleInterval(0, 2, P, parent=Parent(id="mid", sequence_type="contig", parent=top)), SingleInterval(3, 5, P, parent=Parent(id="mid", sequence_type="contig"))

    add("from_single_intervals(parents differ in depth)", lambda: CompoundInterval.from_single_intervals(list(_depth_pair())), must_refuse=True)
    add("from_single_intervals(parents differ in depth, reversed)", lambda: CompoundInterval.from_single_intervals(list(_depth_pair())[::-1]), must_refuse=True)

    def _bare_after_deep():
        top = Parent(id="top", sequence_type="chromosome", location=SingleInterval(100, 140, P))
        Parent(id="leaf", parent=Parent(id="mid", parent=top))
        return Parent(id="leaf", parent=Parent(id="mid")).first_ancestor_of_type("chromosome")

    def _deep_after_bare():
        top = Parent(id="top", sequence_type="chromosome", location=SingleInterval(100, 140, P))
        Parent(id="leaf2", parent=Parent(id="mid2"))
        return Parent(id="leaf2", parent=Parent(id="mid2", parent=top)).first_ancestor_of_type("chromosome").id == "top" or 1 / 0

    add("Parent without ancestor, built after a deeper namesake: first_ancestor_of_type", _bare_after_deep, must_refuse=True)
    add("Parent with ancestor, built after a bare namesake: first_ancestor_of_type", _deep_after_bare)
    add("SingleInterval(parent=int)", lambda: SingleInterval(0, 2, P, parent=5), well_typed=False)
    # Parent
    add("Parent(id mismatch loc)", lambda: Parent(id="a", location=SingleInterval(0, 2, P, parent="b")))
    add("Parent(id mismatch seq)", lambda: Parent(id="a", sequence=Sequence("ACGT", Alphabet.NT_STRICT, id="b")))
    add("Parent(type mismatch)", lambda: Parent(sequence_type="x", sequence=Sequence("ACGT", Alphabet.NT_STRICT, type="y")))
    add("Parent(strand mismatch)", lambda: Parent(strand=Mi, location=SingleInterval(0, 2, P)))
    add("Parent(location beyond sequence)", lambda: Parent(location=SingleInterval(0, 9, P), sequence=Sequence("ACGT", Alphabet.NT_STRICT)))
    add("Parent(sequence longer than parent's)", lambda: Parent(sequence=Sequence("ACGTACGT", Alphabet.NT_STRICT), parent=Parent(sequence=Sequence("ACG", Alphabet.NT_STRICT))))
    add("Parent(seq.parent mismatch)", lambda: Parent(sequence=Sequence("ACGT", Alphabet.NT_STRICT, parent="p1"), parent="p2"))
    # Sequence
    add("Sequence(wrong alphabet)", lambda: Sequence("ACGX", Alphabet.NT_STRICT))
    add("Sequence(protein letters in NT)", lambda: Sequence("MKV", Alphabet.NT_EXTENDED))
    add("Sequence(parent location length mismatch)", lambda: Sequence("ACGT", Alphabet.NT_STRICT, parent=Parent(location=SingleInterval(0, 9, P))))
    add("Sequence('').to_fasta", lambda: Sequence("", Alphabet.NT_STRICT).to_fasta())
    add("Sequence.append(alphabet mismatch)", lambda: Sequence("AC", Alphabet.NT_STRICT).append(Sequence("AC", Alphabet.NT_EXTENDED)))
    add("Sequence.reverse_complement(AA)", lambda: Sequence("MK", Alphabet.AA).reverse_complement())
    # FeatureInterval
    for starts, ends in (([0, 5], [3]), ([5], [2]), ([0], [N + 5]), ([-1], [3]), ([], []), ([0, 2], [4, 6])):
        for st in (P, Mi, U):
            for par in ("none", "chrom", "chunk"):
                pp = {"none": lambda: None, "chrom": chrom, "chunk": lambda: lib.chunk_parent(g, 2, 12)}[par]
                add(f"FeatureInterval({starts},{ends},{st.name},{par})", lambda a=starts, b=ends, st=st, pp=pp: FeatureInterval(a, b, st, parent_or_seq_chunk_parent=pp()))
    add("FeatureInterval(qualifiers=list)", lambda: FeatureInterval([0], [3], P, qualifiers=["a"]))
    add("FeatureInterval(qualifier values not lists)", lambda: FeatureInterval([0], [3], P, qualifiers={"a": "b"}))
    add("FeatureInterval(parent without chromosome ancestor)", lambda: FeatureInterval([0], [3], P, parent_or_seq_chunk_parent=Parent(id="x", sequence_type="sequence_chunk")))
    add("FeatureInterval(chunk parent without sequence)", lambda: FeatureInterval([0], [3], P, parent_or_seq_chunk_parent=Parent(
        id="c", sequence_type="sequence_chunk", parent=Parent(id="chrV", sequence_type="chromosome", location=SingleInterval(0, 5, P)))))
    # TranscriptInterval
    T_ = lambda **kw: TranscriptInterval(**{**dict(exon_starts=[0, 7], exon_ends=[5, 14], strand=P, parent_or_seq_chunk_parent=chrom()), **kw})
    add("Transcript(cds_starts only)", lambda: T_(cds_starts=[1]))
    add("Transcript(cds_ends only)", lambda: T_(cds_ends=[4]))
    add("Transcript(cds no frames)", lambda: T_(cds_starts=[1], cds_ends=[4]))
    add("Transcript(cds unequal lists)", lambda: T_(cds_starts=[1, 7], cds_ends=[4], cds_frames=[Z, Z]))
    add("Transcript(cds frame count)", lambda: T_(cds_starts=[1, 7], cds_ends=[5, 9], cds_frames=[Z]))
    add("Transcript(cds before exons)", lambda: TranscriptInterval([3], [9], P, cds_starts=[1], cds_ends=[5], cds_frames=[Z]))
    add("Transcript(cds after exons)", lambda: TranscriptInterval([3], [9], P, cds_starts=[4], cds_ends=[12], cds_frames=[Z]))
    add("Transcript(cds inside intron)", lambda: T_(cds_starts=[5], cds_ends=[7], cds_frames=[Z]))
    add("Transcript(cds spanning intron as one block)", lambda: T_(cds_starts=[2], cds_ends=[10], cds_frames=[Z]))
    add("Transcript(cds frame/phase mix)", lambda: T_(cds_starts=[1, 7], cds_ends=[5, 9], cds_frames=[Z, CDSPhase.ONE]))
    add("Transcript(cds empty)", lambda: T_(cds_starts=[3], cds_ends=[3], cds_frames=[Z]))
    add("Transcript(cds start>end)", lambda: T_(cds_starts=[4], cds_ends=[2], cds_frames=[Z]))
    add("Transcript(exons unequal)", lambda: TranscriptInterval([0, 7], [5], P))
    add("Transcript(exons start>end)", lambda: TranscriptInterval([5], [2], P))
    add("Transcript(exons empty lists)", lambda: TranscriptInterval([], [], P))
    add("Transcript(unstranded coding).translate", lambda: TranscriptInterval([0], [9], U, cds_starts=[0], cds_ends=[9], cds_frames=[Z], parent_or_seq_chunk_parent=chrom()).get_protein_sequence())
    add("Transcript(unstranded).get_spliced_sequence", lambda: TranscriptInterval([0, 7], [5, 9], U, parent_or_seq_chunk_parent=chrom()).get_spliced_sequence())
    add("Transcript(beyond sequence)", lambda: TranscriptInterval([0], [N + 3], P, parent_or_seq_chunk_parent=chrom()))
    add("Transcript(no sequence).get_spliced_sequence", lambda: TranscriptInterval([0], [5], P).get_spliced_sequence())
    add("Transcript(noncoding).cds_start", lambda: TranscriptInterval([0], [5], P).cds_start)
    add("Transcript.from_location(chunk-relative)", lambda: TranscriptInterval.from_location(SingleInterval(0, 3, P, lib.chunk_parent(g, 2, 12))))
    add("Transcript.from_chunk_relative_location(chromosome)", lambda: TranscriptInterval.from_chunk_relative_location(SingleInterval(0, 3, P, chrom())))
    # CDSInterval
    add("CDS(frame count)", lambda: CDSInterval([0, 7], [5, 9], P, [Z]))
    add("CDS(no frames)", lambda: CDSInterval([0], [5], P, []))
    add("CDS(empty)", lambda: CDSInterval([3], [3], P, [Z]))
    add("CDS(mix)", lambda: CDSInterval([0, 7], [5, 9], P, [CDSPhase.ZERO, O]))
    add("CDS(start>end)", lambda: CDSInterval([5], [2], P, [Z]))
    # ("GFF3MissingSequenceNameError: If there are no sequence names associated with this ..." - docstring of every to_gff)
    add("CDS(no sequence name).to_gff", lambda: list(CDSInterval([0], [9], P, [Z], parent_or_seq_chunk_parent=chrom()).to_gff()), must_refuse="GFF3MissingSequenceNameError")
    add("Feature(no sequence name).to_gff", lambda: list(FeatureInterval([0], [9], P, parent_or_seq_chunk_parent=chrom()).to_gff()), must_refuse="GFF3MissingSequenceNameError")
    add("Transcript(no sequence name).to_gff", lambda: list(TranscriptInterval([0], [9], P, parent_or_seq_chunk_parent=chrom()).to_gff()), must_refuse="GFF3MissingSequenceNameError")
    # NONE is the frame / phase of rows that are not CDS: a CDS block without a frame has no reading frame to speak of
    from inscripta.biocantor.gene.cds_frame import CDSFrame as _F
    add("CDS(frame NONE)", lambda: CDSInterval([0], [9], P, [_F.NONE], parent_or_seq_chunk_parent=chrom()), must_refuse=True)
    add("CDS(frame ZERO, NONE)", lambda: CDSInterval([0, 7], [5, 14], P, [Z, _F.NONE], parent_or_seq_chunk_parent=chrom()), must_refuse=True)
    add("CDS(phase NONE)", lambda: CDSInterval([0], [9], P, [CDSPhase.NONE]), must_refuse=True)
    add("Transcript(cds frame NONE)", lambda: TranscriptInterval([0], [9], P, cds_starts=[0], cds_ends=[9], cds_frames=[_F.NONE]), must_refuse=True)
    add("CDS(unequal)", lambda: CDSInterval([0, 7], [5], P, [Z, Z]))
    add("CDS(2bp).translate", lambda: CDSInterval([0], [2], P, [Z], parent_or_seq_chunk_parent=chrom()).translate())
    add("CDS(2bp).has_canonical_start_codon", lambda: CDSInterval([0], [2], P, [Z], parent_or_seq_chunk_parent=chrom()).has_canonical_start_codon)
    add("CDS(2bp).has_valid_stop", lambda: CDSInterval([0], [2], P, [Z], parent_or_seq_chunk_parent=chrom()).has_valid_stop)
    add("CDS(2bp).has_in_frame_stop", lambda: CDSInterval([0], [2], P, [Z], parent_or_seq_chunk_parent=chrom()).has_in_frame_stop)
    add("CDS(2bp).num_codons", lambda: CDSInterval([0], [2], P, [Z], parent_or_seq_chunk_parent=chrom()).num_codons)
    add("CDS(3bp,frame2).extract_sequence", lambda: str(CDSInterval([0], [3], P, [T], parent_or_seq_chunk_parent=chrom()).extract_sequence()))
    add("CDS(no sequence).translate", lambda: CDSInterval([0], [9], P, [Z]).translate())
    add("CDS(frame NONE)", lambda: list(CDSInterval([0], [9], P, [CDSFrame.NONE], parent_or_seq_chunk_parent=chrom()).chromosome_codon_locations))
    add("CDS(unstranded).codons", lambda: list(CDSInterval([0], [9], U, [Z], parent_or_seq_chunk_parent=chrom()).chromosome_codon_locations))
    add("construct_frames(first exon shorter than offset)", lambda: CDSInterval.construct_frames_from_location(CompoundInterval([0, 3], [1, 9], P), T))
    # GeneInterval / FeatureIntervalCollection
    tx = lambda **kw: TranscriptInterval([0, 7], [5, 14], P, parent_or_seq_chunk_parent=chrom(), **kw)
    add("Gene([])", lambda: GeneInterval([]), must_refuse="InvalidAnnotationError")
    add("Gene(duplicate transcripts)", lambda: GeneInterval([tx(), tx()]))
    add("Gene(two primary)", lambda: GeneInterval([tx(is_primary_tx=True), tx(is_primary_tx=True, transcript_id="b")]))
    add("Gene(gene_type=None).get_merged_transcript", lambda: GeneInterval([tx()], parent_or_seq_chunk_parent=chrom()).get_merged_transcript())
    add("Gene(noncoding).get_merged_cds", lambda: GeneInterval([tx()], gene_type=Biotype["ncRNA"]).get_merged_cds())
    add("Gene(mixed strands).get_merged_transcript", lambda: GeneInterval([tx(), TranscriptInterval([1], [4], Mi, parent_or_seq_chunk_parent=chrom())], gene_type=Biotype["ncRNA"], parent_or_seq_chunk_parent=chrom()).get_merged_transcript())
    add("Gene(no sequence name).to_gff", lambda: list(GeneInterval([tx()]).to_gff()))
    add("Gene(noncoding).get_primary_protein", lambda: GeneInterval([tx()]).get_primary_protein())
    ft = lambda **kw: FeatureInterval([0, 7], [5, 14], P, parent_or_seq_chunk_parent=chrom(), **kw)
    add("FeatureCollection([])", lambda: FeatureIntervalCollection([]), must_refuse="InvalidAnnotationError")
    add("FeatureCollection(duplicates)", lambda: FeatureIntervalCollection([ft(), ft()]))
    add("FeatureCollection(two primary)", lambda: FeatureIntervalCollection([ft(is_primary_feature=True), ft(is_primary_feature=True, feature_name="b")]))
    add("FeatureCollection.get_merged_feature(mixed strands)", lambda: FeatureIntervalCollection([ft(), FeatureInterval([1], [4], Mi, parent_or_seq_chunk_parent=chrom())], parent_or_seq_chunk_parent=chrom()).get_merged_feature())
    # Variants
    add("Variant(start==end)", lambda: VariantInterval(3, 3, "A", "SNV"))
    add("Variant(start>end)", lambda: VariantInterval(5, 3, "A", "SNV"))
    add("Variant(negative)", lambda: VariantInterval(-2, 3, "A", "SNV"))
    add("Variant(bad alphabet)", lambda: VariantInterval(2, 3, "X", "SNV"))
    add("Variant(beyond sequence)", lambda: VariantInterval(N - 1, N + 4, "A", "del", parent_or_seq_chunk_parent=chrom()))
    add("VariantCollection(overlapping)", lambda: VariantIntervalCollection([VariantInterval(1, 4, "A", "del"), VariantInterval(3, 5, "C", "del")]))
    # (the refusal of an overlapping pair does not depend on where in the list the two variants stand: every listing order
    # of three variants, two of which overlap - also with the disjoint one BETWEEN them)
    tri = [(1, 4, "A"), (3, 5, "C"), (8, 9, "G")]
    for pm in itertools.permutations(range(3)):
        add(f"VariantCollection(overlapping pair, order {pm})", lambda pm=pm: VariantIntervalCollection([VariantInterval(tri[i][0], tri[i][1], tri[i][2], "del") for i in pm]), must_refuse=True)
        add(f"VariantCollection(overlapping pair, order {pm}, chromosome)", lambda pm=pm: VariantIntervalCollection(
            [VariantInterval(tri[i][0], tri[i][1], tri[i][2], "del", parent_or_seq_chunk_parent=chrom()) for i in pm], parent_or_seq_chunk_parent=chrom()), must_refuse=True)
    # ("Raised when Collection objects have invalid arguments": the empty child list of all three collection classes)
    add("VariantCollection([])", lambda: VariantIntervalCollection([]), must_refuse="InvalidAnnotationError")
    add("Variant(no sequence).alternative_genomic_sequence", lambda: VariantInterval(2, 3, "A", "SNV").alternative_genomic_sequence)
    # AnnotationCollection
    gene = lambda: GeneInterval([tx()], gene_type=Biotype["ncRNA"], parent_or_seq_chunk_parent=chrom())
    add("AC(start only)", lambda: AnnotationCollection(genes=[gene()], start=0))
    add("AC(end only)", lambda: AnnotationCollection(genes=[gene()], end=5))
    add("AC(start>end)", lambda: AnnotationCollection(genes=[gene()], start=9, end=2))
    add("AC(empty).query", lambda: AnnotationCollection().query_by_position(0, 5))
    add("AC(empty).to_dict", lambda: AnnotationCollection().to_dict())
    add("AC(empty, parent).get_reference_sequence", lambda: str(AnnotationCollection(parent_or_seq_chunk_parent=chrom()).get_reference_sequence()))
    add("AC(bounds beyond sequence)", lambda: AnnotationCollection(genes=[gene()], start=0, end=N + 10, parent_or_seq_chunk_parent=chrom()))
    add("AC.query(start>end)", lambda: AnnotationCollection(genes=[gene()], parent_or_seq_chunk_parent=chrom()).query_by_position(9, 2))
    add("AC.query(0bp)", lambda: AnnotationCollection(genes=[gene()], parent_or_seq_chunk_parent=chrom()).query_by_position(3, 3))
    add("AC.query(negative)", lambda: AnnotationCollection(genes=[gene()], parent_or_seq_chunk_parent=chrom()).query_by_position(-1, 3))
    add("AC.query(beyond)", lambda: AnnotationCollection(genes=[gene()], parent_or_seq_chunk_parent=chrom()).query_by_position(0, N + 9))
    add("AC.query(coding_only, with variants)", lambda: AnnotationCollection(genes=[gene()], variant_collections=[VariantIntervalCollection(
        [VariantInterval(2, 3, "G", "SNV", parent_or_seq_chunk_parent=chrom())], parent_or_seq_chunk_parent=chrom())], parent_or_seq_chunk_parent=chrom()).query_by_position(0, 14, coding_only=True))
    # a coordinate 0 is a coordinate, not "not given": ranges that leave the explicit bounds [3,12) through position 0 are refused
    acb = lambda: AnnotationCollection(genes=[gene()], start=0, end=14, parent_or_seq_chunk_parent=chrom()).query_by_position(3, 12, completely_within=False)
    for qs, qe in ((0, 8), (5, 0), (0, 0), (0, 12), (3, 0)):
        add(f"AC[3,12).query({qs},{qe})", lambda qs=qs, qe=qe: acb().query_by_position(qs, qe, completely_within=False), must_refuse=True)
    add("AC.query_by_guids(unknown)", lambda: AnnotationCollection(genes=[gene()]).query_by_guids([uuid.UUID(int=1)]))
    add("AC.query_by_feature_identifiers(unknown)", lambda: AnnotationCollection(genes=[gene()]).query_by_feature_identifiers(["nope"]))
    # models
    def _model(cls, d):
        from inscripta.biocantor.io import models

        return getattr(models, cls).Schema().load(d)

    add("TranscriptIntervalModel(strand typo)", lambda: _model("TranscriptIntervalModel", dict(exon_starts=[0], exon_ends=[5], strand="PLUSS")))
    add("TranscriptIntervalModel(frames typo)", lambda: _model("TranscriptIntervalModel", dict(exon_starts=[0], exon_ends=[5], strand="PLUS", cds_starts=[0], cds_ends=[3], cds_frames=["ZER0"])))
    add("TranscriptIntervalModel(unequal).to_transcript_interval", lambda: _model("TranscriptIntervalModel", dict(exon_starts=[0, 7], exon_ends=[5], strand="PLUS")).to_transcript_interval())
    add("FeatureIntervalModel(missing strand)", lambda: _model("FeatureIntervalModel", dict(interval_starts=[0], interval_ends=[5])))
    add("ParentModel(chunk without name).to_parent", lambda: _model("ParentModel", dict(seq="ACGT", type="SEQUENCE_CHUNK", start=0, end=4)).to_parent())
    add("ParentModel(chunk without start).to_parent", lambda: _model("ParentModel", dict(seq="ACGT", type="SEQUENCE_CHUNK", sequence_name="c")).to_parent())
    add("GeneIntervalModel(no transcripts).to_gene_interval", lambda: _model("GeneIntervalModel", dict(transcripts=[])).to_gene_interval())
    add("VariantIntervalModel(start==end).to_variant_interval", lambda: _model("VariantIntervalModel", dict(start=3, end=3, sequence="A", variant_type="SNV")).to_variant_interval())

    # ---- systematic perturbations: every parallel-list argument of every constructor with one entry too few / too many /
    # none; every coordinate pushed below 0 / beyond the sequence / swapped; zero-length and nested variants ----------------
    def list_variants(lst, filler):
        return {"short": list(lst[:-1]), "long": list(lst) + [filler], "empty": []}

    bases = {
        "CompoundInterval": (dict(starts=[1, 7], ends=[4, 10]), lambda kw, par: CompoundInterval(kw["starts"], kw["ends"], P, par)),
        "FeatureInterval": (dict(starts=[1, 7], ends=[4, 10]), lambda kw, par: FeatureInterval(kw["starts"], kw["ends"], Mi, parent_or_seq_chunk_parent=par)),
        "TranscriptInterval": (dict(starts=[1, 7], ends=[4, 10]), lambda kw, par: TranscriptInterval(kw["starts"], kw["ends"], P, parent_or_seq_chunk_parent=par)),
        "CDSInterval": (dict(starts=[1, 7], ends=[4, 10], frames=[Z, Z]), lambda kw, par: CDSInterval(kw["starts"], kw["ends"], P, kw["frames"], parent_or_seq_chunk_parent=par)),
        "Transcript+CDS": (dict(starts=[1, 7], ends=[4, 10], frames=[Z, Z]), lambda kw, par: TranscriptInterval([0, 6], [5, 12], Mi, cds_starts=kw["starts"], cds_ends=kw["ends"], cds_frames=kw["frames"], parent_or_seq_chunk_parent=par)),
    }
    for cname, (base, fn) in bases.items():
        for key in base:
            filler = Z if key == "frames" else (12 if key == "starts" else 14)
            for vname, v in list_variants(base[key], filler).items():
                kw = dict(base, **{key: v})
                for pn, pf in (("none", lambda: None), ("chrom", chrom)):
                    add(f"SYS {cname}({key}:{vname},{pn})", lambda fn=fn, kw=kw, pf=pf: fn(kw, pf()))
        for i in (0, 1):
            for what, kwmod in (
                ("start<0", lambda kw, i=i: dict(kw, starts=[(-1 if j == i else x) for j, x in enumerate(kw["starts"])])),
                ("end>len", lambda kw, i=i: dict(kw, ends=[(N + 2 if j == i else x) for j, x in enumerate(kw["ends"])])),
                ("swapped", lambda kw, i=i: dict(kw, starts=[(kw["ends"][j] if j == i else x) for j, x in enumerate(kw["starts"])], ends=[(kw["starts"][j] if j == i else x) for j, x in enumerate(kw["ends"])])),
                ("nested-beyond", lambda kw, i=i: dict(kw, starts=[0] + list(kw["starts"]), ends=[N + 3] + list(kw["ends"]), **({"frames": [Z] + list(kw["frames"])} if "frames" in kw else {}))),
            ):
                add(f"SYS {cname}(block{i}:{what},chrom)", lambda fn=fn, base=base, kwmod=kwmod: fn(kwmod(dict(base)), chrom()))
        # the parallel lists given in another order than ascending (descending, and rotated by one): the object is either
        # refused or well-formed (start <= end, start/end spanning its blocks)
        for oname, perm in (("reversed", lambda l: list(reversed(l))), ("rotated", lambda l: list(l[1:]) + list(l[:1]))):
            kw = {k_: perm(v_) for k_, v_ in base.items()}
            for pn, pf in (("none", lambda: None), ("chrom", chrom)):
                add(f"SYS {cname}(order:{oname},{pn})", lambda fn=fn, kw=kw, pf=pf: fn(kw, pf()))
        # three blocks (and the frames that belong to them) in every order: the object is the one built from the ascending order
        if cname != "Transcript+CDS":
            import itertools as _it

            b3 = [(1, 3), (5, 8), (10, 12)]
            f3 = [Z, T, O]
            for perm in _it.permutations(range(3)):
                def _three(fn=fn, perm=perm, cname=cname):
                    kw = dict(starts=[b3[i][0] for i in perm], ends=[b3[i][1] for i in perm])
                    if cname == "CDSInterval":
                        kw["frames"] = [f3[i] for i in perm]
                    o_ = fn(kw, None)
                    got = [(b.start, b.end) for b in (o_ if cname == "CompoundInterval" else o_.chromosome_location).blocks]
                    assert got == b3 and (o_.start, o_.end) == (1, 12), f"blocks {got} start/end {o_.start},{o_.end}"
                    if cname == "CDSInterval":
                        assert list(o_.frames) == f3, f"frames {[f.name for f in o_.frames]} no longer belong to their blocks"
                    return o_

                add(f"SYS {cname}(three blocks in order {perm})", _three)
        # a block nested inside the previous one (and one that only overlaps it): well-formed (end = the largest end) or refused
        for nname, st_, en_ in (("nested", [7, 8], [12, 10]), ("staggered", [6, 8], [10, 12]), ("nested-3", [6, 7, 9], [12, 9, 11])):
            kw = dict(base, starts=st_, ends=en_, **({"frames": [Z] * len(st_)} if "frames" in base else {}))
            for pn, pf in (("none", lambda: None), ("chrom", chrom)):
                add(f"SYS {cname}(blocks:{nname},{pn})", lambda fn=fn, kw=kw, pf=pf: fn(kw, pf()))
        if "frames" in base:
            # blocks given out of order AND a frames list of the wrong length: refused like the ordered case
            for vname, fr_ in (("short", [Z]), ("long", [Z, O, T])):
                kw = dict(starts=list(reversed(base["starts"])), ends=list(reversed(base["ends"])), frames=fr_)
                add(f"SYS {cname}(order:reversed + frames:{vname})", lambda fn=fn, kw=kw: fn(kw, chrom()), must_refuse=True)
            add(f"SYS {cname}(all lists empty)", lambda fn=fn, base=base: fn({k_: [] for k_ in base}, chrom()))
    # from_single_intervals: every ordered pair of blocks whose parents are of two DIFFERENT kinds must be refused
    # (mismatched / missing parents), every pair of the same kind gives a well-formed location
    fsi_par = {
        "none": lambda: None,
        "id x": lambda: Parent(id="x"),
        "id y": lambda: Parent(id="y"),
        "id x + type": lambda: Parent(id="x", sequence_type="chromosome"),
        "id x + seq A": lambda: Parent(id="x", sequence=Sequence("ACGTACGTAC", Alphabet.NT_STRICT)),
        "id x + seq B": lambda: Parent(id="x", sequence=Sequence("TTTTTTTTTT", Alphabet.NT_STRICT)),
        "id x + shorter seq": lambda: Parent(id="x", sequence=Sequence("ACGTACGT", Alphabet.NT_STRICT)),
        "no id + seq A": lambda: Parent(sequence=Sequence("ACGTACGTAC", Alphabet.NT_STRICT)),
        "no id + seq B": lambda: Parent(sequence=Sequence("TTTTTTTTTT", Alphabet.NT_STRICT)),
    }
    for k1, p1 in fsi_par.items():
        for k2, p2 in fsi_par.items():
            for st in (P, Mi):
                add(f"SYS from_single_intervals(parents {k1} / {k2},{st.name})",
                    lambda p1=p1, p2=p2, st=st: CompoundInterval.from_single_intervals([SingleInterval(0, 2, st, p1()), SingleInterval(4, 7, st, p2())]), must_refuse=k1 != k2)
    # a refusal is not a one-off: the SAME object asked again refuses again (an undirected interval has no sequence to give)
    def _again(mk, meth):
        def run():
            ob = mk()
            try:
                getattr(ob, meth)()
            except Exception:  # noqa
                pass
            return getattr(ob, meth)()
        return run

    add("SYS second extract_sequence of an UNSTRANDED SingleInterval", _again(lambda: SingleInterval(0, 3, U, seqp()), "extract_sequence"), must_refuse=True)
    add("SYS second extract_sequence of an UNSTRANDED CompoundInterval", _again(lambda: CompoundInterval([0, 4], [2, 6], U, seqp()), "extract_sequence"), must_refuse=True)
    add("SYS second get_spliced_sequence of an UNSTRANDED feature", _again(lambda: FeatureInterval([0], [3], U, parent_or_seq_chunk_parent=chrom()), "get_spliced_sequence"), must_refuse=True)
    # a named parent and a parent WITHOUT a name are different parents for every operation that compares parents
    named = lambda: Parent(id="chr1", sequence_type="chromosome")
    nameless = lambda: Parent(sequence_type="chromosome")
    with_seq = lambda: Parent(id="chr1", sequence_type="chromosome", sequence=Sequence("ACGTACGTAC", Alphabet.NT_STRICT, id="chr1", type="chromosome"))
    for k1, p1, k2, p2 in (("named", named, "nameless", nameless), ("nameless", nameless, "named", named),
                           ("named+sequence", with_seq, "named", named), ("named", named, "named+sequence", with_seq)):
        A_ = lambda p1=p1: SingleInterval(0, 5, P, p1())
        B_ = lambda p2=p2: SingleInterval(3, 8, P, p2())
        add(f"SYS union(parent {k1} / {k2})", lambda A_=A_, B_=B_: A_().union(B_()), must_refuse=True)
        add(f"SYS union_preserve_overlaps(parent {k1} / {k2})", lambda A_=A_, B_=B_: A_().union_preserve_overlaps(B_()), must_refuse=True)
        add(f"SYS distance_to(parent {k1} / {k2})", lambda A_=A_, B_=B_: A_().distance_to(B_()), must_refuse=True)
        add(f"SYS location_relative_to(parent {k1} / {k2})", lambda A_=A_, B_=B_: A_().location_relative_to(B_()), must_refuse=True)
        for opn in ("intersection", "has_overlap", "minus", "contains"):
            add(f"SYS {opn}(strict, parent {k1} / {k2})", lambda A_=A_, B_=B_, opn=opn: getattr(A_(), opn)(B_(), strict_parent_compare=True), must_refuse=True)
    # alphabet refusal does not depend on what was validated before: for every ordered pair of alphabets (A, B) and every
    # text valid under A but not under B, the text is first accepted under A and must then still be refused under B
    for A in Alphabet:
        for B in Alphabet:
            if A is B:
                continue
            only_a = [c for c in A.value if c not in B.value]
            common = [c for c in A.value if c in B.value]
            for c in only_a[:6]:
                for text in ((common[0] if common else "") + c, c.lower() + c):
                    def _two(A=A, B=B, text=text):
                        Sequence(text, A)
                        return Sequence(text, B)

                    add(f"SYS Sequence({text!r}) accepted as {A.name} then built as {B.name}", _two, must_refuse=True)
    # Parent: every kind of child location x every kind of inconsistency
    seq10 = lambda: Sequence("ACGTACGTAC", Alphabet.NT_STRICT, id="s")
    locs = {
        "single": lambda st, par=None: SingleInterval(12, 15, st, par),
        "single-zero": lambda st, par=None: SingleInterval(15, 15, st, par),
        "compound": lambda st, par=None: CompoundInterval([2, 12], [4, 15], st, par),
        "compound-all-zero": lambda st, par=None: CompoundInterval([12, 15], [12, 15], st, par),
    }
    for lname, lf in locs.items():
        add(f"SYS Parent(location {lname} beyond sequence)", lambda lf=lf: Parent(sequence=seq10(), location=lf(P)))
        add(f"SYS Parent(strand mismatch, location {lname})", lambda lf=lf: Parent(strand=Mi, location=lf(P)))
        add(f"SYS Parent(id mismatch, location {lname})", lambda lf=lf: Parent(id="a", location=lf(P, "b")))
        add(f"SYS Parent(type mismatch, location {lname})", lambda lf=lf: Parent(sequence_type="x", location=lf(P, Parent(id="b", sequence_type="y"))))
    # parent sequences of length 0, 1 and 4 (an empty slice used as a parent is a valid Sequence whose truth value is False):
    # every way of placing a location beyond them
    for L in (0, 1, 4):
        shortp = lambda L=L: Parent(sequence=Sequence(g[:L], Alphabet.NT_STRICT))
        for st in (P, Mi, U):
            add(f"SYS SingleInterval(0,{L + 1},{st.name}) on a {L} bp parent", lambda L=L, st=st, sp=shortp: SingleInterval(0, L + 1, st, sp()))
            add(f"SYS SingleInterval({L},{L + 2},{st.name}) on a {L} bp parent", lambda L=L, st=st, sp=shortp: SingleInterval(L, L + 2, st, sp()))
            add(f"SYS Parent(location 0-{L + 1} {st.name}, sequence of {L} bp)", lambda L=L, st=st: Parent(location=SingleInterval(0, L + 1, st), sequence=Sequence(g[:L], Alphabet.NT_STRICT)))
            add(f"SYS CompoundInterval beyond a {L} bp parent,{st.name}", lambda L=L, st=st, sp=shortp: CompoundInterval([0, L + 1], [0, L + 3], st, sp()))
            add(f"SYS reset_parent to a {L} bp parent,{st.name}", lambda L=L, st=st, sp=shortp: SingleInterval(0, L + 1, st).reset_parent(sp()))
            add(f"SYS extend_absolute beyond a {L} bp parent,{st.name}", lambda L=L, st=st, sp=shortp: SingleInterval(0, L, st, sp()).extend_absolute(0, 2))
            add(f"SYS shift_position beyond a {L} bp parent,{st.name}", lambda L=L, st=st, sp=shortp: SingleInterval(0, L, st, sp()).shift_position(2))
            add(f"SYS FeatureInterval beyond a {L} bp chromosome,{st.name}", lambda L=L, st=st: FeatureInterval([0], [L + 1], st, parent_or_seq_chunk_parent=lib.chrom_parent(g[:L])))
    # mismatched parents: an interval built on one chromosome is moved to a parent that names another chromosome, or the
    # same name with other bases / another length.  The statement lists mismatched parents among the inconsistent data
    # that must be refused (these four are; a chunk's chromosome carries no sequence, so chunk targets can only be told apart by id)
    g2 = g[::-1]
    movers = {
        "FeatureInterval": lambda: FeatureInterval([1, 7], [4, 10], P, parent_or_seq_chunk_parent=chrom()),
        "TranscriptInterval": lambda: TranscriptInterval([1, 7], [4, 10], Mi, cds_starts=[2], cds_ends=[4], cds_frames=[Z], parent_or_seq_chunk_parent=chrom()),
        "CDSInterval": lambda: CDSInterval([1, 7], [4, 10], P, [Z, Z], parent_or_seq_chunk_parent=chrom()),
        "VariantInterval": lambda: VariantInterval(2, 3, "A", "SNV", parent_or_seq_chunk_parent=chrom()),
        "GeneInterval": lambda: GeneInterval([TranscriptInterval([1, 7], [4, 10], P, parent_or_seq_chunk_parent=chrom())], parent_or_seq_chunk_parent=chrom()),
        "FeatureIntervalCollection": lambda: FeatureIntervalCollection([FeatureInterval([1, 7], [4, 10], P, parent_or_seq_chunk_parent=chrom())], parent_or_seq_chunk_parent=chrom()),
    }
    targets = {
        "same id, other bases": lambda: lib.chrom_parent(g2),
        "same id, shorter sequence": lambda: lib.chrom_parent(g[:12]),
        "other id": lambda: lib.chrom_parent(g, "chrX"),
        "chunk of another id": lambda: lib.chunk_parent(g, 0, 12, "chrX"),
    }
    for mn, mf in movers.items():
        for tn, tf in targets.items():
            add(f"SYS {mn}.liftover_to_parent_or_seq_chunk_parent({tn})", lambda mf=mf, tf=tf: mf().liftover_to_parent_or_seq_chunk_parent(tf()), must_refuse=True)
    return cases


def run_ctor(res, shard_i):
    cases = ctor_cases()
    for idx, (name, fn, well_typed, must_refuse) in enumerate(cases):
        if idx % 8 != shard_i:
            continue
        bootstrap.clear_global_caches()
        with warnings.catch_warnings():
            warnings.simplefilter("ignore")
            o = lib.outcome(fn)
        res.trans()
        res.state(("ctor", name))
        res.nontriv(("ctor", name))
        case = dict(kind="ctor", name=name)
        if o[0] == "exc":
            cl = classify(o[2], well_typed)
            res.note("ctor", cl + ":" + o[1])
            if cl == "internal":
                res.deviation(name, case, o[1], "documented exception or well-formed object", sig=f"ctor-internal:{name.split('(')[0]}:{o[1]}")
            elif isinstance(must_refuse, str) and must_refuse not in [c.__name__ for c in type(o[2]).__mro__]:
                # the documented refusal of this input class names its exception type (an incidental builtin error is not it)
                res.deviation(name, case, o[1] + ": " + str(o[2])[:80], must_refuse, sig=f"ctor-wrong-refusal:{name.split('(')[0]}")
        else:
            v = o[1]
            if isinstance(v, (types.GeneratorType,)):
                v = list(v)
            probs = value_problems(v)
            res.note("ctor", "accepted")
            if must_refuse:
                probs = probs + ["accepted: " + repr(v)[:80]]
            if probs:
                res.deviation(name, case, probs, "documented exception or well-formed object", sig=f"ctor-illformed:{name.split('(')[0]}")
    res.sample({"constructor_case": cases[0][0]})


# ---- part B: boundary arguments on every public method ---------------------------------------------------------------------------
def _partners(obj):
    par = None
    try:
        loc = obj if isinstance(obj, Location) else obj.chunk_relative_location
        par = loc.parent.strip_location_info() if (loc is not None and type(loc) is not _EmptyLocation and loc.parent) else None
    except Exception:  # noqa
        pass
    short = par is not None and par.sequence is not None and len(par.sequence) < 10
    hi = 4 if short else 9
    return [
        SingleInterval(1, 3, Strand.PLUS, par),
        CompoundInterval([0, 3], [2, hi - 1], Strand.MINUS, par),
        SingleInterval(hi - 1, hi, Strand.PLUS, par),
        SingleInterval(1, 3, Strand.PLUS, Parent(id="other")),
        SingleInterval(2, 2, Strand.PLUS, par),
        EmptyLocation(),
    ]


def menu_for(param, obj, L):
    """returns (values, typed_ok) or None when the parameter type is outside the menu"""
    ann = param.annotation
    name = param.name
    optional = False
    origin = typing.get_origin(ann)
    args = typing.get_args(ann)
    if origin is typing.Union and type(None) in args:
        optional = True
        rest = [a for a in args if a is not type(None)]
        ann = rest[0] if len(rest) == 1 else typing.Union[tuple(rest)]
        origin = typing.get_origin(ann)
        args = typing.get_args(ann)
    # "None where optional": only parameters whose DEFAULT is None are truly optional (Optional[...] annotations with a
    # non-None default are the library's spelling of 'keyword argument')
    optional = param.default is None
    vals = None
    if isinstance(ann, str):
        ann = {"Location": Location, "Strand": Strand, "Sequence": Sequence, "Parent": Parent, "AbstractLocation": Location, "int": int, "bool": bool}.get(ann.strip('"'), ann)
    annname = getattr(ann, "__name__", "") if not isinstance(ann, str) else ann
    if annname in ("Sequence", "AbstractSequence"):
        vals = [Sequence(GENOME, Alphabet.NT_EXTENDED_GAPPED, id="chrV", type="chromosome"), Sequence("ACGT", Alphabet.NT_STRICT)]
    elif ann is int:
        vals = sorted({-1, 0, 1, L - 1, L, L + 1})
    elif ann is bool:
        vals = [False, True]
    elif ann is Strand:
        vals = [Strand.PLUS, Strand.MINUS, Strand.UNSTRANDED]
    elif ann is DistanceType:
        vals = list(DistanceType)
    elif ann is TranslationTable:
        vals = list(TranslationTable)
    elif ann is CDSFrame:
        vals = list(CDSFrame)
    elif ann is str:
        vals = ["feature_name", "x", ""]
    elif ann is RGB:
        vals = [RGB(1, 2, 3)]
    elif ann is uuid.UUID:
        vals = [uuid.UUID(int=7)]
    elif inspect.isclass(ann) and issubclass(ann, Location) or ann is Location or getattr(ann, "__name__", "") in ("Location", "AbstractLocation") or name in ("other", "parent_location", "location"):
        vals = _partners(obj)
    elif getattr(ann, "__name__", "") == "Parent" or name in ("new_parent", "parent_or_seq_chunk_parent", "seq_chunk_parent"):
        vals = [lib.chrom_parent(GENOME), lib.chunk_parent(GENOME, 1, 20), Parent(id="zzz")]
        optional = optional or name == "new_parent"
    elif getattr(ann, "__name__", "") in ("Sequence", "AbstractSequence") or name == "sequence":
        vals = [Sequence(GENOME, Alphabet.NT_EXTENDED_GAPPED, id="chrV", type="chromosome"), Sequence("ACGT", Alphabet.NT_STRICT)]
    elif origin in (list, typing.List) or name in ("id_or_ids", "ids"):
        vals = [[], [uuid.UUID(int=7)]]
    elif origin in (dict, typing.Dict) or name in ("parent_qualifiers", "new_qualifiers"):
        vals = [{}, {"k": {"v"}}]
    elif name in ("sequence_type", "ancestor_type"):
        vals = ["chromosome", "sequence_chunk", "absent"]
    elif name in ("variants",):
        return None
    if vals is None:
        if param.default is not inspect._empty:
            return "default"
        return None
    if optional:
        vals = list(vals) + [None]
    return vals


def explore_methods(res, spec):
    bootstrap.clear_global_caches()
    probe = c10.build(spec)
    cls = type(probe)
    try:
        L = len(probe)
    except Exception:  # noqa
        L = 5
    skipped = []
    for name in sorted(dir(cls)):
        if name.startswith("_"):
            continue
        try:
            static = inspect.getattr_static(cls, name)
        except AttributeError:
            continue
        if isinstance(static, (classmethod, staticmethod)):
            continue
        f = getattr(cls, name, None)
        is_prop = isinstance(static, property) or type(static).__name__ in ("_LruCacheWire", "CachedProperty") and not callable(getattr(probe, name, None)) if False else isinstance(static, property)
        if is_prop or not callable(f):
            calls = [((), True)]
            getter = True
        else:
            try:
                sig = inspect.signature(f)
            except (TypeError, ValueError):
                continue
            params = list(sig.parameters.values())[1:]
            menus = []
            ok = True
            for p in params:
                if p.kind in (p.VAR_POSITIONAL, p.VAR_KEYWORD):
                    continue
                m = menu_for(p, probe, L)
                if m is None:
                    ok = False
                    break
                if m == "default":
                    continue
                menus.append((p.name, m))
            if not ok:
                skipped.append(name)
                continue
            total = 1
            for _, m in menus:
                total *= len(m)
            if total > 1500:
                # keep the product finite but complete over the two most boundary-sensitive leading parameters
                menus = menus[:3]
            calls = [(tuple(zip([n for n, _ in menus], combo)), True) for combo in itertools.product(*[m for _, m in menus])]
            getter = False
        for kwargs, typed_ok in calls:
            bootstrap.clear_global_caches()
            obj = c10.build(spec)
            kw = dict(kwargs)

            def call():
                if getter:
                    v = getattr(obj, name)
                    if callable(v) and not isinstance(v, (Location, Sequence)):
                        v = v()
                else:
                    v = getattr(obj, name)(**kw)
                if isinstance(v, (types.GeneratorType, map, filter)) or (hasattr(v, "__next__") and hasattr(v, "__iter__")):
                    v = list(v)
                return v

            with warnings.catch_warnings():
                warnings.simplefilter("ignore")
                o = lib.outcome(call)
            res.trans()
            case = dict(kind="method", spec=spec, method=name, kwargs=[[k, _j(v)] for k, v in kwargs])
            if kwargs:
                res.nontriv((c10.spec_key(spec), name, repr([_j(v) for _, v in kwargs])))
            if o[0] == "exc":
                # a None passed for an Optional parameter is well typed
                cl = classify(o[2], True)
                res.note("method", cl)
                if cl == "internal":
                    res.deviation(f"{cls.__name__}.{name}", case, o[1], "value or documented exception", sig=f"internal:{cls.__name__}.{name}:{o[1]}")
            else:
                res.note("method", "value")
                probs = value_problems(o[1])
                if probs:
                    res.deviation(f"{cls.__name__}.{name}", case, probs[:3], "well-formed value", sig=f"illformed:{cls.__name__}.{name}")
    res.state(("methods", c10.spec_key(spec)))
    for s in skipped:
        res.extra[f"unexplorable:{cls.__name__}.{s}"] += 1
    res.sample({"object": spec, "class": cls.__name__})


def _j(v):
    if v is None or isinstance(v, (bool, int, str)):
        return v
    if isinstance(v, enum.Enum):
        return f"{type(v).__name__}.{v.name}"
    if isinstance(v, Location):
        return ["loc", [list(b) for b in lib.loc_blocks(v)], lib.loc_strand(v), v.parent.id if v.parent else None]
    return repr(v)[:60]


def run_shard(shard):
    res = ShardResult()
    if shard["part"] == "ctor":
        run_ctor(res, shard["i"])
    elif shard["part"] == "locmethods":
        for idx, spec in enumerate(loc_specs(shard["tier"])):
            if idx % 32 == shard["i"]:
                explore_methods(res, spec)
    else:
        spec = catalogue(shard["tier"])[shard["idx"]]
        explore_methods(res, spec)
    bootstrap.clear_global_caches()
    return res


def replay(case):
    res = ShardResult()
    if case["kind"] == "ctor":
        for i in range(8):
            run_ctor(res, i)
        return [d for d in res.deviations if d["case"]["name"] == case["name"]]
    explore_methods(res, case["spec"])
    devs = [d for d in res.deviations if d["case"]["method"] == case["method"] and d["case"]["kwargs"] == case["kwargs"]]
    return devs


def _m_cds_outside_exons(d):
    """TranscriptInterval only compares the outer CDS bounds with the outer exon bounds: a CDS block lying in an intron
    (or bridging one) is accepted and the object's CDS is not a subset of its exons"""
    return d["sig"] == "ctor-illformed:Transcript" and d["observed"] == ["CDS positions not inside exons"] and d["case"]["name"] in (
        "Transcript(cds inside intron)", "Transcript(cds spanning intron as one block)")


MATCHERS = {"c19_cds_outside_exons": _m_cds_outside_exons}
