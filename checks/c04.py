"""C04 - lift-over through nested coordinate systems composes and preserves sequence; chunk round trip."""
import itertools

from vlib import lib, worlds  # noqa
from vlib.model import loc as M
from vlib.model import frame as F
from vlib.runner import ShardResult

from inscripta.biocantor.exc import NoSuchAncestorException, LocationOverlapException, BioCantorException, NullParentException
from inscripta.biocantor.gene.interval import AbstractInterval
from inscripta.biocantor.location.location_impl import _EmptyLocation
from inscripta.biocantor.parent import Parent
from inscripta.biocantor.sequence import Sequence
from inscripta.biocantor.sequence.alphabet import Alphabet

PROPERTY = "C04"
TITLE = "Lift-over through nested coordinate systems composes and preserves sequence"
RULE = (
    "every hierarchy of depth 1..D: level 0 is a designed chromosome of N0 bases, level i+1 is a sequence placed on level "
    "i by ANY layout (<=2 blocks, either strand) of level i's length; every leaf location (<=2 blocks, either strand) "
    "on the deepest level; lifted to every ancestor by type and by sequence identity, to an absent type/sequence, and "
    "via Parent.lift_child_location_to_parent; chunk half: every location x every chunk window x chunk strand. "
    "Non-trivial = some level is multi-block or on the minus strand."
)
ASSUMPTIONS = [
    "expected position list = composition of the per-level position lists P (vlib/model/loc.py); strand = product",
    "levels are placed by disjoint layouts, so the composed order is always representable by sorted blocks",
]
WORLD = {"quick": dict(N0=5, D=3, kl=2, Nc=7), "thorough": dict(N0=6, D=4, kl=2, Nc=9)}
NSH = 64
SCALE_KS = {"quick": (5, 9, 20), "thorough": (4, 5, 6, 8, 9, 12, 20, 33)}
LETTERS = "ACGTRYKMSWBDHVNacgtrykmswbdhvn"
ALPHA = Alphabet.NT_EXTENDED


def world_description(tier):
    w = WORLD[tier]
    return f"hierarchies depth<= {w['D']} over N0={w['N0']} (<= {w['kl']} blocks per level); chunk half: layouts N={w['Nc']} k<=3 x all windows x chunk strands; scale family: levels placed by {SCALE_KS[tier]} blocks (+ a second level), leaves and chunk windows on ladders of junction coordinates"


def shards(tier, seed):
    return ([{"tier": tier, "part": "hier", "i": i} for i in range(NSH)] + [{"tier": tier, "part": "chunk", "i": i} for i in range(16)]
            + [{"tier": tier, "part": "scale", "i": i} for i in range(16)])


def level_specs(n_prev, kl):
    for bl in worlds.layouts(n_prev, kl, "disjoint"):
        for s in "+-":
            yield bl, s


def build(G0, levels, leaf, drop_top=False, chain_only=False, decoy=False):
    """levels: list of (blocks, strand) placing level i+1 on level i. Returns (leaf location, texts per level, types).
    drop_top: the same lower levels WITHOUT the top ancestor (level 1 becomes the root)."""
    texts = [G0]
    for bl, s in levels:
        texts.append(F.splice(texts[-1], M.P(bl, s), s))
    # parents from the top down
    par = Parent(id="L0", sequence_type="t0", sequence=Sequence(G0, ALPHA, id="L0", type="t0"))
    for i, (bl, s) in enumerate(levels):
        if i == 0 and drop_top:
            seq = Sequence(texts[1], ALPHA, id="L1", type="t1")
            par = Parent(id="L1", sequence_type="t1", sequence=seq)
            continue
        loc_on_prev = lib.mk_loc(bl, s, par)  # location of level i+1 on level i
        if decoy:
            # the level is described twice: its Sequence object remembers ANOTHER placement (same blocks, opposite strand)
            # than the hierarchy it is put into; the explicit parent given to Parent(...) is the one that counts
            other = lib.mk_loc(bl, M.strand_rev(s), par)
            seq = Sequence(texts[i + 1], ALPHA, id=f"L{i+1}", type=f"t{i+1}", parent=other.parent, validate_parent=False)
        elif chain_only:
            # the other documented way to nest: the hierarchy is carried by Parent.parent only, sequences are bare
            seq = Sequence(texts[i + 1], ALPHA, id=f"L{i+1}", type=f"t{i+1}")
        else:
            seq = Sequence(texts[i + 1], ALPHA, id=f"L{i+1}", type=f"t{i+1}", parent=loc_on_prev.parent)
        par = Parent(id=f"L{i+1}", sequence_type=f"t{i+1}", sequence=seq, parent=loc_on_prev.parent)
    L = lib.mk_loc(leaf[0], leaf[1], par)
    return L, texts


def compose(levels, leaf, upto):
    """positions of the leaf on level `upto` (0 = chromosome), 5'->3', and the strand product"""
    pos = M.P(leaf[0], leaf[1])
    strand = leaf[1]
    for lvl in range(len(levels), upto, -1):
        bl, s = levels[lvl - 1]
        Pm = M.P(bl, s)
        pos = [Pm[q] for q in pos]
        strand = M.strand_rel(strand, s)
    return pos, strand


def check_hier(res, N0, levels, leaf):
    G0 = LETTERS[:N0] if N0 <= len(LETTERS) else (LETTERS * (N0 // len(LETTERS) + 1))[:N0]
    case = dict(kind="hier", N0=N0, levels=[[list(map(list, bl)), s] for bl, s in levels], leaf=[list(map(list, leaf[0])), leaf[1]])
    o = lib.outcome(build, G0, levels, leaf)
    res.trans()
    if o[0] != "ok":
        res.deviation("build", case, o[1], "hierarchy", sig="build-raises")
        return
    L, texts = o[1]
    d = len(levels)
    res.state(("hier", tuple(levels), leaf))
    if any(len(bl) > 1 or s == "-" for bl, s in levels) or leaf[1] == "-" or len(leaf[0]) > 1:
        res.nontriv(("hier", tuple(levels), leaf))
    leaf_seq = F.splice(texts[d], M.P(leaf[0], leaf[1]), leaf[1])
    o = lib.outcome(lambda: str(L.extract_sequence()))
    res.trans()
    if o[0] != "ok" or o[1] != leaf_seq:
        res.deviation("extract_sequence", dict(op="leaf-extract", **case), o[1], leaf_seq, sig="leaf-extract")
    for upto in range(d, -1, -1):
        expP, expS = compose(levels, leaf, upto)
        for how in ("type", "sequence"):
            if how == "type":
                o = lib.outcome(L.lift_over_to_first_ancestor_of_type, f"t{upto}")
            else:
                target = Sequence(texts[upto], ALPHA, id=f"L{upto}", type=f"t{upto}")
                # the ancestor's own Sequence object (equality includes its parent) is what a user passes:
                p = L.parent
                for _ in range(d - upto):
                    p = p.parent
                target = p.sequence
                o = lib.outcome(L.lift_over_to_sequence, target)
            res.trans()
            c = dict(op=f"lift-{how}", upto=upto, **case)
            if how == "sequence" and len(M.runs(M.S(leaf[0]))) != 1 or (how == "sequence" and len(leaf[0]) > 1 and any(leaf[0][i][1] != leaf[0][i + 1][0] for i in range(len(leaf[0]) - 1))):
                res.note("lift-sequence", "noncontiguous")
                if o[0] == "ok" or not isinstance(o[2], ValueError):
                    res.deviation("lift_over_to_sequence", c, o[1], "ValueError", sig="lift-seq-noncontiguous")
                continue
            res.note(f"lift-{how}", f"up{d - upto}")
            if o[0] != "ok":
                inter = [len(M.runs(compose(levels, leaf, j)[0])) > 1 for j in range(upto, d)]
                res.deviation(f"lift-{how}", c, o[1], expP, sig=f"lift-{how}-raises", intermediate_noncontiguous=any(inter))
                continue
            R = o[1]
            got = M.P(lib.loc_blocks(R), lib.loc_strand(R))
            if got != expP or lib.loc_strand(R) != expS:
                res.deviation(f"lift-{how}", c, [got, lib.loc_strand(R)], [expP, expS], sig=f"lift-{how}-positions")
                continue
            if R.parent is None or R.parent.id != f"L{upto}" or R.parent.sequence_type != f"t{upto}":
                res.deviation(f"lift-{how}", c, lib.parent_chain(R.parent), f"parent L{upto}", sig=f"lift-{how}-parent")
                continue
            o2 = lib.outcome(lambda: str(R.extract_sequence()))
            res.trans()
            if o2[0] != "ok" or o2[1] != leaf_seq:
                res.deviation(f"lift-{how}", c, o2[1], leaf_seq, sig=f"lift-{how}-sequence")
            probs = lib.check_wellformed(R)
            if probs:
                res.deviation(f"lift-{how}", c, probs, "well-formed", sig=f"lift-{how}-illformed")
        # ancestor predicates
        o = lib.outcome(lambda: (L.has_ancestor_of_type(f"t{upto}"), L.first_ancestor_of_type(f"t{upto}").id))
        res.trans()
        if o[0] != "ok" or o[1] != (True, f"L{upto}"):
            res.deviation("first_ancestor_of_type", dict(op="ancestor", upto=upto, **case), o[1], (True, f"L{upto}"), sig="ancestor")
    # one-step lift through Parent.lift_child_location_to_parent
    if d >= 1:
        expP, expS = compose(levels, leaf, d - 1)
        o = lib.outcome(L.parent.lift_child_location_to_parent)
        res.trans()
        if o[0] != "ok" or M.P(lib.loc_blocks(o[1]), lib.loc_strand(o[1])) != expP or lib.loc_strand(o[1]) != expS:
            res.deviation("lift_child_location_to_parent", dict(op="lift-child", **case), lib.canon_loc(o[1]) if o[0] == "ok" else o[1], [expP, expS], sig="lift-child")
    # refusals
    o = lib.outcome(L.lift_over_to_first_ancestor_of_type, "absent")
    res.trans()
    if o[0] == "ok" or not isinstance(o[2], NoSuchAncestorException):
        res.deviation("lift_over_to_first_ancestor_of_type", dict(op="lift-absent-type", **case), o[1], "NoSuchAncestorException", sig="lift-absent-type")
    o = lib.outcome(L.has_ancestor_of_type, "absent")
    res.trans()
    if o[0] != "ok" or o[1] is not False:
        res.deviation("has_ancestor_of_type", dict(op="has-absent", **case), o[1], False, sig="has-absent")
    if len(leaf[0]) == 1:
        foreign = Sequence("ACGTACGTAC", ALPHA, id="foreign")
        o = lib.outcome(L.lift_over_to_sequence, foreign)
        res.trans()
        if o[0] == "ok" or not isinstance(o[2], NoSuchAncestorException):
            res.deviation("lift_over_to_sequence", dict(op="lift-foreign-seq", **case), o[1], "NoSuchAncestorException", sig="lift-foreign-seq")


def check_truncated_twin(res, N0, levels, leaf, chain_only=False):
    """Two hierarchies in ONE process that share every lower level but only one of which has the top ancestor: neither
    may be answered from the other (the Parent constructor is memoised process-wide).  Both build orders."""
    G0 = LETTERS[:N0]
    d = len(levels)
    case = dict(kind="twin", chain_only=chain_only, N0=N0, levels=[[list(map(list, bl)), s] for bl, s in levels], leaf=[list(map(list, leaf[0])), leaf[1]])
    for order in ("full-first", "truncated-first"):
        from vlib import bootstrap

        bootstrap.clear_global_caches()
        objs = {}
        for which in (("full", "trunc") if order == "full-first" else ("trunc", "full")):
            o = lib.outcome(build, G0, levels, leaf, which == "trunc", chain_only)
            if o[0] != "ok":
                res.deviation("build", dict(op="twin-build", order=order, **case), o[1], "hierarchy", sig="twin-build-raises")
                return
            objs[which] = o[1][0]
        res.trans()
        res.state(("twin", tuple(levels), leaf, order, chain_only))
        res.nontriv(("twin", tuple(levels), leaf, order, chain_only))
        full, trunc = objs["full"], objs["trunc"]
        c = dict(op="twin", order=order, **case)
        # the truncated hierarchy has no level-0 ancestor; the full one has
        o1 = lib.outcome(trunc.has_ancestor_of_type, "t0")
        o2 = lib.outcome(full.has_ancestor_of_type, "t0")
        if o1 != ("ok", False) or o2 != ("ok", True):
            res.deviation("has_ancestor_of_type", c, [o1[1], o2[1]], [False, True], sig="twin-ancestor")
            continue
        o = lib.outcome(trunc.lift_over_to_first_ancestor_of_type, "t0")
        if o[0] == "ok" or not isinstance(o[2], NoSuchAncestorException):
            res.deviation("lift_over_to_first_ancestor_of_type", c, o[1] if o[0] == "exc" else lib.canon_loc(o[1]), "NoSuchAncestorException", sig="twin-trunc-lift")
        expP, expS = compose(levels, leaf, 0)
        o = lib.outcome(full.lift_over_to_first_ancestor_of_type, "t0")
        if o[0] != "ok" or M.P(lib.loc_blocks(o[1]), lib.loc_strand(o[1])) != expP or lib.loc_strand(o[1]) != expS:
            res.deviation("lift_over_to_first_ancestor_of_type", c, lib.canon_loc(o[1]) if o[0] == "ok" else o[1], [expP, expS], sig="twin-full-lift")
        if d >= 2:
            expP1, expS1 = compose(levels, leaf, 1)
            for nm, obj in (("trunc", trunc), ("full", full)):
                o = lib.outcome(obj.lift_over_to_first_ancestor_of_type, "t1")
                if o[0] != "ok" or M.P(lib.loc_blocks(o[1]), lib.loc_strand(o[1])) != expP1:
                    res.deviation("lift_over_to_first_ancestor_of_type", dict(which=nm, **c), lib.canon_loc(o[1]) if o[0] == "ok" else o[1], expP1, sig="twin-t1-lift")


def check_ancestor_alias(res):
    """two hierarchies of SEQUENCE-LESS parents that differ only in depth (the longer one has an extra top ancestor), a
    location-carrying Parent built on each, in both build orders: the shorter one has no such ancestor, whatever was
    built before"""
    from vlib import bootstrap

    for bl in (((5, 10),), ((1, 3), (5, 8))):
        for strand in "+-":
            for order in ("long-first", "short-first"):
                bootstrap.clear_global_caches()
                got = {}
                for which in (("long", "short") if order == "long-first" else ("short", "long")):
                    top = Parent(id="chr1", sequence_type="chromosome", parent=Parent(id="asm", sequence_type="assembly")) if which == "long" else Parent(id="chr1", sequence_type="chromosome")
                    mid = Parent(location=lib.mk_loc(bl, strand, top))
                    got[which] = lib.outcome(mid.location.has_ancestor_of_type, "assembly")
                res.trans()
                res.state(("alias", bl, strand, order))
                res.nontriv(("alias", bl, strand, order))
                res.note("alias", order)
                if got["long"] != ("ok", True) or got["short"] != ("ok", False):
                    res.deviation("has_ancestor_of_type", dict(kind="alias", blocks=[list(b) for b in bl], strand=strand, order=order),
                                  [got["long"][1], got["short"][1]], [True, False], sig="ancestor-alias")


def check_decoy(res, N0, levels, leaf):
    """explicit parent placement wins over the placement remembered by the level's Sequence object"""
    G0 = LETTERS[:N0]
    case = dict(kind="decoy", N0=N0, levels=[[list(map(list, bl)), s] for bl, s in levels], leaf=[list(map(list, leaf[0])), leaf[1]])
    o = lib.outcome(build, G0, levels, leaf, False, False, True)
    res.trans()
    if o[0] != "ok":
        if not lib.is_documented_exc(o[2]):
            res.deviation("build", dict(op="decoy-build", **case), o[1], "hierarchy or documented refusal", sig="decoy-build")
        return
    L, _ = o[1]
    res.state(("decoy", tuple(levels), leaf))
    res.nontriv(("decoy", tuple(levels), leaf))
    for upto in range(len(levels) - 1, -1, -1):
        expP, expS = compose(levels, leaf, upto)
        o = lib.outcome(L.lift_over_to_first_ancestor_of_type, f"t{upto}")
        res.trans()
        c = dict(op="lift-decoy", upto=upto, **case)
        if o[0] != "ok" or M.P(lib.loc_blocks(o[1]), lib.loc_strand(o[1])) != expP or lib.loc_strand(o[1]) != expS:
            res.deviation("lift-decoy", c, lib.canon_loc(o[1]) if o[0] == "ok" else o[1], [expP, expS], sig="decoy-lift")


def check_overlap_leaf(res, N0, levels, leaf):
    """leaf with overlapping blocks: the lifted location must cover the same bases with the same multiplicity (the order
    of overlapping blocks is the C01 representation limit and not judged here)"""
    G0 = LETTERS[:N0]
    case = dict(kind="ovl", N0=N0, levels=[[list(map(list, bl)), s] for bl, s in levels], leaf=[list(map(list, leaf[0])), leaf[1]])
    o = lib.outcome(build, G0, levels, leaf)
    if o[0] != "ok":
        return
    L, texts = o[1]
    res.state(("ovl", tuple(levels), leaf))
    res.nontriv(("ovl", tuple(levels), leaf))
    lb = M.sort_blocks(leaf[0], leaf[1])
    for upto in range(len(levels) - 1, -1, -1):
        expP, expS = compose(levels, (lb, leaf[1]), upto)
        o = lib.outcome(L.lift_over_to_first_ancestor_of_type, f"t{upto}")
        res.trans()
        c = dict(op="lift-overlap-leaf", upto=upto, **case)
        if o[0] != "ok":
            res.deviation("lift-overlap-leaf", c, o[1], sorted(expP), sig="ovl-raises")
            continue
        R = o[1]
        got = M.P(lib.loc_blocks(R), lib.loc_strand(R))
        if sorted(got) != sorted(expP) or lib.loc_strand(R) != expS or len(R) != len(expP):
            res.deviation("lift-overlap-leaf", c, [sorted(got), lib.loc_strand(R)], [sorted(expP), expS], sig="ovl-positions")


def check_chunk3(res, N, a, b, bl1, s1, leaf, c_, d_):
    """location -> feature sequence -> chunk A [a,b) -> chromosome, re-lifted onto chunk B [c,d)"""
    from inscripta.biocantor.io.parser import seq_chunk_to_parent

    G = (LETTERS * (N // len(LETTERS) + 2))[:N]
    parA = seq_chunk_to_parent(G[a:b], "chrV", a, b, alphabet=ALPHA)
    loc_on_A = lib.mk_loc(bl1, s1, parA)
    ftext = F.splice(G[a:b], M.P(bl1, s1), s1)
    fseq = Sequence(ftext, ALPHA, id="feat", type="feature", parent=loc_on_A.parent)
    fpar = Parent(id="feat", sequence_type="feature", sequence=fseq, parent=loc_on_A.parent)
    L = lib.mk_loc(leaf[0], leaf[1], fpar)
    parB = seq_chunk_to_parent(G[c_:d_], "chrV", c_, d_, alphabet=ALPHA)
    case = dict(kind="chunk3", N=N, a=a, b=b, bl1=[list(x) for x in bl1], s1=s1, leaf=[[list(x) for x in leaf[0]], leaf[1]], c=c_, d=d_)
    res.state(("chunk3", a, b, bl1, s1, leaf, c_, d_))
    res.nontriv(("chunk3", a, b, bl1, s1, leaf, c_, d_))
    # chromosome positions of the leaf
    PA = M.P(bl1, s1)
    chrom = [a + PA[q] for q in M.P(leaf[0], leaf[1])]
    strand = M.strand_rel(leaf[1], s1)
    inside = [p for p in chrom if c_ <= p < d_]
    o = lib.outcome(AbstractInterval.liftover_location_to_seq_chunk_parent, L, parB)
    res.trans()
    if not inside:
        res.note("chunk3", "no-overlap")
        if o[0] == "ok" and len(o[1]) != 0:
            res.deviation("liftover_location_to_seq_chunk_parent", case, lib.canon_loc(o[1]), "empty", sig="chunk3-not-empty")
        elif o[0] == "exc" and not isinstance(o[2], LocationOverlapException):
            res.deviation("liftover_location_to_seq_chunk_parent", case, o[1], "EmptyLocation", sig="chunk3-raises")
        return
    res.note("chunk3", "overlap")
    if o[0] != "ok":
        res.deviation("liftover_location_to_seq_chunk_parent", case, o[1], inside, sig="chunk3-raises")
        return
    R = o[1]
    rb = lib.loc_blocks(R)
    if any(x < 0 or y > d_ - c_ for x, y in rb):
        res.deviation("liftover_location_to_seq_chunk_parent", case, rb, "inside chunk B", sig="chunk3-out-of-range")
        return
    got = [c_ + q for q in M.P(rb, lib.loc_strand(R))]
    if got != inside or lib.loc_strand(R) != strand:
        res.deviation("liftover_location_to_seq_chunk_parent", case, [got, lib.loc_strand(R)], [inside, strand], sig="chunk3-positions")


def enum_hier(N0, D, kl):
    """yield (levels, leaf) for all depths 0..D-1 of nesting below the chromosome (depth d = number of placed levels)"""
    def rec(levels, n_prev, depth_left):
        # leaf on the current deepest level
        for leaf in level_specs(n_prev, kl):
            yield tuple(levels), leaf
        if depth_left > 0:
            for bl, s in level_specs(n_prev, kl):
                ln = sum(e - b for b, e in bl)
                yield from rec(levels + [(bl, s)], ln, depth_left - 1)

    yield from rec([], N0, D - 1)


def check_chunk(res, N, bl, strand, a, b, cstrand):
    G = (LETTERS * (N // len(LETTERS) + 2))[:N]
    chunk_text = F.splice(G, M.P(((a, b),), cstrand), cstrand)
    from inscripta.biocantor.io.parser import seq_chunk_to_parent

    par = seq_chunk_to_parent(chunk_text, "chrV", a, b, strand=lib.STRAND[cstrand], alphabet=ALPHA)
    L = lib.mk_loc(bl, strand)
    case = dict(kind="chunk", N=N, blocks=[list(x) for x in bl], strand=strand, a=a, b=b, cstrand=cstrand)
    res.state(("chunk", bl, strand, a, b, cstrand))
    inside = [p for p in M.P(bl, strand) if a <= p < b]
    o = lib.outcome(AbstractInterval.liftover_location_to_seq_chunk_parent, L, par)
    res.trans()
    if any(s < a < e or s < b < e for s, e in bl):
        res.nontriv(("chunk", bl, strand, a, b, cstrand))
    if not inside:
        res.note("chunk", "no-overlap")
        if o[0] == "ok":
            if len(o[1]) != 0:
                res.deviation("liftover_location_to_seq_chunk_parent", case, lib.canon_loc(o[1]), "empty", sig="chunk-not-empty")
        elif not isinstance(o[2], (LocationOverlapException,)):
            res.deviation("liftover_location_to_seq_chunk_parent", case, o[1], "EmptyLocation", sig="chunk-raises")
        return
    res.note("chunk", "overlap")
    if o[0] != "ok":
        res.deviation("liftover_location_to_seq_chunk_parent", case, o[1], inside, sig="chunk-raises")
        return
    R = o[1]
    # chunk-relative coordinates: chunk position q <-> chromosome position P(chunk)[q]
    Pc = M.P(((a, b),), cstrand)
    rb = lib.loc_blocks(R)
    if any(s < 0 or e > (b - a) for s, e in rb):
        res.deviation("liftover_location_to_seq_chunk_parent", case, rb, "inside chunk", sig="chunk-out-of-range")
        return
    got_chrom = [Pc[q] for q in M.P(rb, lib.loc_strand(R))]
    if got_chrom != inside or lib.loc_strand(R) != M.strand_rel(strand, cstrand):
        res.deviation("liftover_location_to_seq_chunk_parent", case, [got_chrom, lib.loc_strand(R)], [inside, M.strand_rel(strand, cstrand)], sig="chunk-positions")
        return
    o2 = lib.outcome(R.lift_over_to_first_ancestor_of_type, "chromosome")
    res.trans()
    if o2[0] != "ok" or M.P(lib.loc_blocks(o2[1]), lib.loc_strand(o2[1])) != inside or lib.loc_strand(o2[1]) != strand or o2[1].parent.id != "chrV":
        res.deviation("chunk->chromosome", case, lib.canon_loc(o2[1]) if o2[0] == "ok" else o2[1], [inside, strand], sig="chunk-roundtrip")
    o3 = lib.outcome(lambda: str(R.extract_sequence()))
    res.trans()
    e = F.splice(G, inside, strand)
    if o3[0] != "ok" or o3[1] != e:
        res.deviation("chunk extract_sequence", case, o3[1], e, sig="chunk-sequence")
    # lifting an already chunk-relative location onto another chunk goes through the chromosome
    o4 = lib.outcome(AbstractInterval.liftover_location_to_seq_chunk_parent, R, par)
    res.trans()
    if o4[0] != "ok" or M.P(lib.loc_blocks(o4[1]), lib.loc_strand(o4[1])) != M.P(rb, lib.loc_strand(R)) or lib.loc_strand(o4[1]) != lib.loc_strand(R):
        res.deviation("chunk->chunk", case, lib.canon_loc(o4[1]) if o4[0] == "ok" else o4[1], lib.canon_loc(R), sig="chunk-relift")
    # the interval classes offer the same lift: an ancestor type that the hierarchy does not have is refused there too (and
    # the one it has is answered like the location-level lift)
    if cstrand == "+":
        fo = lib.outcome(lambda: lib.mk_feat(bl, strand, par))
        if fo[0] == "ok":
            o10 = lib.outcome(fo[1].lift_over_to_first_ancestor_of_type, "scaffold")
            o11 = lib.outcome(fo[1].lift_over_to_first_ancestor_of_type, "chromosome")
            res.trans(2)
            if o10[0] == "ok" or type(o10[2]).__name__ != "NoSuchAncestorException":
                res.deviation("FeatureInterval.lift_over_to_first_ancestor_of_type", dict(case, asked="scaffold"), lib.canon_loc(o10[1]) if o10[0] == "ok" else o10[1],
                              "NoSuchAncestorException", sig="interval-lift-absent-type-answered")
            if o11[0] != "ok" or M.P(lib.loc_blocks(o11[1]), lib.loc_strand(o11[1])) != inside:
                res.deviation("FeatureInterval.lift_over_to_first_ancestor_of_type", dict(case, asked="chromosome"), lib.canon_loc(o11[1]) if o11[0] == "ok" else o11[1],
                              inside, sig="interval-lift-chromosome")
    # ... also onto the chunk over the SAME window on the other strand of the chromosome (seq_chunk_to_parent gives both the
    # same id, `chrV:a-b`): same chromosome bases, coordinates counted from the other end, relative strand flipped
    ostrand = "-" if cstrand == "+" else "+"
    opar = seq_chunk_to_parent(F.splice(G, M.P(((a, b),), ostrand), ostrand), "chrV", a, b, strand=lib.STRAND[ostrand], alphabet=ALPHA)
    o8 = lib.outcome(AbstractInterval.liftover_location_to_seq_chunk_parent, R, opar)
    res.trans()
    Po = M.P(((a, b),), ostrand)
    if o8[0] != "ok":
        res.deviation("chunk->twin chunk on the other strand", case, o8[1], [inside, M.strand_rel(strand, ostrand)], sig="chunk-twin-strand-raises")
    else:
        rb8 = lib.loc_blocks(o8[1])
        got8 = [Po[q] for q in M.P(rb8, lib.loc_strand(o8[1]))] if all(0 <= s_ and e_ <= b - a for s_, e_ in rb8) else rb8
        if got8 != inside or lib.loc_strand(o8[1]) != M.strand_rel(strand, ostrand):
            res.deviation("chunk->twin chunk on the other strand", case, [got8, lib.loc_strand(o8[1])], [inside, M.strand_rel(strand, ostrand)], sig="chunk-twin-strand-positions")
        else:
            o9 = lib.outcome(lambda: str(o8[1].extract_sequence()))
            if o9[0] != "ok" or o9[1] != e:
                res.deviation("chunk->twin chunk on the other strand", case, o9[1], e, sig="chunk-twin-strand-sequence")


    # a location that NAMES another chromosome (explicit chromosome parent with a different id) is not a location on this
    # chunk's chromosome: refused, not answered with this chunk's coordinates
    foreign = lib.mk_loc(bl, strand, Parent(id="chrOTHER", sequence_type="chromosome"))
    o7 = lib.outcome(AbstractInterval.liftover_location_to_seq_chunk_parent, foreign, par)
    res.trans()
    res.note("chunk", "foreign-chromosome")
    if o7[0] == "ok" and len(o7[1]) != 0:
        res.deviation("liftover_location_to_seq_chunk_parent", dict(case, foreign=True), lib.canon_loc(o7[1]), "refusal (the location is on another chromosome)", sig="chunk-foreign-chromosome-answered")
    elif o7[0] != "ok" and not lib.is_documented_exc(o7[2]):
        res.deviation("liftover_location_to_seq_chunk_parent", dict(case, foreign=True), o7[1], "documented refusal", sig="chunk-foreign-chromosome-internal")
    # ... and onto the WHOLE chromosome: a parent that carries the chromosome sequence (the chunk's own chromosome level carries
    # none), and a sequence-less chromosome parent - same bases, chromosome coordinates, and the sequence where there is one
    from inscripta.biocantor.io.parser import seq_to_parent

    for tname, target in (("chrom-seq", seq_to_parent(G, alphabet=ALPHA, seq_id="chrV")), ("chrom-noseq", Parent(id="chrV", sequence_type="chromosome"))):
        o5 = lib.outcome(AbstractInterval.liftover_location_to_seq_chunk_parent, R, target)
        res.trans()
        c5 = dict(case, target=tname)
        if o5[0] != "ok":
            res.deviation("chunk->whole chromosome", c5, o5[1], [inside, strand], sig="chunk-to-chromosome-raises")
            continue
        if M.P(lib.loc_blocks(o5[1]), lib.loc_strand(o5[1])) != inside or lib.loc_strand(o5[1]) != strand:
            res.deviation("chunk->whole chromosome", c5, lib.canon_loc(o5[1]), [inside, strand], sig="chunk-to-chromosome-positions")
        elif tname == "chrom-seq":
            o6 = lib.outcome(lambda: str(o5[1].extract_sequence()))
            if o6[0] != "ok" or o6[1] != e:
                res.deviation("chunk->whole chromosome", c5, o6[1], e, sig="chunk-to-chromosome-sequence")


def run_shard(shard):
    res = ShardResult()
    w = WORLD[shard["tier"]]
    if shard["part"] == "hier":
        for idx, (levels, leaf) in enumerate(enum_hier(w["N0"], w["D"], w["kl"])):
            if idx % NSH != shard["i"]:
                continue
            check_hier(res, w["N0"], levels, leaf)
        # hierarchies that share their lower levels (Parent memoisation) - depth 2..3, in both build orders
        for idx, (levels, leaf) in enumerate(enum_hier(w["N0"] - 1, 3, 2)):
            if idx % NSH != shard["i"] or len(levels) < 1 or len(leaf[0]) > 1:
                continue
            check_truncated_twin(res, w["N0"] - 1, list(levels), leaf)
            check_truncated_twin(res, w["N0"] - 1, list(levels), leaf, chain_only=True)
            check_decoy(res, w["N0"] - 1, list(levels), leaf)
        if shard["i"] == 0:
            check_ancestor_alias(res)
        # overlapping leaves below one or two levels
        idx = 0
        N0 = w["N0"]
        for lv in level_specs(N0, 2):
            n1 = sum(e - b for b, e in lv[0])
            for leaf_bl in worlds.layouts(n1, 3, "overlap"):
                if any(b == e for b, e in leaf_bl):
                    continue  # zero-length blocks: whether they can be lifted at all is C01's zero-length clause
                for ls in "+-":
                    idx += 1
                    if idx % NSH != shard["i"]:
                        continue
                    check_overlap_leaf(res, N0, [lv], (leaf_bl, ls))
        res.sample({"levels": [[[[1, 3], [4, 5]], "-"]], "leaf": [[[0, 2]], "+"], "composed": compose([(((1, 3), (4, 5)), "-")], (((0, 2),), "+"), 0)})
    elif shard["part"] == "scale":
        # the scale family (vlib/worlds.py): a level placed on the chromosome by MANY blocks; optionally a second level placed
        # on it by two blocks; leaves = every single interval with both ends on a ladder of coordinates around the block
        # junctions of the deepest level, and one many-block leaf; chunk half: many-block locations x ladder windows
        tier = shard["tier"]
        idx = 0
        for k, bl in worlds.scale_layouts(tier, offset=1, ks=SCALE_KS[tier], npat=2 if tier == "quick" else 3):
            N0 = bl[-1][1] + 1
            n1 = sum(e - b for b, e in bl)
            for s1 in "+-":
                idx += 1
                if idx % 16 != shard["i"]:
                    continue
                second = [None]
                if n1 >= 6:
                    second += [(((1, n1 // 2), (n1 // 2 + 1, n1 - 1)), s2) for s2 in "+-"]
                for lv2 in second:
                    levels = [(bl, s1)] + ([lv2] if lv2 else [])
                    if lv2 is None:
                        pts = worlds.boundary_points(bl, around=1 if k <= 6 else 0)[:: 1 if k <= 9 else 2]
                        nleaf = n1
                    else:
                        nleaf = sum(e - b for b, e in lv2[0])
                        pts = sorted({0, 1, nleaf // 2 - 1, nleaf // 2, nleaf // 2 + 1, nleaf - 1, nleaf})
                    for i_, a_ in enumerate(pts):
                        for b_ in pts[i_ + 1:]:
                            for ls in "+-":
                                check_hier(res, N0, levels, (((a_, b_),), ls))
                    comb = tuple((q, q + 1) for q in range(0, nleaf - 1, 3))
                    if len(comb) > 1:
                        for ls in "+-":
                            check_hier(res, N0, levels, (comb, ls))
                # chunk half
                lo, hi = bl[0][0], bl[-1][1]
                mid = bl[len(bl) // 2]
                wpts = sorted({0, lo, bl[0][1], mid[0], mid[1], bl[-1][0], hi, N0} & set(range(N0 + 1)))
                for i_, a_ in enumerate(wpts):
                    for b_ in wpts[i_ + 1:]:
                        for cs in "+-":
                            check_chunk(res, N0, bl, s1, a_, b_, cs)
        res.sample({"scale": "many-block levels", "ks": list(SCALE_KS[tier])})
    else:
        N = w["Nc"]
        idx = 0
        for bl in worlds.layouts(N, 3, "disjoint"):
            for strand in "+-":
                idx += 1
                if idx % 16 != shard["i"]:
                    continue
                for a, b in worlds.windows(N):
                    for cs in "+-":
                        check_chunk(res, N, bl, strand, a, b, cs)
        # three-level case: location on a feature sequence placed on chunk A, re-lifted onto every chunk B
        idx = 0
        A = (1, N - 1)
        for bl1, s1 in level_specs(A[1] - A[0], 2):
            n1 = sum(e - b for b, e in bl1)
            for leaf in level_specs(n1, 1):
                idx += 1
                if idx % 16 != shard["i"]:
                    continue
                for c_, d_ in worlds.windows(N):
                    check_chunk3(res, N, A[0], A[1], bl1, s1, leaf, c_, d_)
        res.sample({"chunk": [2, 6], "location": [[1, 3], [5, 7]], "expected_inside": [2, 5]})
    return res


def replay(case):
    if case.get("kind") == "alias":
        res = ShardResult()
        check_ancestor_alias(res)
        return [d for d in res.deviations if d["case"] == case]
    return _replay(case)


def _replay(case):
    res = ShardResult()
    if case["kind"] in ("hier", "twin", "ovl", "decoy"):
        levels = tuple((tuple(tuple(b) for b in bl), s) for bl, s in case["levels"])
        leaf = (tuple(tuple(b) for b in case["leaf"][0]), case["leaf"][1])
        if case["kind"] == "twin":
            check_truncated_twin(res, case["N0"], list(levels), leaf, case.get("chain_only", False))
        else:
            {"hier": check_hier, "ovl": check_overlap_leaf, "decoy": check_decoy}[case["kind"]](res, case["N0"], list(levels), leaf)
    elif case["kind"] == "chunk3":
        check_chunk3(res, case["N"], case["a"], case["b"], tuple(tuple(x) for x in case["bl1"]), case["s1"],
                     (tuple(tuple(x) for x in case["leaf"][0]), case["leaf"][1]), case["c"], case["d"])
    else:
        check_chunk(res, case["N"], tuple(tuple(b) for b in case["blocks"]), case["strand"], case["a"], case["b"], case["cstrand"])
    devs = [d for d in res.deviations if d["case"].get("op") == case.get("op") and d["case"].get("upto") == case.get("upto")]
    return devs or res.deviations


def _m_ancestor_alias(d):
    # own class: the id-only, sequence-less twin hierarchies of check_ancestor_alias; own shape: BOTH twins give the answer of
    # the one that was built first (long first: [True, True]; short first: [False, False])
    return d["sig"] == "ancestor-alias" and d["case"].get("kind") == "alias" and d["observed"] == ([True, True] if d["case"]["order"] == "long-first" else [False, False])


def _m_foreign_chromosome(d):
    # the defect's own request (a location with an explicit chromosome parent of another id, lifted onto a chunk) and shape
    # (answered with chunk coordinates as if it were on the chunk's chromosome)
    return d["sig"] == "chunk-foreign-chromosome-answered" and d["case"].get("foreign") is True and d["case"].get("kind") == "chunk"


def _m_lift_seq_noncontig(d):
    """lift_over_to_sequence re-checks contiguity at every level of the recursion: a contiguous location whose image
    on an intermediate level is split (multi-block placement) is refused with ValueError although the ancestor exists"""
    return d["sig"] == "lift-sequence-raises" and d["observed"] == "ValueError" and d.get("intermediate_noncontiguous") is True


MATCHERS = {"c04_lift_seq_noncontig": _m_lift_seq_noncontig, "c04_foreign_chromosome": _m_foreign_chromosome, "c04_ancestor_alias": _m_ancestor_alias}
