"""C04 - lift-over through nested coordinate systems composes and preserves sequence; chunk round trip."""
import itertools

from vlib import lib, worlds
from vlib.model import loc as M
from vlib.model import frame as F
from vlib.runner import ShardResult

from inscripta.biocantor.exc import NoSuchAncestorException, LocationOverlapException, BioCantorException, NullParentException
from inscripta.biocantor.gene.interval import AbstractInterval
from inscripta.biocantor.location.location_impl import _EmptyLocation
from inscripta.biocantor.parent import Parent
from inscripta.biocantor.sequence import Sequence
from inscripta.biocantor.sequence.alphabet import Alphabet

PROPERTY = "C04"
TITLE = "Lift-over through nested coordinate systems composes and preserves sequence"
RULE = (
    "every hierarchy of depth 1..D: level 0 is a designed chromosome of N0 bases, level i+1 is a sequence placed on level "
    "i by ANY layout (<=2 blocks, either strand) of level i's length; every leaf location (<=2 blocks, either strand) "
    "on the deepest level; lifted to every ancestor by type and by sequence identity, to an absent type/sequence, and "
    "via Parent.lift_child_location_to_parent; chunk half: every location x every chunk window x chunk strand. "
    "Non-trivial = some level is multi-block or on the minus strand."
)
ASSUMPTIONS = [
    "expected position list = composition of the per-level position lists P (vlib/model/loc.py); strand = product",
    "levels are placed by disjoint layouts, so the composed order is always representable by sorted blocks",
]
WORLD = {"quick": dict(N0=5, D=3, kl=2, Nc=7), "thorough": dict(N0=6, D=4, kl=2, Nc=9)}
NSH = 64
LETTERS = "ACGTRYKMSWBDHVNacgtrykmswbdhvn"
ALPHA = Alphabet.NT_EXTENDED


def world_description(tier):
    w = WORLD[tier]
    return f"hierarchies depth<= {w['D']} over N0={w['N0']} (<= {w['kl']} blocks per level); chunk half: layouts N={w['Nc']} k<=3 x all windows x chunk strands"


def shards(tier, seed):
    return [{"tier": tier, "part": "hier", "i": i} for i in range(NSH)] + [{"tier": tier, "part": "chunk", "i": i} for i in range(16)]


def level_specs(n_prev, kl):
    for bl in worlds.layouts(n_prev, kl, "disjoint"):
        for s in "+-":
            yield bl, s


def build(G0, levels, leaf):
    """levels: list of (blocks, strand) placing level i+1 on level i. Returns (leaf location, texts per level, types)."""
    texts = [G0]
    for bl, s in levels:
        texts.append(F.splice(texts[-1], M.P(bl, s), s))
    # parents from the top down
    par = Parent(id="L0", sequence_type="t0", sequence=Sequence(G0, ALPHA, id="L0", type="t0"))
    for i, (bl, s) in enumerate(levels):
        loc_on_prev = lib.mk_loc(bl, s, par)  # location of level i+1 on level i
        seq = Sequence(texts[i + 1], ALPHA, id=f"L{i+1}", type=f"t{i+1}", parent=loc_on_prev.parent)
        par = Parent(id=f"L{i+1}", sequence_type=f"t{i+1}", sequence=seq, parent=loc_on_prev.parent)
    L = lib.mk_loc(leaf[0], leaf[1], par)
    return L, texts


def compose(levels, leaf, upto):
    """positions of the leaf on level `upto` (0 = chromosome), 5'->3', and the strand product"""
    pos = M.P(leaf[0], leaf[1])
    strand = leaf[1]
    for lvl in range(len(levels), upto, -1):
        bl, s = levels[lvl - 1]
        Pm = M.P(bl, s)
        pos = [Pm[q] for q in pos]
        strand = M.strand_rel(strand, s)
    return pos, strand


def check_hier(res, N0, levels, leaf):
    G0 = LETTERS[:N0]
    case = dict(kind="hier", N0=N0, levels=[[list(map(list, bl)), s] for bl, s in levels], leaf=[list(map(list, leaf[0])), leaf[1]])
    o = lib.outcome(build, G0, levels, leaf)
    res.trans()
    if o[0] != "ok":
        res.deviation("build", case, o[1], "hierarchy", sig="build-raises")
        return
    L, texts = o[1]
    d = len(levels)
    res.state(("hier", tuple(levels), leaf))
    if any(len(bl) > 1 or s == "-" for bl, s in levels) or leaf[1] == "-" or len(leaf[0]) > 1:
        res.nontriv(("hier", tuple(levels), leaf))
    leaf_seq = F.splice(texts[d], M.P(leaf[0], leaf[1]), leaf[1])
    o = lib.outcome(lambda: str(L.extract_sequence()))
    res.trans()
    if o[0] != "ok" or o[1] != leaf_seq:
        res.deviation("extract_sequence", dict(op="leaf-extract", **case), o[1], leaf_seq, sig="leaf-extract")
    for upto in range(d, -1, -1):
        expP, expS = compose(levels, leaf, upto)
        for how in ("type", "sequence"):
            if how == "type":
                o = lib.outcome(L.lift_over_to_first_ancestor_of_type, f"t{upto}")
            else:
                target = Sequence(texts[upto], ALPHA, id=f"L{upto}", type=f"t{upto}")
                # the ancestor's own Sequence object (equality includes its parent) is what a user passes:
                p = L.parent
                for _ in range(d - upto):
                    p = p.parent
                target = p.sequence
                o = lib.outcome(L.lift_over_to_sequence, target)
            res.trans()
            c = dict(op=f"lift-{how}", upto=upto, **case)
            if how == "sequence" and len(M.runs(M.S(leaf[0]))) != 1 or (how == "sequence" and len(leaf[0]) > 1 and any(leaf[0][i][1] != leaf[0][i + 1][0] for i in range(len(leaf[0]) - 1))):
                res.note("lift-sequence", "noncontiguous")
                if o[0] == "ok" or not isinstance(o[2], ValueError):
                    res.deviation("lift_over_to_sequence", c, o[1], "ValueError", sig="lift-seq-noncontiguous")
                continue
            res.note(f"lift-{how}", f"up{d - upto}")
            if o[0] != "ok":
                inter = [len(M.runs(compose(levels, leaf, j)[0])) > 1 for j in range(upto, d)]
                res.deviation(f"lift-{how}", c, o[1], expP, sig=f"lift-{how}-raises", intermediate_noncontiguous=any(inter))
                continue
            R = o[1]
            got = M.P(lib.loc_blocks(R), lib.loc_strand(R))
            if got != expP or lib.loc_strand(R) != expS:
                res.deviation(f"lift-{how}", c, [got, lib.loc_strand(R)], [expP, expS], sig=f"lift-{how}-positions")
                continue
            if R.parent is None or R.parent.id != f"L{upto}" or R.parent.sequence_type != f"t{upto}":
                res.deviation(f"lift-{how}", c, lib.parent_chain(R.parent), f"parent L{upto}", sig=f"lift-{how}-parent")
                continue
            o2 = lib.outcome(lambda: str(R.extract_sequence()))
            res.trans()
            if o2[0] != "ok" or o2[1] != leaf_seq:
                res.deviation(f"lift-{how}", c, o2[1], leaf_seq, sig=f"lift-{how}-sequence")
            probs = lib.check_wellformed(R)
            if probs:
                res.deviation(f"lift-{how}", c, probs, "well-formed", sig=f"lift-{how}-illformed")
        # ancestor predicates
        o = lib.outcome(lambda: (L.has_ancestor_of_type(f"t{upto}"), L.first_ancestor_of_type(f"t{upto}").id))
        res.trans()
        if o[0] != "ok" or o[1] != (True, f"L{upto}"):
            res.deviation("first_ancestor_of_type", dict(op="ancestor", upto=upto, **case), o[1], (True, f"L{upto}"), sig="ancestor")
    # one-step lift through Parent.lift_child_location_to_parent
    if d >= 1:
        expP, expS = compose(levels, leaf, d - 1)
        o = lib.outcome(L.parent.lift_child_location_to_parent)
        res.trans()
        if o[0] != "ok" or M.P(lib.loc_blocks(o[1]), lib.loc_strand(o[1])) != expP or lib.loc_strand(o[1]) != expS:
            res.deviation("lift_child_location_to_parent", dict(op="lift-child", **case), lib.canon_loc(o[1]) if o[0] == "ok" else o[1], [expP, expS], sig="lift-child")
    # refusals
    o = lib.outcome(L.lift_over_to_first_ancestor_of_type, "absent")
    res.trans()
    if o[0] == "ok" or not isinstance(o[2], NoSuchAncestorException):
        res.deviation("lift_over_to_first_ancestor_of_type", dict(op="lift-absent-type", **case), o[1], "NoSuchAncestorException", sig="lift-absent-type")
    o = lib.outcome(L.has_ancestor_of_type, "absent")
    res.trans()
    if o[0] != "ok" or o[1] is not False:
        res.deviation("has_ancestor_of_type", dict(op="has-absent", **case), o[1], False, sig="has-absent")
    if len(leaf[0]) == 1:
        foreign = Sequence("ACGTACGTAC", ALPHA, id="foreign")
        o = lib.outcome(L.lift_over_to_sequence, foreign)
        res.trans()
        if o[0] == "ok" or not isinstance(o[2], NoSuchAncestorException):
            res.deviation("lift_over_to_sequence", dict(op="lift-foreign-seq", **case), o[1], "NoSuchAncestorException", sig="lift-foreign-seq")


def enum_hier(N0, D, kl):
    """yield (levels, leaf) for all depths 0..D-1 of nesting below the chromosome (depth d = number of placed levels)"""
    def rec(levels, n_prev, depth_left):
        # leaf on the current deepest level
        for leaf in level_specs(n_prev, kl):
            yield tuple(levels), leaf
        if depth_left > 0:
            for bl, s in level_specs(n_prev, kl):
                ln = sum(e - b for b, e in bl)
                yield from rec(levels + [(bl, s)], ln, depth_left - 1)

    yield from rec([], N0, D - 1)


def check_chunk(res, N, bl, strand, a, b, cstrand):
    G = (LETTERS * 2)[:N]
    chunk_text = F.splice(G, M.P(((a, b),), cstrand), cstrand)
    from inscripta.biocantor.io.parser import seq_chunk_to_parent

    par = seq_chunk_to_parent(chunk_text, "chrV", a, b, strand=lib.STRAND[cstrand], alphabet=ALPHA)
    L = lib.mk_loc(bl, strand)
    case = dict(kind="chunk", N=N, blocks=[list(x) for x in bl], strand=strand, a=a, b=b, cstrand=cstrand)
    res.state(("chunk", bl, strand, a, b, cstrand))
    inside = [p for p in M.P(bl, strand) if a <= p < b]
    o = lib.outcome(AbstractInterval.liftover_location_to_seq_chunk_parent, L, par)
    res.trans()
    if any(s < a < e or s < b < e for s, e in bl):
        res.nontriv(("chunk", bl, strand, a, b, cstrand))
    if not inside:
        res.note("chunk", "no-overlap")
        if o[0] == "ok":
            if len(o[1]) != 0:
                res.deviation("liftover_location_to_seq_chunk_parent", case, lib.canon_loc(o[1]), "empty", sig="chunk-not-empty")
        elif not isinstance(o[2], (LocationOverlapException,)):
            res.deviation("liftover_location_to_seq_chunk_parent", case, o[1], "EmptyLocation", sig="chunk-raises")
        return
    res.note("chunk", "overlap")
    if o[0] != "ok":
        res.deviation("liftover_location_to_seq_chunk_parent", case, o[1], inside, sig="chunk-raises")
        return
    R = o[1]
    # chunk-relative coordinates: chunk position q <-> chromosome position P(chunk)[q]
    Pc = M.P(((a, b),), cstrand)
    rb = lib.loc_blocks(R)
    if any(s < 0 or e > (b - a) for s, e in rb):
        res.deviation("liftover_location_to_seq_chunk_parent", case, rb, "inside chunk", sig="chunk-out-of-range")
        return
    got_chrom = [Pc[q] for q in M.P(rb, lib.loc_strand(R))]
    if got_chrom != inside or lib.loc_strand(R) != M.strand_rel(strand, cstrand):
        res.deviation("liftover_location_to_seq_chunk_parent", case, [got_chrom, lib.loc_strand(R)], [inside, M.strand_rel(strand, cstrand)], sig="chunk-positions")
        return
    o2 = lib.outcome(R.lift_over_to_first_ancestor_of_type, "chromosome")
    res.trans()
    if o2[0] != "ok" or M.P(lib.loc_blocks(o2[1]), lib.loc_strand(o2[1])) != inside or lib.loc_strand(o2[1]) != strand or o2[1].parent.id != "chrV":
        res.deviation("chunk->chromosome", case, lib.canon_loc(o2[1]) if o2[0] == "ok" else o2[1], [inside, strand], sig="chunk-roundtrip")
    o3 = lib.outcome(lambda: str(R.extract_sequence()))
    res.trans()
    e = F.splice(G, inside, strand)
    if o3[0] != "ok" or o3[1] != e:
        res.deviation("chunk extract_sequence", case, o3[1], e, sig="chunk-sequence")
    # lifting an already chunk-relative location onto another chunk goes through the chromosome
    o4 = lib.outcome(AbstractInterval.liftover_location_to_seq_chunk_parent, R, par)
    res.trans()
    if o4[0] != "ok" or M.P(lib.loc_blocks(o4[1]), lib.loc_strand(o4[1])) != M.P(rb, lib.loc_strand(R)) or lib.loc_strand(o4[1]) != lib.loc_strand(R):
        res.deviation("chunk->chunk", case, lib.canon_loc(o4[1]) if o4[0] == "ok" else o4[1], lib.canon_loc(R), sig="chunk-relift")


def run_shard(shard):
    res = ShardResult()
    w = WORLD[shard["tier"]]
    if shard["part"] == "hier":
        for idx, (levels, leaf) in enumerate(enum_hier(w["N0"], w["D"], w["kl"])):
            if idx % NSH != shard["i"]:
                continue
            check_hier(res, w["N0"], levels, leaf)
        res.sample({"levels": [[[[1, 3], [4, 5]], "-"]], "leaf": [[[0, 2]], "+"], "composed": compose([(((1, 3), (4, 5)), "-")], (((0, 2),), "+"), 0)})
    else:
        N = w["Nc"]
        idx = 0
        for bl in worlds.layouts(N, 3, "disjoint"):
            for strand in "+-":
                idx += 1
                if idx % 16 != shard["i"]:
                    continue
                for a, b in worlds.windows(N):
                    for cs in "+-":
                        check_chunk(res, N, bl, strand, a, b, cs)
        res.sample({"chunk": [2, 6], "location": [[1, 3], [5, 7]], "expected_inside": [2, 5]})
    return res


def replay(case):
    res = ShardResult()
    if case["kind"] == "hier":
        levels = tuple((tuple(tuple(b) for b in bl), s) for bl, s in case["levels"])
        leaf = (tuple(tuple(b) for b in case["leaf"][0]), case["leaf"][1])
        check_hier(res, case["N0"], list(levels), leaf)
    else:
        check_chunk(res, case["N"], tuple(tuple(b) for b in case["blocks"]), case["strand"], case["a"], case["b"], case["cstrand"])
    devs = [d for d in res.deviations if d["case"].get("op") == case.get("op") and d["case"].get("upto") == case.get("upto")]
    return devs or res.deviations


def _m_lift_seq_noncontig(d):
    """lift_over_to_sequence re-checks contiguity at every level of the recursion: a contiguous location whose image
    on an intermediate level is split (multi-block placement) is refused with ValueError although the ancestor exists"""
    return d["sig"] == "lift-sequence-raises" and d["observed"] == "ValueError" and d.get("intermediate_noncontiguous") is True


MATCHERS = {"c04_lift_seq_noncontig": _m_lift_seq_noncontig}
