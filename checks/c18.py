"""C18 - identifier/qualifier extraction is order-independent and priority-respecting."""
import copy
import itertools

from vlib import lib
from vlib.runner import ShardResult

from inscripta.biocantor.io.features import extract_feature_name_id, extract_feature_types, merge_qualifiers

PROPERTY = "C18"
TITLE = "Identifier/qualifier extraction is order-independent and priority-respecting"
RULE = (
    "every subset (quick: <=4 keys, thorough: all 9) of the 7 name keys and 2 id keys in EVERY insertion order, each "
    "in 3 case spellings, with and without look-alike keys and a note; all ordered subsets (<=3) of a type-key menu; "
    "all pairs of small qualifier dictionaries for merging; GenBank half: all permutations of the feature rows of "
    "locus-tag-complete records (see part 'genbank'). Non-trivial = >=2 recognised keys present (order can matter)."
)
ASSUMPTIONS = [
    "documented priorities: FeatureIntervalNameQualifiers / FeatureIntervalIDQualifiers enum order as written in the "
    "docstrings (feature_name < standard_name < name < gene < gene_name < label < operon; feature_id < id)",
]

NAME_RANK = {"feature_name": 0, "standard_name": 10, "name": 15, "gene": 20, "gene_name": 30, "label": 40, "operon": 50}
ID_RANK = {"feature_id": 0, "id": 255}
KEYS = list(NAME_RANK) + list(ID_RANK)
LOOKALIKE = ["names", "gene_names", "xid", "feature_ids", "a_name", "nam", "ids", "feature-name", "gene\n", "ID\n", " label", "operon "]
NSH = 16


def world_description(tier):
    k = 4 if tier == "quick" else 9
    return f"ordered subsets of <= {k} of 9 recognised keys x 3 spellings x 4 decorations; type-key menu; merge pairs; genbank permutations"


def shards(tier, seed):
    out = [{"tier": tier, "part": "nameid", "i": i} for i in range(NSH)]
    out += [{"tier": tier, "part": "types", "i": 0}, {"tier": tier, "part": "merge", "i": 0}]
    out += [{"tier": tier, "part": "filter", "i": 0}, {"tier": tier, "part": "gff3", "i": 0}]
    try:
        from checks import c18_genbank  # noqa

        out += c18_genbank.shards(tier)
    except ImportError:
        pass
    return out


def spell(key, how):
    if how == 0:
        return key
    if how == 1:
        return key.upper()
    return key.title()


def expected_name_id(d):
    """d: ordered list of (key, values)"""
    name = None
    nrank = None
    fid = None
    irank = None
    for k, v in d:
        lk = k.lower()
        if lk in NAME_RANK and (nrank is None or NAME_RANK[lk] < nrank):
            name, nrank = v[0], NAME_RANK[lk]
        elif lk in ID_RANK and (irank is None or ID_RANK[lk] < irank):
            fid, irank = v[0], ID_RANK[lk]
    return name, fid


def check_nameid(res, ordered, how, deco):
    items = [(spell(k, how), [f"V_{k}", f"zz_{k}"]) for k in ordered]
    if deco == 1:
        items = [(k, ["L_" + k]) for k in LOOKALIKE[:4]] + items + [(k, ["L_" + k]) for k in LOOKALIKE[4:]]
    elif deco == 2:
        items = [("note", ["noteword; rest"])] + items
    elif deco == 3:
        items = items + [("note", ["noteword; rest"])]
    d = dict(items)
    snapshot = copy.deepcopy(d)
    o = lib.outcome(extract_feature_name_id, d)
    res.trans()
    exp = expected_name_id(items)
    has_any = any(k.lower() in NAME_RANK or k.lower() in ID_RANK for k, _ in items)
    if not has_any and deco in (2, 3):
        exp = ("noteword", "noteword")
    case = {"kind": "nameid", "keys": list(ordered), "spell": how, "deco": deco}
    if len(ordered) >= 2:
        res.nontriv(("nameid", tuple(ordered), how, deco))
    res.note("nameid", f"n={len(ordered)}")
    if o[0] != "ok":
        res.deviation("extract_feature_name_id", case, o[1], list(exp), sig="nameid-raises")
    elif tuple(o[1]) != exp:
        which = "name" if o[1][0] != exp[0] else "id"
        res.deviation("extract_feature_name_id", case, list(o[1]), list(exp), sig=f"nameid-wrong-{which}",
                      first_key=ordered[0] if ordered else None)
    if d != snapshot:
        res.deviation("extract_feature_name_id", case, "input mutated", "input unchanged", sig="nameid-mutates")
    return o


GFF3_NAME_KEYS = {"standard_name": 10, "Name": 15, "gene": 20, "gene_name": 30, "label": 40, "operon": 50}


def run_gff3(res, tier):
    """the GFF3 reader's side of the rule: a non-gene feature (with and without a child row) whose column 9 carries an
    ordered subset of the name keys (rank-0 `feature_name` left to the nameid part and its known finding) is read with the
    name of the best-ranked key, whatever the order of the attributes - for the feature collection and for its interval"""
    import os
    import tempfile

    from inscripta.biocantor.io.gff3.parser import parse_standard_gff3

    kmax = 3 if tier == "quick" else 4
    for k in range(1, kmax + 1):
        for ordered in itertools.permutations(GFF3_NAME_KEYS, k):
            for with_child in (False, True):
                attrs = ";".join(f"{key}=V{key}" for key in ordered)
                text = "##gff-version 3\nchr1\tsrc\tpromoter\t11\t20\t.\t+\t.\tID=f1;" + attrs + "\n"
                if with_child:
                    text += "chr1\tsrc\tTF_binding_site\t12\t15\t.\t+\t.\tID=c1;Parent=f1;" + ";".join(f"{key}=C{key}" for key in ordered) + "\n"
                fd, path = tempfile.mkstemp(prefix="c18_", suffix=".gff3", dir=os.environ.get("TMPDIR") or None)
                try:
                    with os.fdopen(fd, "w") as fh:
                        fh.write(text)

                    def read():
                        recs = list(parse_standard_gff3(path))
                        d = recs[0].annotation.to_annotation_collection().to_dict()
                        fc = d["feature_collections"][0]
                        return fc["feature_collection_name"], [f["feature_name"] for f in fc["feature_intervals"]], [f["feature_id"] for f in fc["feature_intervals"]]

                    o = lib.outcome(read)
                finally:
                    os.unlink(path)
                res.trans()
                best = min(ordered, key=lambda key: GFF3_NAME_KEYS[key])
                exp = ("V" + best, ["C" + best] if with_child else ["V" + best], ["c1"] if with_child else ["f1"])
                case = {"kind": "gff3", "keys": list(ordered), "with_child": with_child}
                res.state(("gff3", ordered, with_child))
                if k >= 2:
                    res.nontriv(("gff3", ordered, with_child))
                res.note("gff3", f"n={k}")
                if o[0] != "ok":
                    res.deviation("parse_standard_gff3", case, o[1], list(exp), sig="gff3-raises")
                elif tuple(o[1]) != exp:
                    res.deviation("parse_standard_gff3", case, list(o[1]), list(exp), sig="gff3-name-id")


def run_shard(shard):
    res = ShardResult()
    tier, part = shard["tier"], shard["part"]
    if part == "gff3":
        run_gff3(res, tier)
        return res
    if part == "nameid":
        kmax = 4 if tier == "quick" else 9
        idx = 0
        for k in range(0, kmax + 1):
            for ordered in itertools.permutations(KEYS, k):
                idx += 1
                if idx % NSH != shard["i"]:
                    continue
                res.state(("qual", ordered))
                decos = (0, 1, 2, 3) if k <= 4 else (0,)
                hows = (0, 1, 2) if k <= 5 else (0,)
                for how in hows:
                    for deco in decos:
                        check_nameid(res, ordered, how, deco)
        res.sample({"qualifiers": {"gene": ["V_gene", "zz_gene"], "feature_name": ["V_feature_name"]}, "expected_name": "V_feature_name"})
    elif part == "types":
        menu = ["gbkey", "GBKEY", "ncRNA_class", "regulatory_class", "feature_type", "mobile_element_type", "Type", "class", "note", "gene", "my_Type_x"]
        idents = ("_class", "gbkey", "_type")
        for k in range(0, 4):
            for ordered in itertools.permutations(menu, k):
                d = {key: [f"t_{key}", f"u_{key}"] for key in ordered}
                for init in (set(), {"primary"}):
                    ft = set(init)
                    snap = copy.deepcopy(d)
                    o = lib.outcome(extract_feature_types, ft, d)
                    res.trans()
                    exp = set(init)
                    for key in ordered:
                        if any(i in key.lower() for i in idents):
                            exp.update(d[key])
                    case = {"kind": "types", "keys": list(ordered), "init": sorted(init)}
                    res.state(("types", ordered))
                    if k >= 2:
                        res.nontriv(("types", ordered, tuple(sorted(init))))
                    res.note("types", f"{len(exp)}")
                    if o[0] != "ok" or ft != exp:
                        res.deviation("extract_feature_types", case, sorted(ft) if o[0] == "ok" else o[1], sorted(exp), sig="types-wrong")
                    if d != snap:
                        res.deviation("extract_feature_types", case, "input mutated", "unchanged", sig="types-mutates")
        res.sample({"qualifiers": {"gbkey": ["t"], "gene": ["g"]}, "expected_types": ["t"]})
    elif part == "merge":
        vals = ["x", "y", "z"]
        vlists = [list(p) for n in range(0, 3) for p in itertools.permutations(vals, n)]
        dicts = []
        for ka in [None] + vlists:
            for kb in [None] + vlists[:5]:
                d = {}
                if ka is not None:
                    d["a"] = ka
                if kb is not None:
                    d[1] = kb  # hashable non-string key
                dicts.append(d)
        for d1 in dicts:
            for d2 in dicts:
                a, b = copy.deepcopy(d1), copy.deepcopy(d2)
                o = lib.outcome(merge_qualifiers, a, b)
                res.trans()
                exp = {}
                for src in (d1, d2):
                    for k, v in src.items():
                        exp.setdefault(k, set()).update(v)
                exp = {k: sorted(v) for k, v in exp.items()}
                case = {"kind": "merge", "d1": {str(k): v for k, v in d1.items()}, "d2": {str(k): v for k, v in d2.items()}}
                res.state(("merge", repr(d1), repr(d2)))
                if d1 and d2:
                    res.nontriv(("merge", repr(d1), repr(d2)))
                res.note("merge", f"{len(exp)}")
                if o[0] != "ok" or o[1] != exp or any(v != sorted(v) for v in o[1].values()):
                    res.deviation("merge_qualifiers", case, o[1], {str(k): v for k, v in exp.items()}, sig="merge-wrong")
                if a != d1 or b != d2:
                    res.deviation("merge_qualifiers", case, "input mutated", "unchanged", sig="merge-mutates")
        res.sample({"d1": {"a": ["y", "x"]}, "d2": {"a": ["z"]}, "expected": {"a": ["x", "y", "z"]}})
    elif part == "filter":
        from inscripta.biocantor.io.gff3.parser import filter_and_sort_qualifiers

        reserved = ["Name", "Parent", "ID", "transcript_id", "transcript_name", "transcript_biotype", "protein_id", "product", "gene_id", "gene_name", "gene_biotype", "feature_id", "feature_name", "feature_collection_name", "feature_collection_id", "feature_collection_type", "feature_type", "locus_tag"]
        # (look-alikes of reserved keys are ordinary keys: other letter case, a reserved word as prefix / suffix)
        free = ["note", "color", "zeta", "Alpha", "db_xref", "Product", "LOCUS_TAG", "Gene_ID", "PARENT", "Id", "my_id", "product2"]
        for k in range(0, 4):
            for ordered in itertools.permutations(reserved[:8] + free, k):
                d = {key: ["b", "a", "c"][: 1 + (len(key) % 3)] for key in ordered}
                snap = copy.deepcopy(d)
                o = lib.outcome(filter_and_sort_qualifiers, d)
                res.trans()
                case = {"kind": "filter", "keys": list(ordered)}
                res.state(("filter", ordered))
                expk = {key for key in ordered if key in free}
                if k >= 2:
                    res.nontriv(("filter", ordered))
                if o[0] != "ok":
                    res.deviation("filter_and_sort_qualifiers", case, o[1], sorted(expk), sig="filter-raises")
                    continue
                got = o[1]
                if not expk:
                    if got not in (None, {}):
                        res.deviation("filter_and_sort_qualifiers", case, got, None, sig="filter-not-empty")
                elif got is None or set(got) != expk or any(got[key] != sorted(d[key]) for key in expk):
                    res.deviation("filter_and_sort_qualifiers", case, got, {key: sorted(d[key]) for key in sorted(expk)}, sig="filter-wrong")
                if d != snap:
                    res.deviation("filter_and_sort_qualifiers", case, "input mutated", "unchanged", sig="filter-mutates")
        res.sample({"qualifiers": {"ID": ["x"], "note": ["b", "a"]}, "expected": {"note": ["a", "b"]}})
    elif part == "genbank":
        from checks import c18_genbank

        c18_genbank.run(res, shard)
    return res


def replay(case):
    res = ShardResult()
    k = case["kind"]
    if k == "nameid":
        check_nameid(res, tuple(case["keys"]), case["spell"], case["deco"])
        return res.deviations
    if k in ("genbank", "genbank-dup", "genbank-fctypes"):
        from checks import c18_genbank

        c18_genbank.replay(res, case)
        return res.deviations
    r = run_shard({"tier": "thorough" if k == "gff3" else "quick", "part": {"types": "types", "merge": "merge", "filter": "filter", "gff3": "gff3"}[k], "i": 0})
    return [d for d in r.deviations if d["case"] == case] or r.deviations


def _m_rank0(d):
    """`if not feature_key or ...` treats the rank-0 key as unset: the next recognised key of the family always
    overwrites feature_name / feature_id.  The matcher accepts exactly the answer of that algorithm (and only on
    inputs where the rank-0 key is followed by another key of its family), nothing else."""
    if d["sig"] not in ("nameid-wrong-name", "nameid-wrong-id"):
        return False
    keys = [k.lower() for k in d["case"]["keys"]]
    out = []
    for fam in (NAME_RANK, ID_RANK):
        val, rank = None, None
        for k in keys:
            if k in fam and (not rank or fam[k] < rank):
                val, rank = f"V_{k}", fam[k]
        out.append(val)
    top_followed = False
    for fam, top in ((NAME_RANK, "feature_name"), (ID_RANK, "feature_id")):
        fk = [k for k in keys if k in fam]
        if top in fk and fk[-1] != top:
            top_followed = True
    return top_followed and list(d["observed"]) == out


MATCHERS = {"c18_rank0": _m_rank0}
