"""Adapters between JSON-able specs and library objects (the implementation under exploration)."""
from inscripta.biocantor.location.location_impl import SingleInterval, CompoundInterval, EmptyLocation, _EmptyLocation
from inscripta.biocantor.location.strand import Strand
from inscripta.biocantor.parent import Parent
from inscripta.biocantor.sequence import Sequence
from inscripta.biocantor.sequence.alphabet import Alphabet
from inscripta.biocantor import exc as bexc

STRAND = {"+": Strand.PLUS, "-": Strand.MINUS, ".": Strand.UNSTRANDED}
SYM = {Strand.PLUS: "+", Strand.MINUS: "-", Strand.UNSTRANDED: "."}


def mk_loc(blocks, strand, parent=None, force_compound=False):
    """Build a location the way users do: one block -> SingleInterval, more -> CompoundInterval."""
    st = STRAND[strand] if isinstance(strand, str) else strand
    if len(blocks) == 1 and not force_compound:
        return SingleInterval(blocks[0][0], blocks[0][1], st, parent=parent)
    return CompoundInterval([b[0] for b in blocks], [b[1] for b in blocks], st, parent=parent)


def seq_parent(text, alphabet=Alphabet.NT_EXTENDED_GAPPED, pid="chrV", stype="chromosome"):
    return Parent(id=pid, sequence_type=stype, sequence=Sequence(text, alphabet, id=pid, type=stype))


def loc_blocks(loc):
    """block tuples in the library's own order"""
    if type(loc) is _EmptyLocation:
        return ()
    return tuple((b.start, b.end) for b in loc.blocks)


def loc_strand(loc):
    if type(loc) is _EmptyLocation:
        return None
    return SYM[loc.strand]


def parent_chain(p):
    out = []
    seen = 0
    while p is not None and seen < 10:
        out.append((p.id, str(p.sequence_type) if p.sequence_type is not None else None, None if p.sequence is None else str(p.sequence)))
        p = p.parent
        seen += 1
    return tuple(out)


def canon_loc(loc):
    """canonical, hashable, JSON-able form keeping what the properties observe"""
    if loc is None:
        return None
    if type(loc) is _EmptyLocation:
        return ("Empty",)
    return (type(loc).__name__, loc_blocks(loc), loc_strand(loc), parent_chain(loc.parent))


def outcome(fn, *a, **kw):
    """Run fn; return ('ok', value) or ('exc', ExceptionClassName, exc)"""
    try:
        return ("ok", fn(*a, **kw))
    except Exception as e:  # noqa
        return ("exc", type(e).__name__, e)


def is_documented_exc(e):
    return isinstance(e, (bexc.BioCantorException, ValueError, TypeError, NotImplementedError))


def check_wellformed(loc, parent_len=None):
    """C02 structural invariants of a returned location; returns list of problems (empty = fine)."""
    probs = []
    if type(loc) is _EmptyLocation:
        if len(loc) != 0 or loc.blocks != [] or not loc.is_empty:
            probs.append("empty-location-not-empty")
        return probs
    bl = loc_blocks(loc)
    if not bl:
        probs.append("no-blocks")
        return probs
    if any(not (0 <= s <= e) for s, e in bl):
        probs.append(f"bad-block-coords {bl}")
    if list(bl) != sorted(bl, key=lambda b: b[0]):
        probs.append(f"blocks-not-sorted {bl}")
    if len(loc) != sum(e - s for s, e in bl):
        probs.append(f"len {len(loc)} != sum of blocks {bl}")
    nested = any(bl[i][1] > bl[i + 1][1] for i in range(len(bl) - 1))
    if loc.start != min(s for s, e in bl) or (not nested and loc.end != max(e for s, e in bl)):
        # (for nested overlapping blocks the library reports the end of the last block; no property speaks of it)
        probs.append(f"start/end {loc.start},{loc.end} != span of {bl}")
    if type(loc) is SingleInterval and len(bl) != 1:
        probs.append("single-with-many-blocks")
    # every block is a view of the same location: same strand, same parent
    for b in loc.blocks:
        if b.strand is not loc.strand:
            probs.append(f"block strand {b.strand} != location strand {loc.strand}")
            break
        if (b.parent is None) != (loc.parent is None) or (b.parent is not None and b.parent.id != loc.parent.id):
            probs.append("block parent != location parent")
            break
    if loc.parent is not None and loc.parent.sequence is not None:
        if loc.end > len(loc.parent.sequence):
            probs.append("beyond-parent-sequence")
    if parent_len is not None and loc.end > parent_len:
        probs.append("beyond-parent-len")
    if loc.parent is not None and loc.parent.location is not None:
        pl = loc.parent.location
        if loc_blocks(pl) != bl or pl.strand is not loc.strand:
            probs.append("parent.location != self")
    return probs


def is_normalised(loc):
    """no empty blocks, no mergeable-adjacent blocks; single block => SingleInterval; empty => EmptyLocation"""
    if type(loc) is _EmptyLocation:
        return True
    bl = loc_blocks(loc)
    if any(s == e for s, e in bl):
        return False
    if any(bl[i][1] == bl[i + 1][0] for i in range(len(bl) - 1)):
        return False
    if len(bl) == 1 and type(loc) is not SingleInterval:
        return False
    return True


# ---- gene-level builders --------------------------------------------------------------------------------
def chrom_parent(genome, name="chrV", alphabet=Alphabet.NT_EXTENDED_GAPPED):
    from inscripta.biocantor.io.parser import seq_to_parent

    return seq_to_parent(genome, alphabet=alphabet, seq_id=name)


def chunk_parent(genome, a, b, name="chrV", alphabet=Alphabet.NT_EXTENDED_GAPPED):
    from inscripta.biocantor.io.parser import seq_chunk_to_parent

    return seq_chunk_to_parent(genome[a:b], name, a, b, alphabet=alphabet)


def frames_enum(fr):
    from inscripta.biocantor.gene.cds_frame import CDSFrame

    return [CDSFrame(f) for f in fr]


def listing(xs, order):
    """the order in which parallel constructor lists are handed over: None = ascending, "rev" = descending,
    an int r = rotated by r places (neither ascending nor descending for >= 3 entries)"""
    xs = list(xs)
    if order is None or len(xs) < 2:
        return xs
    if order == "rev":
        return xs[::-1]
    r = order % len(xs)
    return xs[r:] + xs[:r]


def mk_tx(exons, strand, cds=None, frames=None, parent=None, order=None, **kw):
    from inscripta.biocantor.gene.transcript import TranscriptInterval

    ex = listing(sorted(exons), order)
    args = dict(
        exon_starts=[b[0] for b in ex],
        exon_ends=[b[1] for b in ex],
        strand=STRAND[strand],
        parent_or_seq_chunk_parent=parent,
    )
    if cds is not None:
        cb = listing(sorted(cds), order)
        args.update(cds_starts=[b[0] for b in cb], cds_ends=[b[1] for b in cb], cds_frames=listing(frames_enum(frames), order))
    args.update(kw)
    return TranscriptInterval(**args)


def mk_feat(blocks, strand, parent=None, order=None, **kw):
    from inscripta.biocantor.gene.feature import FeatureInterval

    bl = listing(sorted(blocks), order)
    return FeatureInterval([b[0] for b in bl], [b[1] for b in bl], STRAND[strand], parent_or_seq_chunk_parent=parent, **kw)


def mk_cds(blocks, strand, frames, parent=None, **kw):
    from inscripta.biocantor.gene.cds import CDSInterval

    bl = sorted(blocks)
    return CDSInterval([b[0] for b in bl], [b[1] for b in bl], STRAND[strand], frames_enum(frames), parent_or_seq_chunk_parent=parent, **kw)
