"""Process bootstrap for every check (DESIGN section 2).

* puts the tree named by VERIF_REPO (default /repo) first on sys.path and asserts that
  ``inscripta.biocantor`` is imported from it (rebuild-from-working-tree contract: pure Python, so
  "rebuild" == import from source with no stale byte code);
* byte code is neither read from nor written under the repo (PYTHONPYCACHEPREFIX points to a private
  scratch dir which is removed at exit);
* installs the compatibility layer before the first ``inscripta`` import;
* pins determinism: PYTHONHASHSEED must be set by the launcher (./check re-execs with 0).
"""
import atexit
import os
import shutil
import sys
import tempfile
import warnings

GUARD = "BIOCANTOR_VERIF"
VERIF_ROOT = os.path.dirname(os.path.dirname(os.path.abspath(__file__)))
_DONE = False
REPO = None


def repo_path():
    return os.path.abspath(os.environ.get("VERIF_REPO", "/repo"))


def setup():
    global _DONE, REPO
    if _DONE:
        return REPO
    REPO = repo_path()
    os.environ.setdefault(GUARD, "1")
    sys.dont_write_bytecode = True
    if not os.environ.get("VERIF_PYCACHE"):
        d = tempfile.mkdtemp(prefix="verif_pyc_")
        os.environ["VERIF_PYCACHE"] = d
        os.environ["VERIF_PYCACHE_OWNER"] = str(os.getpid())
        atexit.register(_cleanup, d, os.getpid())
    sys.pycache_prefix = os.environ["VERIF_PYCACHE"]
    # drop any other copy of the repo from the path, then put ours first
    sys.path[:] = [p for p in sys.path if os.path.abspath(p or ".") != REPO]
    sys.path.insert(0, REPO)
    if VERIF_ROOT not in sys.path:
        sys.path.insert(1, VERIF_ROOT)
    for m in list(sys.modules):
        if m == "inscripta" or m.startswith("inscripta."):
            raise RuntimeError("inscripta imported before bootstrap.setup()")
    from vlib import compat

    compat.install()
    with warnings.catch_warnings():
        warnings.simplefilter("ignore")
        import inscripta.biocantor as bc
    f = os.path.abspath(bc.__file__)
    if not f.startswith(REPO + os.sep):
        raise RuntimeError(f"inscripta.biocantor imported from {f}, not from {REPO}")
    _DONE = True
    return REPO


def _cleanup(d, pid):
    if os.getpid() == pid:
        shutil.rmtree(d, ignore_errors=True)


def clear_global_caches():
    """Reset the process-wide memo tables of the library (used at shard boundaries)."""
    from inscripta.biocantor.parent import parent as pm

    pm.Parent.cache_clear()
    pm._unique_value_or_none.cache_clear()
