"""Small-world enumerators (DESIGN section 4).  Everything here enumerates; nothing samples."""
import itertools


def layouts(N, k, mode="disjoint"):
    """All block lists with 1..k blocks over [0, N].

    mode 'disjoint': non-empty blocks, ascending, gaps >= 0 (adjacent allowed)
    mode 'empty'   : like disjoint but zero-length blocks allowed anywhere (at least one zero-length block)
    mode 'overlap' : any multiset of <= k intervals (length >= 0) with at least one strictly overlapping or
                     equal-start pair, i.e. not covered by the two other modes
    Returned blocks are ascending by (start, end).
    """
    if mode == "disjoint":
        for nb in range(1, k + 1):
            # choose 2*nb cut points s1<e1<=s2<e2...
            yield from _disjoint(N, nb, 0, ())
    elif mode == "empty":
        for nb in range(1, k + 1):
            for bl in _nondecr(N, nb, 0, ()):
                if any(s == e for s, e in bl):
                    yield bl
    elif mode == "overlap":
        ivs = [(s, e) for s in range(N + 1) for e in range(s, N + 1)]
        for nb in range(2, k + 1):
            for bl in itertools.combinations_with_replacement(ivs, nb):
                bl = tuple(sorted(bl))
                if any(bl[i][1] > bl[i + 1][0] or bl[i][0] == bl[i + 1][0] for i in range(nb - 1)):
                    # exclude those that are merely 'empty'-mode layouts (non-decreasing ends, no real overlap)
                    if all(bl[i][1] <= bl[i + 1][0] for i in range(nb - 1)):
                        continue
                    yield bl
    else:
        raise ValueError(mode)


def _disjoint(N, nb, lo, acc):
    if nb == 0:
        yield acc
        return
    for s in range(lo, N):
        for e in range(s + 1, N + 1):
            # need room for remaining nb-1 blocks of length >= 1
            if N - e < nb - 1:
                break
            yield from _disjoint(N, nb - 1, e, acc + ((s, e),))


def _nondecr(N, nb, lo, acc):
    """blocks with start<=end, each start >= previous end (zero-length allowed)"""
    if nb == 0:
        yield acc
        return
    for s in range(lo, N + 1):
        for e in range(s, N + 1):
            yield from _nondecr(N, nb - 1, e, acc + ((s, e),))


def designed_genome(N, alphabet_letters, rotation=0):
    """position i carries the (i+rotation)-th symbol of the alphabet (cyclic)"""
    L = len(alphabet_letters)
    return "".join(alphabet_letters[(i + rotation) % L] for i in range(N))


def windows(N):
    """all [a,b) with 0 <= a < b <= N"""
    for a in range(N):
        for b in range(a + 1, N + 1):
            yield a, b


def chunked(seq, n):
    seq = list(seq)
    return [seq[i::n] for i in range(n)]
