"""Small-world enumerators (DESIGN section 4).  Everything here enumerates; nothing samples."""
import itertools


def layouts(N, k, mode="disjoint"):
    """All block lists with 1..k blocks over [0, N].

    mode 'disjoint': non-empty blocks, ascending, gaps >= 0 (adjacent allowed)
    mode 'empty'   : like disjoint but zero-length blocks allowed anywhere (at least one zero-length block)
    mode 'overlap' : any multiset of <= k intervals (length >= 0) with at least one strictly overlapping or
                     equal-start pair, i.e. not covered by the two other modes
    Returned blocks are ascending by (start, end).
    """
    if mode == "disjoint":
        for nb in range(1, k + 1):
            # choose 2*nb cut points s1<e1<=s2<e2...
            yield from _disjoint(N, nb, 0, ())
    elif mode == "empty":
        for nb in range(1, k + 1):
            for bl in _nondecr(N, nb, 0, ()):
                if any(s == e for s, e in bl):
                    yield bl
    elif mode == "overlap":
        ivs = [(s, e) for s in range(N + 1) for e in range(s, N + 1)]
        for nb in range(2, k + 1):
            for bl in itertools.combinations_with_replacement(ivs, nb):
                bl = tuple(sorted(bl))
                if any(bl[i][1] > bl[i + 1][0] or bl[i][0] == bl[i + 1][0] for i in range(nb - 1)):
                    # exclude those that are merely 'empty'-mode layouts (non-decreasing ends, no real overlap)
                    if all(bl[i][1] <= bl[i + 1][0] for i in range(nb - 1)):
                        continue
                    yield bl
    else:
        raise ValueError(mode)


def _disjoint(N, nb, lo, acc):
    if nb == 0:
        yield acc
        return
    for s in range(lo, N):
        for e in range(s + 1, N + 1):
            # need room for remaining nb-1 blocks of length >= 1
            if N - e < nb - 1:
                break
            yield from _disjoint(N, nb - 1, e, acc + ((s, e),))


def _nondecr(N, nb, lo, acc):
    """blocks with start<=end, each start >= previous end (zero-length allowed)"""
    if nb == 0:
        yield acc
        return
    for s in range(lo, N + 1):
        for e in range(s, N + 1):
            yield from _nondecr(N, nb - 1, e, acc + ((s, e),))


def designed_genome(N, alphabet_letters, rotation=0):
    """position i carries the (i+rotation)-th symbol of the alphabet (cyclic)"""
    L = len(alphabet_letters)
    return "".join(alphabet_letters[(i + rotation) % L] for i in range(N))


def windows(N):
    """all [a,b) with 0 <= a < b <= N"""
    for a in range(N):
        for b in range(a + 1, N + 1):
            yield a, b


def chunked(seq, n):
    seq = list(seq)
    return [seq[i::n] for i in range(n)]


# ---- scale family ----------------------------------------------------------------------------------------------
# The small worlds above bound the NUMBER of blocks (<= 3-4) and the coordinates (<= 16).  A change that misbehaves only
# beyond a size threshold (a fast path for "many blocks", a binary search over block starts, a short-cut for long
# locations) has no witness there.  The scale family is a fixed, finite, completely enumerated set of LARGER layouts:
# k blocks for every k of a ladder, block lengths and gap lengths cycling through short patterns in every phase.
SCALE_K = {"quick": (4, 5, 6, 8, 11, 16, 24), "thorough": (4, 5, 6, 7, 8, 9, 10, 11, 13, 16, 17, 24, 32, 33, 40, 64)}
SCALE_LEN_PATTERNS = ((1,), (2,), (1, 2, 3), (3, 1), (4, 2))
SCALE_GAP_PATTERNS = ((1,), (0, 1), (2, 0, 1), (5,), (3, 3, 0))


def scale_layouts(tier="quick", offset=0, ks=None, npat=None):
    """the scale family: yields (k, blocks) with blocks ascending, non-empty, gaps >= 0 (adjacent allowed)"""
    seen = set()
    for k in ks or SCALE_K[tier]:
        np_ = npat or (3 if tier == "quick" else 5)
        for lp in SCALE_LEN_PATTERNS[:np_]:
            for gp in SCALE_GAP_PATTERNS[:np_]:
                for ph in range(max(len(lp), len(gp))):
                    pos = offset
                    bl = []
                    for i in range(k):
                        ln = lp[(i + ph) % len(lp)]
                        bl.append((pos, pos + ln))
                        pos += ln + gp[(i + ph) % len(gp)]
                    bl = tuple(bl)
                    if bl not in seen:
                        seen.add(bl)
                        yield k, bl


def boundary_points(blocks, around=1):
    """relative coordinates at (and within `around` of) every block boundary of a layout, incl. 0 and len"""
    pts = set()
    acc = 0
    cum = [0]
    for s, e in blocks:
        acc += e - s
        cum.append(acc)
    for c in cum:
        for d in range(-around, around + 1):
            if 0 <= c + d <= acc:
                pts.add(c + d)
    return sorted(pts)


BIG_OFFSETS = (1000, 2**17 - 3, 2**20 + 1, 2**31 + 5, 2**40)
