import argparse
import importlib
import os
import sys

HERE = os.path.dirname(os.path.dirname(os.path.abspath(__file__)))
sys.path.insert(0, HERE)

from vlib import bootstrap  # noqa: E402


def main():
    ap = argparse.ArgumentParser()
    ap.add_argument("prop", nargs="?")
    ap.add_argument("--tier", default=os.environ.get("VERIF_TIER", "quick"), choices=["quick", "thorough"])
    ap.add_argument("--replay")
    ap.add_argument("--jobs", type=int)
    ap.add_argument("--quiet", action="store_true")
    ap.add_argument("--selftest", action="store_true")
    ap.add_argument("--no-confirm", action="store_true", help="do not re-execute deviations in a fresh process")
    a = ap.parse_args()
    bootstrap.setup()
    from vlib import runner

    if a.selftest:
        from selftest import run_selftest

        return run_selftest.main()
    if not a.prop:
        ap.error("property id required")
    mod = importlib.import_module(f"checks.{a.prop.lower()}")
    if a.replay:
        return runner.do_replay(mod, a.replay, quiet=a.quiet)
    try:
        seed = int(os.environ.get("VERIF_SEED", "0"))
    except ValueError:
        seed = 0
    return runner.run_check(mod, a.tier, seed, jobs=a.jobs, replay_confirm=not a.no_confirm)


if __name__ == "__main__":
    try:
        rc = main()
    except SystemExit:
        raise
    except BaseException as e:  # noqa  - a crash of the machinery is never a verdict about the library
        import traceback

        traceback.print_exc()
        print(f"HARNESS-ERROR {type(e).__name__}: {str(e)[:300]}")
        rc = 2
    sys.exit(rc)
