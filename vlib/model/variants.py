"""Edit model of variant haplotypes (DESIGN section 4).  Pure Python on strings/tuples; imports nothing from the library.

A *haplotype* is a reference string ``ref`` and a set of pairwise disjoint edits ``(start, end, alt)`` with
``0 <= start < end <= len(ref)``, all expressed in REFERENCE coordinates: ``ref[start:end]`` is replaced by ``alt``.

The alternative haplotype is represented as a list of *tokens*, one per alternative base:
``("r", p)``    the base is reference base ``p`` (p lies in no edit),
``("a", i, j)`` the base is base ``j`` of the alt string of edit ``i`` (edits numbered by ascending start).
Everything else (alternative sequence, position map, image of a location) is read off this list, so the model is the
definition itself ("literally substituting each variant's bases") rather than an arithmetic on shifts; the arithmetic
formulation (``image_blocks_arith``) exists only to be cross-checked against it in the self-test.
"""

COMP = {"A": "T", "C": "G", "G": "C", "T": "A", "N": "N", "a": "t", "c": "g", "g": "c", "t": "a", "n": "n"}


def revcomp(s):
    return "".join(COMP[c] for c in reversed(s))


def norm_edits(edits):
    """sorted tuple of (start, end, alt); raises ValueError when an edit is empty or two edits overlap"""
    ed = tuple(sorted((int(s), int(e), str(a)) for s, e, a in edits))
    for s, e, _ in ed:
        if not 0 <= s < e:
            raise ValueError(f"bad edit {s}-{e}")
    for i in range(len(ed) - 1):
        if ed[i][1] > ed[i + 1][0]:
            raise ValueError("overlapping edits")
    return ed


def apply_edits(ref, edits):
    """literal substitution, right-to-left so that every edit is applied at its own reference coordinates"""
    ed = norm_edits(edits)
    if ed and ed[-1][1] > len(ref):
        raise ValueError("edit beyond reference")
    out = ref
    for s, e, alt in reversed(ed):
        out = out[:s] + alt + out[e:]
    return out


def tokens(ref_len, edits):
    """token list of the alternative haplotype, left to right"""
    ed = norm_edits(edits)
    out = []
    p = 0
    for i, (s, e, alt) in enumerate(ed):
        out.extend(("r", q) for q in range(p, s))
        out.extend(("a", i, j) for j in range(len(alt)))
        p = e
    out.extend(("r", q) for q in range(p, ref_len))
    return out


def alt_from_tokens(ref, edits):
    ed = norm_edits(edits)
    return "".join(ref[t[1]] if t[0] == "r" else ed[t[1]][2][t[2]] for t in tokens(len(ref), ed))


def pos_map(ref_len, edits):
    """reference position -> alternative position for every reference base that lies in no edit"""
    return {t[1]: i for i, t in enumerate(tokens(ref_len, edits)) if t[0] == "r"}


def edit_class(block_list, edit):
    """'inside' (wholly inside one block), 'outside' (wholly outside all blocks) or 'partial'"""
    s, e = edit[0], edit[1]
    if any(bs <= s and e <= be for bs, be in block_list):
        return "inside"
    if all(e <= bs or s >= be for bs, be in block_list):
        return "outside"
    return "partial"


def admissible(block_list, edits):
    """the property's side condition: every variant wholly inside one block or wholly outside all blocks"""
    return all(edit_class(block_list, ed) != "partial" for ed in edits)


def image_positions(ref_len, block_list, edits):
    """sorted alternative positions covered by the edited image of the location: the images of its reference bases
    plus every alt base of the edits that lie wholly inside one of its blocks.  Requires admissible(...)."""
    ed = norm_edits(edits)
    inside = {i for i, x in enumerate(ed) if edit_class(block_list, x) == "inside"}
    cover = set()
    for bs, be in block_list:
        cover.update(range(bs, be))
    out = []
    for i, t in enumerate(tokens(ref_len, ed)):
        if (t[0] == "r" and t[1] in cover) or (t[0] == "a" and t[1] in inside):
            out.append(i)
    return out


def runs(positions):
    out = []
    for p in sorted(set(positions)):
        if out and out[-1][1] == p:
            out[-1][1] = p + 1
        else:
            out.append([p, p + 1])
    return tuple((a, b) for a, b in out)


def image_blocks_arith(block_list, edits):
    """arithmetic formulation: block [bs,be) -> [bs + shift(bs), be + shift(be)) where shift(x) is the summed length
    change of the edits that end at or before x; empty images are dropped.  Requires admissible(...)."""
    ed = norm_edits(edits)

    def shift(x):
        return sum(len(a) - (e - s) for s, e, a in ed if e <= x)

    out = []
    for bs, be in sorted(block_list):
        ns, ne = bs + shift(bs), be + shift(be)
        if ne > ns:
            out.append((ns, ne))
    return tuple(out)


def edited_splice(ref, block_list, strand, edits):
    """reference spliced sequence of the location with the edits applied: per block (ascending) the reference
    stretch with the edits inside it substituted, concatenated; reverse-complemented on '-'.  Requires admissible."""
    ed = norm_edits(edits)
    parts = []
    for bs, be in sorted(block_list):
        local = [(s - bs, e - bs, a) for s, e, a in ed if bs <= s and e <= be]
        parts.append(apply_edits(ref[bs:be], local))
    s = "".join(parts)
    return revcomp(s) if strand == "-" else s


def restrict(block_list, lo, hi):
    """blocks intersected with the window [lo,hi)"""
    out = []
    for bs, be in sorted(block_list):
        s, e = max(bs, lo), min(be, hi)
        if e > s:
            out.append((s, e))
    return tuple(out)


def shift_blocks(block_list, d):
    return tuple((s + d, e + d) for s, e in block_list)


def shift_edits(edits, d):
    return tuple((s + d, e + d, a) for s, e, a in edits)


def lifted(ref, block_list, strand, edits, window=None):
    """Expected lift-over of a location onto the alternative haplotype.

    window None  : whole chromosome; coordinates of the answer are alternative-chromosome coordinates.
    window (a,b) : the haplotype lives on the chunk ref[a:b] (every edit inside [a,b)); the location is first restricted
                   to the chunk and the answer is in coordinates of the alternative CHUNK (0 = chunk start).
    Returns dict(alt=alternative sequence text, positions=sorted covered alt positions, blocks=maximal runs,
    seq=expected extracted sequence, empty=bool) or None when the combination is not admissible.
    """
    ed = norm_edits(edits)
    if window is not None:
        a, b = window
        if any(s < a or e > b for s, e, _ in ed):
            raise ValueError("edit outside the chunk")
        block_list = shift_blocks(restrict(block_list, a, b), -a)
        ed = shift_edits(ed, -a)
        ref = ref[a:b]
    else:
        block_list = tuple(sorted(block_list))
    if block_list and any(a_ == "" and all(s_ <= bs and be <= e_ for bs, be in block_list) for s_, e_, a_ in ed):
        # "locations deleted entirely become empty": one pure deletion swallows every block of the location
        return dict(alt=apply_edits(ref, ed), positions=[], blocks=runs([]), seq="", empty=True)
    if not admissible(block_list, ed):
        return None
    pos = image_positions(len(ref), block_list, ed)
    alt = apply_edits(ref, ed)
    seq = edited_splice(ref, block_list, strand, ed)
    return dict(alt=alt, positions=pos, blocks=runs(pos), seq=seq, empty=not pos)


def selftest():
    """brute force on W(5): token model == right-to-left substitution == arithmetic images == per-block splice"""
    import itertools

    ref = "ACGTN"
    N = len(ref)
    ivs = [(s, e) for s in range(N) for e in range(s + 1, N + 1)]
    alts = ["", "T", "TG", "TGA"]
    sets = [((s, e, a),) for s, e in ivs for a in alts]
    for (s1, e1), (s2, e2) in itertools.combinations(ivs, 2):
        if e1 <= s2:
            sets.extend(((s1, e1, a1), (s2, e2, a2)) for a1 in alts for a2 in ("", "N", "NC", "NCA"))
    layouts = [((s, e),) for s, e in ivs] + [
        (b1, b2) for b1, b2 in itertools.combinations(ivs, 2) if b1[1] <= b2[0]
    ]
    n = 0
    for ed in sets:
        alt = apply_edits(ref, ed)
        assert alt == alt_from_tokens(ref, ed), ed
        # left-to-right application with running offset gives the same string (order independence of disjoint edits)
        out, off = ref, 0
        for s, e, a in sorted(ed):
            out = out[: s + off] + a + out[e + off :]
            off += len(a) - (e - s)
        assert out == alt, ed
        pm = pos_map(N, ed)
        assert all(alt[q] == ref[p] for p, q in pm.items())
        for bl in layouts:
            if not admissible(bl, ed):
                continue
            pos = image_positions(N, bl, ed)
            assert runs(pos) == runs([p for s, e in image_blocks_arith(bl, ed) for p in range(s, e)]), (ed, bl)
            assert "".join(alt[p] for p in pos) == edited_splice(ref, bl, "+", ed), (ed, bl)
            assert revcomp("".join(alt[p] for p in pos)) == edited_splice(ref, bl, "-", ed)
            for a in range(N):
                for b in range(a + 1, N + 1):
                    if all(a <= s and e <= b for s, e, _ in ed):
                        r = lifted(ref, bl, "+", ed, (a, b))
                        whole = lifted(ref, bl, "+", ed)
                        # the chunk answer is the whole-chromosome answer cut to the image of the chunk
                        lo = a
                        hi = a + len(r["alt"])
                        assert [p - lo for p in whole["positions"] if lo <= p < hi] == r["positions"], (ed, bl, a, b)
                        n += 1
    return n
