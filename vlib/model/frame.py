"""Reading-frame model (DESIGN section 4) and transcript model. Pure Python, no library imports."""
from vlib.model import loc as M


def consistent_frames(lengths_5to3, f0=0):
    """frames (as ints) of one uninterrupted reading frame: exon i's frame is the codon position of its first base
    when f0 bases are skipped at the very start"""
    out = [f0]
    cum = -f0
    for ln in lengths_5to3[:-1]:
        cum += ln
        out.append(cum % 3)
    return out


def kept_positions(exons_5to3, frames_5to3):
    """exons_5to3: list of position lists (each 5'->3'); frames_5to3: ints 0..2.
    Returns the list of kept positions after frame cleaning, 5'->3'."""
    running = 0
    kept = []
    for pos, frame in zip(exons_5to3, frames_5to3):
        pos = list(pos)
        if frame != running:
            # drop the incomplete trailing codon of what was kept so far
            extra = len(kept) % 3
            if extra:
                kept = kept[:-extra]
            pos = pos[frame:]
            running = 0
        if not pos:
            continue
        kept.extend(pos)
        running = (running + len(pos)) % 3
    return kept


def codons(exons_5to3, frames_5to3):
    kept = kept_positions(exons_5to3, frames_5to3)
    n = len(kept) // 3
    return [tuple(kept[3 * i : 3 * i + 3]) for i in range(n)]


def codons_in_window(cods, lo, hi):
    """codons whose three positions all lie in [lo,hi)"""
    return [c for c in cods if all(lo <= p < hi for p in c)]


def exons_5to3(blocks, strand):
    """list of per-exon position lists in 5'->3' order"""
    bl = sorted(blocks)
    if strand == "-":
        return [list(range(e - 1, s - 1, -1)) for s, e in reversed(bl)]
    return [list(range(s, e)) for s, e in bl]


def frames_5to3(frames_plus_order, strand):
    return list(reversed(frames_plus_order)) if strand == "-" else list(frames_plus_order)


COMP = {
    "A": "T", "C": "G", "G": "C", "T": "A", "U": "A", "R": "Y", "Y": "R", "S": "S", "W": "W", "K": "M", "M": "K",
    "B": "V", "D": "H", "H": "D", "V": "B", "N": "N", "-": "-",
}
COMP.update({k.lower(): v.lower() for k, v in list(COMP.items())})


def base(genome, p, strand):
    ch = genome[p]
    return COMP[ch] if strand == "-" else ch


def splice(genome, positions, strand):
    return "".join(base(genome, p, strand) for p in positions)


GENCODE = {}
_bases = "TCAG"
_aas = "FFLLSSSSYY**CC*WLLLLPPPPHHQQRRRRIIIMTTTTNNKKSSRRVVVVAAAADDEEGGGG"
_i = 0
for _a in _bases:
    for _b in _bases:
        for _c in _bases:
            GENCODE[_a + _b + _c] = _aas[_i]
            _i += 1
STARTS = {0: {"ATG"}, 1: {"ATG", "TTG", "CTG"}, 11: {"ATG", "TTG", "CTG", "ATT", "ATC", "ATA", "GTG"}}
EXT = {"CTN": "L", "GTN": "V", "TCN": "S", "CCN": "P", "ACN": "T", "GCN": "A", "CGN": "R", "GGN": "G"}


def translate(codon_strs, table=0, truncate=False, strict=True):
    """returns protein string or raises ValueError (strict and non-ACGT codon)"""
    out = []
    n = len(codon_strs)
    for i, c in enumerate(codon_strs):
        c = c.upper()
        if i == 0 and c in STARTS[table]:
            out.append("M")
        else:
            if c in GENCODE:
                out.append(GENCODE[c])
            elif strict:
                raise ValueError(c)
            else:
                out.append(EXT.get(c, "X"))
        if truncate and c in ("TAA", "TAG", "TGA") and i != n - 1:
            break
    return "".join(out)


# ---- transcript model ----------------------------------------------------------------------------------
def tx_positions(exon_blocks, strand):
    return M.P(tuple(sorted(exon_blocks)), strand)


def cds_blocks_for(exon_blocks, strand, c0, c1):
    """CDS = transcript coordinates [c0,c1): returns (cds blocks ascending, one per touched exon)"""
    ptx = tx_positions(exon_blocks, strand)
    cpos = set(ptx[c0:c1])
    out = []
    for s, e in sorted(exon_blocks):
        ps = [p for p in range(s, e) if p in cpos]
        if ps:
            out.append((min(ps), max(ps) + 1))
    return tuple(out)


def consistent_frames_plus_order(cds_blocks, strand, f0=0):
    bl = sorted(cds_blocks)
    lens = [e - s for s, e in bl]
    if strand == "-":
        lens = list(reversed(lens))
    fr = consistent_frames(lens, f0)
    if strand == "-":
        fr = list(reversed(fr))
    return fr
