"""Reference model of locations: a location is (blocks, strand).  P(L) = parent positions 5'->3'.

Pure Python on tuples/lists/sets; imports nothing from the library.
"""
import itertools

PLUS, MINUS, UNSTRANDED = "+", "-", "."


def strand_rel(a, b):
    """orientation of strand a relative to strand b (3x3 table, written out)"""
    table = {
        ("+", "+"): "+",
        ("+", "-"): "-",
        ("-", "+"): "-",
        ("-", "-"): "+",
        ("+", "."): ".",
        ("-", "."): ".",
        (".", "+"): ".",
        (".", "-"): ".",
        (".", "."): ".",
    }
    return table[(a, b)]


def strand_rev(a):
    return {"+": "-", "-": "+", ".": "."}[a]


def sort_blocks(blocks, strand):
    """the library's documented block order: ascending by start; ties by end (ascending on +, descending else)"""
    if strand == PLUS:
        return tuple(sorted(blocks, key=lambda b: (b[0], b[1])))
    return tuple(sorted(blocks, key=lambda b: (b[0], -b[1])))


def P(blocks, strand):
    """positions in 5'->3' order; blocks must already be in library order (ascending by start)"""
    out = []
    if strand == MINUS:
        for s, e in reversed(blocks):
            out.extend(range(e - 1, s - 1, -1))
    else:
        for s, e in blocks:
            out.extend(range(s, e))
    return out


def admissible_P(blocks, strand):
    """All position orders admissible for a block multiset: blocks that share a start may come in any order
    (no documentation fixes it).  Returns a list of lists (usually of length 1)."""
    groups = []
    for s, grp in itertools.groupby(sorted(blocks), key=lambda b: b[0]):
        groups.append(list(grp))
    outs = []
    perms = [list(itertools.permutations(g)) if len(g) > 1 else [tuple(g)] for g in groups]
    seen = set()
    for combo in itertools.product(*perms):
        bl = tuple(b for g in combo for b in g)
        p = tuple(P(bl, strand))
        if p not in seen:
            seen.add(p)
            outs.append(list(p))
    return outs


def S(blocks):
    out = set()
    for s, e in blocks:
        out.update(range(s, e))
    return out


def runs(positions):
    """maximal runs of a set of ints -> tuple of (start, end)"""
    ps = sorted(set(positions))
    out = []
    for p in ps:
        if out and out[-1][1] == p:
            out[-1][1] = p + 1
        else:
            out.append([p, p + 1])
    return tuple((a, b) for a, b in out)


def is_disjoint(blocks):
    bl = sorted(blocks)
    return all(bl[i][1] <= bl[i + 1][0] for i in range(len(bl) - 1))


def has_empty(blocks):
    return any(s == e for s, e in blocks)


def blocks_from_positions_in_order(pos, strand):
    """Given positions in 5'->3' order on `strand`, return ascending blocks if the order is representable by a
    start-sorted block list whose strand-walk reproduces `pos`; else None."""
    if not pos:
        return ()
    # split into maximal monotone unit-step runs in walking direction
    step = -1 if strand == MINUS else 1
    segs = []
    cur = [pos[0], pos[0]]
    for p in pos[1:]:
        if p == cur[1] + step:
            cur[1] = p
        else:
            segs.append(cur)
            cur = [p, p]
    segs.append(cur)
    if strand == MINUS:
        blocks = [(b, a + 1) for a, b in segs]  # a high, b low
        blocks = list(reversed(blocks))
    else:
        blocks = [(a, b + 1) for a, b in segs]
    return tuple(blocks)
