"""Harness-side compatibility layer (DESIGN section 2).

The pinned sandbox has marshmallow 4, Biopython 1.88 and no pyvcf3.  BioCantor at the pinned commit was
written against marshmallow 3, Biopython <= 1.79 and pyvcf3.  Nothing under /repo is modified; instead
the three missing API surfaces are re-added *with their documented legacy meaning* before the first
``inscripta`` import:

* ``marshmallow.post_dump(pass_many=...)``: the keyword was removed in marshmallow 4; BioCantor passes
  ``pass_many=False`` which is the marshmallow-3 default, so dropping it is meaning-preserving.
* ``Bio.SeqFeature.SeqFeature(strand=...)`` / ``SeqFeature.strand`` and ``*.nofuzzy_start/_end``:
  re-added as documented for Biopython <= 1.79 (strand is ``location.strand``; nofuzzy = int(start/end)).
* ``vcf`` (pyvcf3): a stub package that exposes ``vcf.model._Record/_Call/_Substitution`` with PyVCF's
  documented ``affected_start/affected_end`` and ``ALT[i].type/.sequence`` semantics, and a ``vcf.Reader``
  that refuses to be used (file parsing is out of reach here, and stated as such in the evidence).

install() is idempotent.  selftest() checks the re-added attributes on stock third-party objects.
"""
import sys
import types

_INSTALLED = False


def _install_marshmallow():
    import marshmallow
    import inspect

    orig = marshmallow.post_dump
    try:
        params = inspect.signature(orig).parameters
    except (TypeError, ValueError):
        params = {}
    if "pass_many" in params:
        return  # marshmallow 3: nothing to do

    def post_dump(fn=None, pass_many=False, pass_original=False, **kw):
        if pass_many:
            # marshmallow 4 spells this pass_collection
            kw["pass_collection"] = True
        return orig(fn, pass_original=pass_original, **kw)

    post_dump.__wrapped__ = orig
    marshmallow.post_dump = post_dump
    import marshmallow.decorators as deco

    deco.post_dump = post_dump


def _install_biopython():
    from Bio import SeqFeature as SF

    SeqFeature = SF.SeqFeature
    if not hasattr(SeqFeature, "strand"):
        orig_init = SeqFeature.__init__

        def __init__(self, location=None, type="", *args, strand=None, **kwargs):
            orig_init(self, location, type, *args, **kwargs)
            if strand is not None and self.location is not None:
                self.location.strand = strand

        __init__.__wrapped__ = orig_init
        SeqFeature.__init__ = __init__

        def _get_strand(self):
            return self.location.strand if self.location is not None else None

        def _set_strand(self, value):
            self.location.strand = value

        SeqFeature.strand = property(_get_strand, _set_strand)

    for cls_name in ("SimpleLocation", "FeatureLocation", "CompoundLocation"):
        cls = getattr(SF, cls_name, None)
        if cls is None or hasattr(cls, "nofuzzy_start"):
            continue
        cls.nofuzzy_start = property(lambda self: int(self.start))
        cls.nofuzzy_end = property(lambda self: int(self.end))


class _Substitution:
    """PyVCF ``vcf.model._Substitution``: a plain base substitution / indel ALT allele."""

    def __init__(self, nucleotides):
        self.sequence = str(nucleotides)

    @property
    def type(self):
        # PyVCF: type is 'SNV' if len(sequence) == 1 else 'MNV'
        return "SNV" if len(self.sequence) == 1 else "MNV"

    def __str__(self):
        return self.sequence

    def __repr__(self):
        return self.sequence

    def __len__(self):
        return len(self.sequence)

    def __eq__(self, other):
        if isinstance(other, str):
            return self.sequence == other
        return self.sequence == getattr(other, "sequence", None)

    def __hash__(self):
        return hash(self.sequence)


class _Call:
    """PyVCF ``vcf.model._Call``: ``data`` is a namedtuple of the FORMAT fields."""

    def __init__(self, site, sample, data):
        self.site = site
        self.sample = sample
        self.data = data


class _Record:
    """PyVCF ``vcf.model._Record`` (coordinates only).

    ``start = POS - 1``, ``end = start + len(REF)``; affected_start/affected_end as in PyVCF 0.6.8
    ``_compute_coordinates_for_{snp,indel}``: for a SNP (len(REF) == 1 == every ALT length) the affected range
    is [POS-1, POS); for indels sharing a padding base the affected range starts after the shared base.
    """

    def __init__(self, CHROM, POS, ID, REF, ALT, QUAL=None, FILTER=None, INFO=None, FORMAT=None, samples=None):
        self.CHROM = CHROM
        self.POS = POS
        self.ID = ID
        self.REF = REF
        self.ALT = ALT
        self.QUAL = QUAL
        self.FILTER = FILTER
        self.INFO = INFO or {}
        self.FORMAT = FORMAT
        self.samples = samples or []
        self.start = self.POS - 1
        self.end = self.start + len(self.REF)
        self._set_start_and_end()

    @property
    def is_snp(self):
        if len(self.REF) > 1:
            return False
        for alt in self.ALT:
            if alt is None or getattr(alt, "type", None) not in ("SNV", "MNV"):
                return False
            if str(alt) not in ("A", "C", "G", "T", "N", "*"):
                return False
        return True

    @property
    def is_indel(self):
        if len(self.REF) > 1:
            return True
        for alt in self.ALT:
            if alt is None:
                return True
            if getattr(alt, "type", None) not in ("SNV", "MNV"):
                return False
            if len(alt) != len(self.REF):
                return True
        return False

    @property
    def is_sv(self):
        return self.INFO.get("SVTYPE") is not None

    def _compute_coordinates_for_none_alt(self):
        return self.POS - 1, self.POS - 1 + len(self.REF)

    def _compute_coordinates_for_snp(self):
        if len(self.REF) > 1:
            return self.POS, self.POS + (len(self.REF) - 1)
        return self.POS - 1, self.POS

    def _compute_coordinates_for_indel(self):
        if len(self.REF) > 1:
            return self.POS, self.POS + (len(self.REF) - 1)
        return self.POS, self.POS

    def _set_start_and_end(self):
        self.affected_start = self.affected_end = self.POS
        for alt in self.ALT:
            if alt is None:
                start, end = self._compute_coordinates_for_none_alt()
            elif self.is_snp:
                start, end = self._compute_coordinates_for_snp()
            elif self.is_indel:
                start, end = self._compute_coordinates_for_indel()
            else:
                start, end = self.POS - 1, self.POS - 1 + len(self.REF)
            self.affected_start = min(self.affected_start, start)
            self.affected_end = max(self.affected_end, end)


def _install_vcf():
    if "vcf" in sys.modules and not getattr(sys.modules["vcf"], "__verif_stub__", False):
        return
    try:
        import vcf  # noqa: F401

        return
    except ImportError:
        pass
    vcf_mod = types.ModuleType("vcf")
    vcf_mod.__verif_stub__ = True
    vcf_mod.__path__ = []
    model = types.ModuleType("vcf.model")
    model._Record = _Record
    model._Call = _Call
    model._Substitution = _Substitution
    vcf_mod.model = model

    class Reader:
        def __init__(self, *a, **kw):
            raise NotImplementedError("pyvcf3 is not installed in this sandbox; vcf.Reader is a stub")

    vcf_mod.Reader = Reader
    sys.modules["vcf"] = vcf_mod
    sys.modules["vcf.model"] = model


def install():
    global _INSTALLED
    if _INSTALLED:
        return
    _install_marshmallow()
    _install_biopython()
    _install_vcf()
    _INSTALLED = True


def selftest():
    """Check the re-added third-party attributes behave as documented for the legacy versions."""
    install()
    from Bio.SeqFeature import SeqFeature, SimpleLocation, CompoundLocation

    for strand in (1, -1):
        loc = SimpleLocation(3, 9, strand=strand)
        assert loc.nofuzzy_start == 3 and loc.nofuzzy_end == 9
        f = SeqFeature(loc, type="gene", strand=strand)
        assert f.strand == strand and f.location.strand == strand and f.type == "gene"
        f2 = SeqFeature(SimpleLocation(3, 9), type="CDS", strand=strand)
        assert f2.strand == strand
        c = CompoundLocation([SimpleLocation(1, 4, strand=strand), SimpleLocation(6, 9, strand=strand)])
        assert c.nofuzzy_start == 1 and c.nofuzzy_end == 9
        f3 = SeqFeature(c, type="mRNA", strand=strand)
        assert f3.strand == strand and [p.strand for p in f3.location.parts] == [strand, strand]
    mixed = CompoundLocation([SimpleLocation(1, 4, strand=1), SimpleLocation(6, 9, strand=-1)])
    assert not SeqFeature(mixed).strand
    # untouched keyword path
    f4 = SeqFeature(SimpleLocation(0, 2, strand=1), type="x", id="i", qualifiers={"a": ["b"]})
    assert f4.id == "i" and f4.qualifiers == {"a": ["b"]}

    import marshmallow

    class S(marshmallow.Schema):
        a = marshmallow.fields.Int()

        @marshmallow.post_dump(pass_original=True, pass_many=False)
        def _pd(self, data, original, **kw):
            data["b"] = original["a"] + 1
            return data

    assert S().dump({"a": 1}) == {"a": 1, "b": 2}
    assert S().load({"a": 1}) == {"a": 1}

    import vcf.model as vm

    r = vm._Record("c", 5, None, "A", [vm._Substitution("G")])
    assert (r.affected_start, r.affected_end) == (4, 5)
    r = vm._Record("c", 5, None, "AT", [vm._Substitution("A")])  # padded deletion of T at 0-based 5
    assert (r.affected_start, r.affected_end) == (5, 6)
    r = vm._Record("c", 5, None, "A", [vm._Substitution("AGG")])  # padded insertion after 0-based 4
    assert (r.affected_start, r.affected_end) == (5, 5)
    return True
