"""Sharded exhaustive runner, verdict handling, evidence writing (DESIGN section 3).

A check module (``checks/cXX.py``) provides

    PROPERTY   = "C01"
    TITLE      = "..."
    RULE       = "how cases are enumerated / what counts as non-trivial"
    ASSUMPTIONS = [...]
    def shards(tier, seed)  -> list of JSON-able shard descriptors (the union is the whole world of the tier)
    def run_shard(shard)    -> vlib.runner.ShardResult
    def replay(case)        -> list of deviation dicts (re-executes ONE recorded case on the implementation)
    MATCHERS   = {name: predicate(deviation) -> bool}      # for known findings

Deviation dict: {"op": str, "case": JSON-able description sufficient for replay(), "observed": ..,
"expected": .., "sig": short signature}.

Nothing here samples: shards() enumerates, run_shard() visits every case of the shard.
"""
import collections
import hashlib
import json
import multiprocessing as mp
import os
import subprocess
import sys
import time
import traceback
import warnings

from vlib import bootstrap

VERIF_ROOT = bootstrap.VERIF_ROOT
KNOWN_FINDINGS = os.path.join(VERIF_ROOT, "known_findings.json")


def h64(obj) -> int:
    """Deterministic 64-bit hash of a canonical (repr-able) value."""
    return int.from_bytes(hashlib.blake2b(repr(obj).encode(), digest_size=8).digest(), "big")


class ShardResult:
    __slots__ = (
        "states",
        "transitions",
        "nontrivial",
        "deviations",
        "outcomes",
        "samples",
        "extra",
        "n_deviations",
        "known_hits",
    )

    MAX_DEV = 400
    KNOWN = []  # [(finding id, matcher)], installed by the worker so that known findings never consume the cap

    def __init__(self):
        self.states = set()  # canonical state hashes (ints)
        self.transitions = 0  # implementation transitions compared with the model
        self.nontrivial = set()  # hashes of distinct non-trivial cases
        self.deviations = []  # at most MAX_DEV kept per shard, smallest first by arrival
        self.n_deviations = 0
        self.outcomes = collections.Counter()  # op -> number of distinct... (filled via note())
        self.samples = []
        self.extra = collections.Counter()
        self.known_hits = collections.Counter()

    def state(self, canon):
        self.states.add(h64(canon))

    def trans(self, n=1):
        self.transitions += n

    def nontriv(self, canon):
        self.nontrivial.add(h64(canon))

    def note(self, op, outcome_class):
        """vacuity guard: count outcome classes per operation"""
        self.outcomes[f"{op}:{outcome_class}"] += 1

    def deviation(self, op, case, observed, expected, sig=None, **kw):
        self.n_deviations += 1
        d = {"op": op, "case": case, "observed": observed, "expected": expected, "sig": sig or op}
        d.update(kw)
        for fid, m in self.KNOWN:
            try:
                ok = bool(m(d))
            except Exception:
                ok = False
            if ok:
                self.known_hits[fid] += 1
                return
        if len(self.deviations) < self.MAX_DEV or d["sig"] not in {x["sig"] for x in self.deviations}:
            # (beyond the cap: keep at least one per signature.)  Stored deviations travel between processes and into
            # replay files: live library objects are replaced by their repr
            self.deviations.append(_plain(d))

    def sample(self, s, cap=3):
        if len(self.samples) < cap:
            self.samples.append(s)


def _plain(x, depth=0):
    """JSON-able copy: primitives, lists, string-keyed dicts; anything else (live objects, exceptions) by repr"""
    if x is None or isinstance(x, (bool, int, float, str)):
        return x
    if depth > 12:
        return repr(x)[:300]
    if isinstance(x, (list, tuple)):
        return [_plain(y, depth + 1) for y in x]
    if isinstance(x, dict):
        return {(k if isinstance(k, str) else repr(k)): _plain(v, depth + 1) for k, v in x.items()}
    if isinstance(x, (set, frozenset)):
        return sorted((_plain(y, depth + 1) for y in x), key=repr)
    return repr(x)[:300]


_SHARDS_RUN_BY_THIS_PROCESS = []


def _library_raised(exc):
    """'<Type>: <message> (raised at <file>:<line>)' when the innermost frame of the traceback lies in the library under
    verification, else None"""
    tb = exc.__traceback__
    last = None
    while tb is not None:
        last = tb
        tb = tb.tb_next
    if last is None:
        return None
    fn = os.path.abspath(last.tb_frame.f_code.co_filename)
    root = os.path.join(bootstrap.repo_path(), "inscripta") + os.sep
    if not fn.startswith(root):
        return None
    return f"{type(exc).__name__}: {str(exc)[:160]} (raised at {os.path.relpath(fn, bootstrap.repo_path())}:{last.tb_lineno})"


def _worker(args):
    modname, shard = args
    import importlib

    mod = importlib.import_module(modname)
    matchers = getattr(mod, "MATCHERS", {})
    ShardResult.KNOWN = [
        (f["id"], matchers[f["matcher"]])
        for f in load_known_findings(mod.PROPERTY)
        if f.get("status", "known") == "known" and f["matcher"] in matchers
    ]
    bootstrap.clear_global_caches()
    t0 = time.time()
    try:
        with warnings.catch_warnings():
            warnings.simplefilter("ignore")
            res = mod.run_shard(shard)
    except Exception as exc:
        lib_exc = _library_raised(exc)
        if lib_exc is None:  # harness error: never a VIOLATION
            return {"error": traceback.format_exc(), "shard": shard}
        # the exception was RAISED INSIDE THE LIBRARY and escaped a harness call that is not wrapped because on the unchanged
        # tree it always returns: the library now refuses (or crashes on) an input it used to answer - a deviation, whose
        # replay artefact is the shard
        d = {"op": "uncaught-library-exception", "case": {"crashed_shard": shard}, "observed": lib_exc,
             "expected": "a value (this call returns on the unchanged tree)", "sig": "library-raised:" + type(exc).__name__,
             "_shard": shard, "_prev_shards": list(_SHARDS_RUN_BY_THIS_PROCESS)}
        _SHARDS_RUN_BY_THIS_PROCESS.append(shard)
        return {"states": set(), "transitions": 0, "nontrivial": set(), "deviations": [d], "n_deviations": 1, "outcomes": collections.Counter(),
                "samples": [], "extra": collections.Counter(), "known_hits": collections.Counter(), "wall": time.time() - t0, "shard": shard}
    for d in res.deviations:
        d["_shard"] = shard  # lets a history-dependent deviation be reproduced by re-running its shard
        d["_prev_shards"] = list(_SHARDS_RUN_BY_THIS_PROCESS)  # ... or the shards its worker ran before it
    _SHARDS_RUN_BY_THIS_PROCESS.append(shard)
    return {
        "states": res.states,
        "transitions": res.transitions,
        "nontrivial": res.nontrivial,
        "deviations": res.deviations,
        "n_deviations": res.n_deviations,
        "outcomes": res.outcomes,
        "samples": res.samples,
        "extra": res.extra,
        "known_hits": res.known_hits,
        "wall": time.time() - t0,
        "shard": shard,
    }


def load_known_findings(prop):
    if not os.path.exists(KNOWN_FINDINGS):
        return []
    with open(KNOWN_FINDINGS) as fh:
        data = json.load(fh)
    return [f for f in data.get("findings", []) if f["property"] == prop]


def jsonable(x):
    try:
        json.dumps(x)
        return x
    except TypeError:
        return repr(x)


def run_check(mod, tier, seed, jobs=None, replay_confirm=True):
    """Run all shards of a check; returns exit code."""
    prop = mod.PROPERTY
    t0 = time.time()
    shards = list(mod.shards(tier, seed))
    # VERIF_SEED only permutes shard order (DESIGN section 1)
    if shards:
        k = seed % len(shards)
        shards = shards[k:] + shards[:k]
    jobs = jobs or int(os.environ.get("VERIF_JOBS", os.cpu_count() or 4))
    jobs = max(1, min(jobs, len(shards) or 1))
    states, nontrivial = set(), set()
    transitions = 0
    deviations = []
    n_dev = 0
    outcomes = collections.Counter()
    extra = collections.Counter()
    samples = []
    errors = []
    matched = collections.Counter()
    ctx = mp.get_context("fork")
    if jobs == 1:
        results = map(_worker, [(mod.__name__, s) for s in shards])
        pool = None
    else:
        # workers are long-lived (a fresh process per shard costs ~2x: every process re-warms the interpreter); each
        # deviation remembers which shards its worker had run before, so a deviation that depends on state left behind by
        # an earlier shard can be reproduced by replaying that sequence (VERIF_FRESH_WORKERS=1: one process per shard)
        pool = ctx.Pool(jobs, maxtasksperchild=(1 if os.environ.get("VERIF_FRESH_WORKERS") else None))
        results = pool.imap_unordered(_worker, [(mod.__name__, s) for s in shards], chunksize=1)
    shard_walls = []
    for r in results:
        if "error" in r:
            errors.append(r)
            continue
        states |= r["states"]
        nontrivial |= r["nontrivial"]
        transitions += r["transitions"]
        deviations.extend(r["deviations"])
        n_dev += r["n_deviations"]
        outcomes.update(r["outcomes"])
        extra.update(r["extra"])
        matched.update(r["known_hits"])
        if len(samples) < 6:
            samples.extend(r["samples"][: 6 - len(samples)])
        shard_walls.append(r["wall"])
    if pool is not None:
        pool.close()
        pool.join()
    if os.environ.get("VERIF_DEBUG") and shard_walls:
        print(f"  DEBUG shard walls: max={max(shard_walls):.1f}s sum={sum(shard_walls):.1f}s n={len(shard_walls)}")
    if errors:
        for e in errors[:3]:
            sys.stderr.write(f"HARNESS-ERROR property={prop} shard={e['shard']}\n{e['error']}\n")
        print(f"HARNESS-ERROR property={prop} ({len(errors)} shard(s) crashed in the harness)")
        return 2

    # ---- verdicts --------------------------------------------------------------------------------
    findings = load_known_findings(prop)
    matchers = getattr(mod, "MATCHERS", {})
    unmatched = []
    for d in deviations:
        hit = None
        for f in findings:
            if f.get("status", "known") != "known":
                continue
            m = matchers.get(f["matcher"])
            if m is None:
                continue
            try:
                ok = bool(m(d))
            except Exception:
                ok = False
            if ok:
                hit = f
                break
        if hit is not None:
            matched[hit["id"]] += 1
        else:
            unmatched.append(d)
    violations = []
    nondet = []
    if unmatched and os.environ.get("VERIF_DEBUG"):
        hist = collections.Counter(d["sig"] for d in unmatched)
        for k, v in hist.most_common():
            ex = next(d for d in unmatched if d["sig"] == k)
            print(f"  DEBUG sig={k} n={v} e.g. case={ex['case']} observed={ex['observed']!r} expected={ex['expected']!r}")
    if unmatched:
        # smallest inputs first, at most 5 replayed / reported, one per signature first
        unmatched.sort(key=lambda d: (len(json.dumps(jsonable(d["case"]), default=repr)), d["sig"]))
        by_sig = collections.OrderedDict()
        for d in unmatched:
            by_sig.setdefault(d["sig"], d)
        chosen = list(by_sig.values())[:5]
        os.makedirs(os.path.join(VERIF_ROOT, "replays"), exist_ok=True)
        for i, d in enumerate(chosen):
            path = os.path.join(VERIF_ROOT, "replays", f"{prop}_{tier}_{h64((d['sig'], d['case'])):016x}.json")
            with open(path, "w") as fh:
                json.dump(
                    {"property": prop, "deviation": d, "repo": bootstrap.repo_path()},
                    fh,
                    indent=1,
                    default=repr,
                )
            ok = True
            if replay_confirm:
                ok = replay_in_fresh_process(prop, path)
            if ok:
                violations.append((d, path))
            else:
                nondet.append((d, path))
    for f in findings:
        if f.get("status", "known") == "known" and matched.get(f["id"]):
            print(f"KNOWN-FINDING: property={prop} {f['what']} ({matched[f['id']]} case(s) this run)")
    wall = time.time() - t0
    n_out_classes = len(outcomes)
    ev = {
        "property_id": prop,
        "tier": tier,
        "seed": seed,
        "level": "model_checking",
        "coverage": {
            "states": len(states),
            "transitions": transitions,
            "traces_validated_against_impl": transitions,
            "samples": [jsonable(s) for s in samples] or ["<none>"],
            "evaluations": transitions,
            "distinct_nontrivial": len(nontrivial),
            "rule": getattr(mod, "RULE", ""),
            "exhaustive": True,
            "shards": len(shards),
            "outcome_classes": {k: outcomes[k] for k in sorted(outcomes)[:200]},
            "distinct_outcome_classes": n_out_classes,
            "counters": dict(extra),
            "known_finding_hits": dict(matched),
            "deviations_total": n_dev,
            "world": mod.world_description(tier) if hasattr(mod, "world_description") else "",
            "bound": mod.bound_description(tier) if hasattr(mod, "bound_description") else "the world above, enumerated completely (no cap hit)",
            "repo": bootstrap.repo_path(),
        },
        "assumptions": list(getattr(mod, "ASSUMPTIONS", [])),
        "wall_s": round(wall, 2),
        "violations": len(violations),
    }
    write_evidence(prop, ev)
    print(
        f"{prop} tier={tier} seed={seed} shards={len(shards)} states={len(states)} transitions={transitions} "
        f"nontrivial={len(nontrivial)} outcome_classes={n_out_classes} deviations={n_dev} "
        f"known={sum(matched.values())} wall={wall:.1f}s"
    )
    if nondet and not violations:
        for d, path in nondet:
            print(f"NONDETERMINISM property={prop} case did not reproduce in a fresh process: {path}")
        return 2
    if violations:
        for d, path in violations:
            print(f"  deviation op={d['op']} sig={d['sig']} observed={d['observed']!r} expected={d['expected']!r}")
            print(f"VIOLATION property={prop} replay={path}")
        return 1
    return 0


def write_evidence(prop, ev):
    d = os.path.join(VERIF_ROOT, "evidence")
    if os.environ.get("VERIF_EVIDENCE_DIR"):
        d = os.environ["VERIF_EVIDENCE_DIR"]  # (development runs: keep the committed evidence untouched)
    elif bootstrap.repo_path() != "/repo":
        # runs against a scratch copy (seeded-change evaluation) never touch the committed evidence
        import tempfile

        d = os.path.join(tempfile.gettempdir(), "verif_evidence_scratch")
    os.makedirs(d, exist_ok=True)
    path = os.path.join(d, f"{prop}.json")
    tmp = path + ".tmp"
    with open(tmp, "w") as fh:
        json.dump(ev, fh, indent=1, default=repr)
    os.replace(tmp, path)


def replay_in_fresh_process(prop, path) -> bool:
    """True iff the recorded deviation reproduces (cold caches, same hash seed)."""
    env = dict(os.environ)
    env.pop("VERIF_PYCACHE", None)
    p = subprocess.run(
        [os.path.join(VERIF_ROOT, "check"), prop, "--replay", path, "--quiet"],
        env=env,
        capture_output=True,
        text=True,
        timeout=3600,
    )
    return p.returncode == 1


def do_replay(mod, path, quiet=False):
    with open(path) as fh:
        rec = json.load(fh)
    d = rec["deviation"]
    if d.get("op") == "uncaught-library-exception":
        bootstrap.clear_global_caches()
        try:
            with warnings.catch_warnings():
                warnings.simplefilter("ignore")
                mod.run_shard(d["_shard"])
            got = None
        except Exception as exc:  # noqa
            got = _library_raised(exc)
        if got is not None and got.split(":")[0] == d["observed"].split(":")[0]:
            if not quiet:
                print(f"  reproduced op={d['op']} sig={d['sig']} observed={got!r}")
                print(f"VIOLATION property={mod.PROPERTY} replay={path}")
            return 1
        if not quiet:
            print(f"{mod.PROPERTY}: replay {path} did not deviate on this tree")
        return 0
    with warnings.catch_warnings():
        warnings.simplefilter("ignore")
        devs = mod.replay(d["case"]) or []
    same = [x for x in devs if x["sig"] == d["sig"]] or devs
    if not same and d.get("_shard") is not None:
        # not reproducible in isolation: re-run the whole shard it came from (cold process, same order). If the same
        # case deviates again the answer depends on what was asked BEFORE it - a history dependence, which violates the
        # property concerned (and C10); the replay artefact is the shard prefix.
        bootstrap.clear_global_caches()
        with warnings.catch_warnings():
            warnings.simplefilter("ignore")
            res = mod.run_shard(d["_shard"])
        same = [x for x in res.deviations if x["sig"] == d["sig"] and x["case"] == d["case"]]
        if not same:
            # (the per-shard cap may have kept other cases of the same signature this time)
            same = [x for x in res.deviations if x["sig"] == d["sig"]]
        if same and not quiet:
            print(f"  (history-dependent: reproduces only after the earlier cases of shard {d['_shard']})")
        if not same and d.get("_prev_shards"):
            # state left behind by the shards the same worker process ran earlier: replay that sequence, then the shard
            bootstrap.clear_global_caches()
            with warnings.catch_warnings():
                warnings.simplefilter("ignore")
                for sh in d["_prev_shards"]:
                    mod.run_shard(sh)
                res = mod.run_shard(d["_shard"])
            same = [x for x in res.deviations if x["sig"] == d["sig"] and x["case"] == d["case"]] or [x for x in res.deviations if x["sig"] == d["sig"]]
            if same and not quiet:
                print(f"  (history-dependent: reproduces only after the {len(d['_prev_shards'])} shard(s) the worker ran before shard {d['_shard']})")
    if same:
        if not quiet:
            for x in same[:5]:
                print(f"  reproduced op={x['op']} sig={x['sig']} observed={x['observed']!r} expected={x['expected']!r}")
            print(f"VIOLATION property={mod.PROPERTY} replay={path}")
        return 1
    if not quiet:
        print(f"{mod.PROPERTY}: replay {path} did not deviate on this tree")
    return 0
