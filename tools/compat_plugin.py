"""pytest plugin: install the harness-side compatibility layer so that the 16 test modules that do not import in
this sandbox (dependency drift) can be run as an extra safety net for fix: commits.  Not part of any check."""
import os, sys
sys.path.insert(0, os.path.dirname(os.path.dirname(os.path.abspath(__file__))))
from vlib import compat
compat.install()
