#!/bin/sh
# usage: tools/regress_seeds.sh [lanes]  -- every kept seeded change against the check(s) recorded as catching it; prints one line per seed
# (run from /verif or a snapshot of it; scratch worktrees of /repo's HEAD under /tmp, removed after each seed)
HERE="$(cd "$(dirname "$0")/.." && pwd)"
LANES="${1:-3}"
ls "$HERE/seeded" | grep -E '^C[0-9]+-' > /tmp/regress_all.txt
one() {
  S="$1"
  CH=$(python3 -c "import json;m=json.load(open('$HERE/seeded/$S/meta.json'));print(' '.join(m.get('detected_by') or [m['property']]))")
  WT=$(mktemp -d /tmp/rg_XXXXXX); rmdir $WT
  git -C /repo worktree add --detach $WT HEAD >/dev/null 2>&1 || { echo "$S WORKTREE-FAILED"; return; }
  if ! ( cd $WT && git apply --whitespace=nowarn "$HERE/seeded/$S/patch.diff" ) 2>/dev/null; then echo "$S PATCH-DOES-NOT-APPLY"; git -C /repo worktree remove --force $WT; return; fi
  R=""
  for C in $CH; do
    OUT=$(VERIF_REPO=$WT VERIF_JOBS=${REGRESS_JOBS:-5} VERIF_EVIDENCE_DIR=/tmp/rg_evidence "$HERE/check" $C --tier quick 2>&1); RC=$?
    if [ $RC -eq 1 ] && echo "$OUT" | grep -q "^VIOLATION"; then R="$R $C:VIOLATION"; else R="$R $C:SILENT(rc=$RC)"; fi
  done
  echo "$S$R"
  git -C /repo worktree remove --force $WT
}
i=0
while read S; do
  one "$S" &
  i=$((i+1))
  if [ $((i % LANES)) -eq 0 ]; then wait; fi
done < /tmp/regress_all.txt
wait
git -C /repo worktree prune
