#!/bin/sh
# usage: tools/rebase_seed.sh <seed-id>  -- re-create seeded/<id>/patch.diff against /repo's HEAD when a later fix: commit moved its context
# (3-way apply using the blob ids recorded in the patch; refuses when the merge leaves conflicts)
S="$1"
WT=$(mktemp -d /tmp/rb_XXXXXX); rmdir $WT
git -C /repo worktree add --detach $WT HEAD >/dev/null 2>&1 || exit 2
cd $WT
if git apply --whitespace=nowarn /verif/seeded/$S/patch.diff 2>/dev/null; then echo "$S applies as it is"; cd /; git -C /repo worktree remove --force $WT; exit 0; fi
if git apply --3way --whitespace=nowarn /verif/seeded/$S/patch.diff >/tmp/rb_$S.log 2>&1 && ! git diff --name-only --diff-filter=U | grep -q .; then
  git diff HEAD > /tmp/rb_$S.diff
  if [ -s /tmp/rb_$S.diff ]; then cp /verif/seeded/$S/patch.diff /verif/seeded/$S/patch.orig.diff 2>/dev/null; cp /tmp/rb_$S.diff /verif/seeded/$S/patch.diff; echo "$S rebased (3-way)"; RC=0; else echo "$S EMPTY after 3-way"; RC=1; fi
else
  echo "$S CONFLICT"; git diff --name-only --diff-filter=U; RC=1
fi
cd /; git -C /repo worktree remove --force $WT; git -C /repo worktree prune
exit $RC
