#!/usr/bin/env python3
"""Regenerates /verif/MANIFEST.json from the table below (keeps it schema-valid at all times)."""
import json
import os

HERE = os.path.dirname(os.path.dirname(os.path.abspath(__file__)))

# property -> (design section, level text, level note, technique)
CHECKS = {}


def reg(pid, text, note, technique, design_ref=None):
    CHECKS[pid] = dict(text=text, note=note, technique=technique, design_ref=design_ref or f"DESIGN.md section 5 / {pid}")


COMMON_NOTE = (
    "Trusted base: CPython 3.12, the reference model in /verif/vlib/model (plain lists/sets/strings, self-tested "
    "against brute force by ./check --selftest), the world enumerators in /verif/vlib/worlds.py. Bounded: nothing is "
    "claimed beyond the stated world except via the small-scope argument (DESIGN section 1); size thresholds are probed by "
    "the finite scale family where the world description names it (layouts of up to 24/64 blocks, locations beyond 1000 "
    "blocks, offsets up to 2^40). "
)

reg(
    "C01",
    "Explicit-state exhaustive exploration of the real implementation: every location of the small world (all block "
    "layouts incl. adjacent/zero-length/overlapping, both strands, 3 parent kinds), every position, every "
    "(start,end,strand) sub-interval incl. malformed ones, every ordered pair for the relative-location form, and the "
    "FeatureInterval wrappers; each transition compared with the position-list model. Right level because every case "
    "split of the coordinate maps is a comparison of a few integers and has a witness in the world.",
    COMMON_NOTE,
    "bounded exhaustive explicit-state model checking of the implementation against a reference model (small-world enumeration)",
)


T = "bounded exhaustive explicit-state model checking of the implementation against a reference model (small-world enumeration)"
for _pid, _txt in {
    "C02": "Exhaustive exploration of all ordered pairs of locations of the small world under every flag combination of the set API, cross-parent-kind pairs, a unary battery on disjoint/zero-length/overlapping layouts and depth-2 re-exploration of derived non-normalised results; oracle = python set algebra on covered positions + structural invariants on every returned location.",
    "C03": "Exhaustive exploration of every location over designed genomes of all five nucleotide alphabets (every position distinguishable): extraction, reverse-strand extraction, all 2/3-way splits; located sequences on every location: every slice, index, open-ended slice, reverse complement (twice) and append for every ordered pair of slices; oracle = base-by-base image of the position-list model.",
    "C04": "Exhaustive exploration of every hierarchy of depth <= D whose levels are placed by arbitrary single/multi-block layouts on either strand, every leaf location, lifted to every ancestor by type and by sequence identity (+ absent ancestors), and of every location x chunk window x chunk strand for the chunk round trip; oracle = composition of the per-level position lists and equality of extracted sequence.",
    "C05": "Exhaustive exploration of every CDS on every exon layout x strand x EVERY frame vector (consistent and frameshifted) on three designed genomes: codon location lists, every chromosome window, fast sequence path, codon iterator, translation under every (table,truncate,strict), predicates, generated frames, every listing order of the exons, merging of blocks on objects that share their lists, and all 64 codons as first/middle/last codon; oracle = one reading-frame model.",
    "C06": "Exhaustive exploration of every transcript (all exon layouts, strands, contiguous CDS placements, non-coding) through every point and interval conversion between chromosome/transcript/CDS coordinates, path independence, inverses, rejections, UTR/CDS partition and introns; oracle = position-list transcript model.",
    "C12": "Exhaustive exploration of generated gene-model records x flavour x update_translations: file read by Bio.SeqIO (independent reader) and by parse_genbank in SORTED/LOCUS_TAG/HYBRID modes; oracle = expected rows, part sets, qualifiers and protein from the reading-frame model; mode agreement on position-sorted files with unique tags; genes with 2-3 isoforms; listing order of parsed members and 5'->3' order of location parts.",
    "C14": "Exhaustive exploration of every transcript/feature x CDS placement x parent kind x every chunk window containing the interval x both coordinate modes x name/score/rgb menu, descending / rotated constructor lists, and intervals that are also placed in a collection on another chunk; str(BED12) decoded by an independent 12-column reader and checked against the BED invariants and the source blocks.",
    "C15": "Complete enumeration of the finite domains (64 codons, 16^3 IUPAC triplets in three spellings, every alphabet letter in both cases + all 2-letter words, frames x shifts, strand algebra, biotype pairs) against Bio.Data.CodonTable / IUPACData / Bio.Seq.",
    "C16": "Exhaustive exploration of all (start,end) pairs in and across bands around every bin boundary of every level, both conventions, out-of-range values, all soundness triples (interval, query range); thorough adds the 2^14 lattice up to 2^30; oracle = kent binFromRangeExtended transcription + containment + the soundness inclusion.",
    "C17": "Exhaustive exploration of generated collections (CDS content x exon structure x strand x table x flavour; collections x locus-tag prefix/step/seed) exported to .tbl and decoded by an independent 5-column reader; oracle = source blocks 5'->3', partial marks / codon_start / pseudo from the reading-frame model, locus tag arithmetic, byte-identical reruns.",
    "C18": "Exhaustive exploration of every ordered subset of the recognised qualifier keys in three spellings with look-alike keys and notes, type-key menus, all pairs of small dictionaries for merging, and ALL permutations of the feature rows of locus-tag-complete GenBank records parsed in LOCUS_TAG mode; oracle = documented priority ranks / set union / order independence.",
    "C07": "Exhaustive exploration of twin pairs (whole chromosome / chunk) of features, transcripts (every CDS placement, start frames 0-2), CDS, genes, feature collections and annotation collections on every exon layout x strand x EVERY chunk window; chromosome-level answers must be identical, chunk-level answers must equal the chromosome answers restricted to the window (reading-frame model for codons); the two views are also built from SHARED child objects, and chunk questions are asked before chromosome questions on one object.",
    "C10": "Stateless explicit-state search over call HISTORIES on the real objects: states are memo vectors (lru wrapper sizes, lazy slots, CDS path flag, shared Parents, global Parent cache condition) reached by replaying a history on a fresh object; transitions are all public zero-argument accessors (reflection), argument menus, macro calls that overflow method caches and environment actions (evict/clear/twin/alias); every answer is compared in value and concrete type with a cold fresh twin; plus operand snapshots before/after every binary/export operation.",
    "C19": "Exhaustive enumeration of systematically corrupted constructor calls of every data-model class and of the full product of boundary-argument menus over every public method of every catalogue object and of every location of a small layout world (disjoint, zero-length and overlapping blocks); outcome must be a well-formed value or a documented exception.",
    "C20": "Exhaustive exploration of genes / feature collections with 1-3 children of every structure, strand mix, coding mix, primary-flag vector and engineered ties, and annotation collections of <=4 members in every input order x parent kinds x bounds; oracle = pure-Python functions of the child descriptions (span, union of positions, coding, types, primary selection, iteration order, bounds inference).",
    "C08": "Exhaustive exploration of a generated corpus of every interval/collection class through all chains (length <= 3) over the serialisation transitions dict / data-model / JSON / pickle (successor must equal the origin in ==, to_dict, guid, hash, coordinates, qualifiers, sequence); configuration sweep in sub-processes over PYTHONHASHSEED values and ALL permutations of qualifier key/value insertion order (identifiers must be equal across the axis); every single-field edit must change the identifier.",
    "C09": "Exhaustive exploration of small annotation collections (all span arrangements x member kinds x parent kinds, boundary worlds straddling 2^17/2^20/2^23) under every (start,end) x 8 flag combinations and every subset of identifiers/GUIDs, re-querying results (depth 2); oracle = set comprehension over child spans, documented bounds, unchanged member dictionaries, sequence restricted to the new bounds; strict queries repeated on a twin with independently recomputed bins.",
    "C11": "Exhaustive exploration of generated collections (all exon layouts x strands x CDS placements x start frames, frame vectors, isoform pairs/triples, long transcripts, shared qualifier keys, all strings of length <= 2 over the special-character alphabet in every position, reserved keys, identifiers/biotypes, FASTA widths, chunk and truncating windows, refusals): leg 1 independent GFF3 reader + row model, leg 2 library re-parse of gene models, leg 3 export-parse fixpoint.",
    "C13": "Exhaustive exploration of all references W(N) x ALL sets of 1..k pairwise disjoint variants (alt strings of 0..3 bases) x all locations (<=k blocks, both strands) x chromosome/chunk parents, plus features/transcripts/CDS/genes/collections built on them and all small VCF record lists; oracle = pure-Python edit model (literal substitution, position map, image of a location, edited splice).",
}.items():
    reg(_pid, _txt, COMMON_NOTE + ("Additionally trusts the harness-side compatibility layer /verif/vlib/compat (marshmallow 4 / Biopython 1.88 / pyvcf3 shims, self-tested)." if _pid in ("C12", "C17", "C18", "C04", "C07", "C10", "C19", "C20", "C08", "C09", "C11", "C13") else ""), T)

NOT_YET = {}


def main():
    props = [json.loads(l) for l in open(os.path.join(HERE, "properties.jsonl"))]
    checks = []
    na = []
    for p in props:
        pid = p["id"]
        modfile = os.path.join(HERE, "checks", pid.lower() + ".py")
        if pid in CHECKS and os.path.exists(modfile):
            c = CHECKS[pid]
            checks.append(
                {
                    "property_id": pid,
                    "quick_cmd": f"./check {pid} --tier quick",
                    "thorough_cmd": f"./check {pid} --tier thorough",
                    "evidence_file": f"/verif/evidence/{pid}.json",
                    "replay_cmd_template": f"./check {pid} --replay {{path}}",
                    "engine": "smallworld-explorer",
                    "level_claimed": {"category": "model_checking", "text": c["text"], "design_ref": c["design_ref"]},
                    "level_note": c["note"],
                    "technique": c["technique"],
                }
            )
        else:
            na.append(
                {
                    "property_id": pid,
                    "reason": NOT_YET.get(pid, "check not built yet in this round (planned, see DESIGN.md section 5); not claimed until it exists"),
                }
            )
    man = {
        "version": 1,
        "setup_cmd": "./check --selftest",
        "hooks": {
            "guard": "BIOCANTOR_VERIF",
            "enable": "no source hooks are needed: the library is pure Python, checks import it from /repo's working tree "
            "(VERIF_REPO overrides) with a private pycache prefix; BIOCANTOR_VERIF=1 is exported by ./check for "
            "uniformity but no code in /repo reads it",
            "baseline_off_cmd": "cd /repo && /venv/bin/python -m pytest -ra -q -p no:cacheprovider --timeout=900 "
            "--continue-on-collection-errors",
            "source_commits": [],
            "add_only": True,
        },
        "engines": [
            {
                "name": "smallworld-explorer",
                "path": "/verif/vlib/runner.py",
                "serves_properties": [c["property_id"] for c in checks],
                "kind_free_text": "hand-written explicit-state explorer: sharded exhaustive enumeration of small worlds and "
                "operation histories on the real implementation, lock-step reference models, canonical state hashing, "
                "fresh-process replay of every reported deviation",
            }
        ],
        "checks": checks,
        "not_applicable": na,
        "notes": "All checks run the real code from /repo's working tree (or VERIF_REPO). Known findings are in "
        "/verif/known_findings.json. See DESIGN.md.",
    }
    with open(os.path.join(HERE, "MANIFEST.json"), "w") as fh:
        json.dump(man, fh, indent=1)
    print(f"MANIFEST.json: {len(checks)} checks, {len(na)} not_applicable")


if __name__ == "__main__":
    main()
