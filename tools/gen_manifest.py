#!/usr/bin/env python3
"""Regenerates /verif/MANIFEST.json from the table below (keeps it schema-valid at all times)."""
import json
import os

HERE = os.path.dirname(os.path.dirname(os.path.abspath(__file__)))

# property -> (design section, level text, level note, technique)
CHECKS = {}


def reg(pid, text, note, technique, design_ref=None):
    CHECKS[pid] = dict(text=text, note=note, technique=technique, design_ref=design_ref or f"DESIGN.md section 5 / {pid}")


COMMON_NOTE = (
    "Trusted base: CPython 3.12, the reference model in /verif/vlib/model (plain lists/sets/strings, self-tested "
    "against brute force by ./check --selftest), the world enumerators in /verif/vlib/worlds.py. Bounded: nothing is "
    "claimed beyond the stated world except via the small-scope argument (DESIGN section 1). "
)

reg(
    "C01",
    "Explicit-state exhaustive exploration of the real implementation: every location of the small world (all block "
    "layouts incl. adjacent/zero-length/overlapping, both strands, 3 parent kinds), every position, every "
    "(start,end,strand) sub-interval incl. malformed ones, every ordered pair for the relative-location form, and the "
    "FeatureInterval wrappers; each transition compared with the position-list model. Right level because every case "
    "split of the coordinate maps is a comparison of a few integers and has a witness in the world.",
    COMMON_NOTE,
    "bounded exhaustive explicit-state model checking of the implementation against a reference model (small-world enumeration)",
)

NOT_YET = {}


def main():
    props = [json.loads(l) for l in open(os.path.join(HERE, "properties.jsonl"))]
    checks = []
    na = []
    for p in props:
        pid = p["id"]
        modfile = os.path.join(HERE, "checks", pid.lower() + ".py")
        if pid in CHECKS and os.path.exists(modfile):
            c = CHECKS[pid]
            checks.append(
                {
                    "property_id": pid,
                    "quick_cmd": f"./check {pid} --tier quick",
                    "thorough_cmd": f"./check {pid} --tier thorough",
                    "evidence_file": f"/verif/evidence/{pid}.json",
                    "replay_cmd_template": f"./check {pid} --replay {{path}}",
                    "engine": "smallworld-explorer",
                    "level_claimed": {"category": "model_checking", "text": c["text"], "design_ref": c["design_ref"]},
                    "level_note": c["note"],
                    "technique": c["technique"],
                }
            )
        else:
            na.append(
                {
                    "property_id": pid,
                    "reason": NOT_YET.get(pid, "check not built yet in this round (planned, see DESIGN.md section 5); not claimed until it exists"),
                }
            )
    man = {
        "version": 1,
        "setup_cmd": "./check --selftest",
        "hooks": {
            "guard": "BIOCANTOR_VERIF",
            "enable": "no source hooks are needed: the library is pure Python, checks import it from /repo's working tree "
            "(VERIF_REPO overrides) with a private pycache prefix; BIOCANTOR_VERIF=1 is exported by ./check for "
            "uniformity but no code in /repo reads it",
            "baseline_off_cmd": "cd /repo && /venv/bin/python -m pytest -ra -q -p no:cacheprovider --timeout=900 "
            "--continue-on-collection-errors",
            "source_commits": [],
            "add_only": True,
        },
        "engines": [
            {
                "name": "smallworld-explorer",
                "path": "/verif/vlib/runner.py",
                "serves_properties": [c["property_id"] for c in checks],
                "kind_free_text": "hand-written explicit-state explorer: sharded exhaustive enumeration of small worlds and "
                "operation histories on the real implementation, lock-step reference models, canonical state hashing, "
                "fresh-process replay of every reported deviation",
            }
        ],
        "checks": checks,
        "not_applicable": na,
        "notes": "All checks run the real code from /repo's working tree (or VERIF_REPO). Known findings are in "
        "/verif/known_findings.json. See DESIGN.md.",
    }
    with open(os.path.join(HERE, "MANIFEST.json"), "w") as fh:
        json.dump(man, fh, indent=1)
    print(f"MANIFEST.json: {len(checks)} checks, {len(na)} not_applicable")


if __name__ == "__main__":
    main()
