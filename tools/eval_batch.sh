#!/bin/sh
# usage: eval_batch.sh Cxx [checks] [tier] [prefix]  -- evaluates /tmp/wt_Cxx/_mutants/mutant_{1,2,3}.diff as seeds Cxx-<prefix>k
P="$1"; CH="${2:-$1}"; TIER="${3:-quick}"; PRE="${4:-m}"
for k in 1 2 3; do
  D=${WTPREFIX:-/tmp/wt_}$P/_mutants
  [ -f $D/mutant_$k.diff ] || continue
  NOTE=$(grep -i -m1 -E "^(#+ *)?(\*\*)?(mutant|change)?[ _]*$k\b" $D/notes.md 2>/dev/null | cut -c1-300)
  python3 /verif/tools/try_mutant.py $P-$PRE$k $P $D/mutant_$k.diff $D/demo_$k.py --checks "$CH" --tier "$TIER" --what "$NOTE" 2>&1 | grep -v "^{"
done
