#!/usr/bin/env python3
"""Evaluate one seeded property-breaking change.

usage: try_mutant.py <seed-id> <property> <patch.diff> <demo.py> [--checks C01,C02] [--tier quick] [--needs "text"]

Steps (all in a scratch worktree of /repo's HEAD under $TMPDIR, removed afterwards):
  1. demo on the clean tree must PASS (exit 0)
  2. apply the patch; pinned suite must still report 1466 passed
  3. demo with the patch must FAIL (exit != 0)
  4. run the requested checks with VERIF_REPO=<worktree>: detected = exit 1 with a VIOLATION line
Writes /verif/seeded/<seed-id>/{patch.diff,demo.py,meta.json}.
"""
import argparse
import json
import os
import re
import shutil
import subprocess
import sys
import tempfile
import time

VERIF = os.path.dirname(os.path.dirname(os.path.abspath(__file__)))


def sh(cmd, cwd=None, env=None, timeout=3600):
    p = subprocess.run(cmd, shell=True, cwd=cwd, env=env, capture_output=True, text=True, timeout=timeout)
    return p.returncode, p.stdout + p.stderr


def main():
    ap = argparse.ArgumentParser()
    ap.add_argument("seed_id")
    ap.add_argument("prop")
    ap.add_argument("patch")
    ap.add_argument("demo")
    ap.add_argument("--checks", default=None)
    ap.add_argument("--tier", default="quick")
    ap.add_argument("--needs", default="")
    ap.add_argument("--what", default="")
    ap.add_argument("--no-save", action="store_true")
    a = ap.parse_args()
    checks = (a.checks or a.prop).split(",")
    wt = tempfile.mkdtemp(prefix=f"ev_{a.seed_id}_")
    os.rmdir(wt)
    meta = {"id": a.seed_id, "property": a.prop, "what": a.what, "needs": a.needs, "ran": [], "repo_head": None}
    try:
        rc, out = sh(f"git -C /repo worktree add --detach {wt} HEAD")
        assert rc == 0, out
        meta["repo_head"] = sh("git -C /repo rev-parse --short HEAD")[1].strip()
        os.makedirs(os.path.join(wt, "_mutants"), exist_ok=True)
        demo_dst = os.path.join(wt, "_mutants", "demo.py")
        # demos must import the library from the tree they are run in: hard-coded author worktree paths become "."
        src = open(a.demo).read()
        src = re.sub(r"/tmp/wt[45]?_C\d\d(?![\w/])", ".", src).replace('"./', '"').replace("'./", "'")
        a.demo = os.path.join(tempfile.gettempdir(), f"demo_{a.seed_id}.py")
        with open(a.demo, "w") as fh:
            fh.write(src)
        shutil.copy(a.demo, demo_dst)
        denv = dict(os.environ, PYTHONPATH=wt, PYTHONDONTWRITEBYTECODE="1")
        rc0, out0 = sh("/venv/bin/python _mutants/demo.py", cwd=wt, env=denv, timeout=600)
        meta["demo_clean_exit"] = rc0
        rc, out = sh(f"git apply --whitespace=nowarn {os.path.abspath(a.patch)}", cwd=wt)
        meta["patch_applies"] = rc == 0
        if rc != 0:
            print("PATCH DOES NOT APPLY\n" + out)
            meta["verdict"] = "patch-does-not-apply"
            return finish(a, meta, wt)
        rc, out = sh("/venv/bin/python -m pytest -q -p no:cacheprovider --timeout=900 --continue-on-collection-errors -W ignore 2>&1 | tail -1", cwd=wt)
        m = re.search(r"(\d+) passed", out)
        meta["pinned_passed"] = int(m.group(1)) if m else None
        meta["pinned_failed"] = int(re.search(r"(\d+) failed", out).group(1)) if re.search(r"(\d+) failed", out) else 0
        rc1, out1 = sh("/venv/bin/python _mutants/demo.py", cwd=wt, env=denv, timeout=600)
        meta["demo_mutant_exit"] = rc1
        meta["demo_mutant_tail"] = out1.strip().splitlines()[-3:]
        valid = rc0 == 0 and rc1 != 0 and meta["pinned_passed"] == 1466 and meta["pinned_failed"] == 0
        meta["valid_seed"] = valid
        print(f"seed {a.seed_id}: demo clean={rc0} mutant={rc1} pinned={meta['pinned_passed']} passed/{meta['pinned_failed']} failed -> valid={valid}")
        detected_by = []
        for c in checks:
            env = dict(os.environ, VERIF_REPO=wt)
            t0 = time.time()
            rc, out = sh(f"./check {c} --tier {a.tier}", cwd=VERIF, env=env, timeout=7200)
            viol = [l for l in out.splitlines() if l.startswith("VIOLATION")]
            devs = [l.strip() for l in out.splitlines() if l.strip().startswith("deviation")]
            meta["ran"].append({"check": c, "tier": a.tier, "exit": rc, "violations": len(viol), "first_deviations": devs[:3], "wall_s": round(time.time() - t0, 1)})
            print(f"  check {c} tier={a.tier}: exit={rc} violations={len(viol)} {devs[:1]}")
            if rc == 1 and viol:
                detected_by.append(c)
        meta["detected_by"] = detected_by
        meta["verdict"] = "detected" if detected_by else "MISSED"
        # replays written against the scratch tree are not kept
        sh(f"grep -l '{wt}' replays/*.json 2>/dev/null | xargs -r rm -f", cwd=VERIF)
        return finish(a, meta, wt)
    finally:
        sh(f"git -C /repo worktree remove --force {wt}")
        shutil.rmtree(wt, ignore_errors=True)
        sh("git -C /repo worktree prune")


def finish(a, meta, wt):
    if not a.no_save:
        d = os.path.join(VERIF, "seeded", a.seed_id)
        os.makedirs(d, exist_ok=True)
        for src, name in ((a.patch, "patch.diff"), (a.demo, "demo.py")):
            dst = os.path.join(d, name)
            if os.path.abspath(src) != os.path.abspath(dst):
                shutil.copy(src, dst)
        # evidence files written against the scratch tree must not linger: restore happens via the next real run
        with open(os.path.join(d, "meta.json"), "w") as fh:
            json.dump(meta, fh, indent=1)
    print(json.dumps({k: meta[k] for k in ("id", "property", "verdict") if k in meta}))
    return 0


if __name__ == "__main__":
    sys.exit(main())
