#!/bin/sh
# usage: tools/full_tests.sh [repo-dir]   -- pinned suite (must be 1466 passed) + shimmed extended suite
R="${1:-/repo}"
cd "$R" || exit 2
echo "== pinned suite =="
/venv/bin/python -m pytest -q -p no:cacheprovider --timeout=900 --continue-on-collection-errors -W ignore 2>&1 | tail -1
echo "== extended suite (compat shim; 3 vcf.Reader tests cannot run) =="
PYTHONPATH=/verif/tools:/verif /venv/bin/python -m pytest -q -p no:cacheprovider -p compat_plugin --timeout=900 --continue-on-collection-errors -W ignore 2>&1 | grep -E "passed|failed" | tail -1
