#!/usr/bin/env python3
"""prints the 'as built' numbers table of DESIGN.md section 11 from the committed evidence files (quick tier)"""
import json, os, glob
HERE = os.path.dirname(os.path.dirname(os.path.abspath(__file__)))
print("| check | states | transitions | non-trivial | outcome classes | known-finding hits | wall (s) |")
print("|---|---|---|---|---|---|---|")
for f in sorted(glob.glob(os.path.join(HERE, "evidence", "C*.json"))):
    e = json.load(open(f)); c = e["coverage"]
    print(f"| {e['property_id']} | {c['states']:,} | {c['transitions']:,} | {c['distinct_nontrivial']:,} | {c['distinct_outcome_classes']} | {sum(c.get('known_finding_hits', {}).values()):,} | {e['wall_s']} |".replace(",", " "))
