#!/usr/bin/env python3
"""prints the table of seeded changes (seeded/*/meta.json) as markdown"""
import glob, json, os
rows = []
for f in sorted(glob.glob(os.path.join(os.path.dirname(os.path.dirname(os.path.abspath(__file__))), "seeded", "*", "meta.json"))):
    m = json.load(open(f))
    if not m.get("valid_seed"):
        continue
    ran = "; ".join(f"{r['check']}:{'VIOLATION' if r['exit'] == 1 and r['violations'] else 'silent'}" for r in m.get("ran", []))
    first = ""
    for r in m.get("ran", []):
        if r.get("first_deviations"):
            first = r["first_deviations"][0].split("sig=")[1].split(" ")[0] if "sig=" in r["first_deviations"][0] else ""
            break
    rows.append((m["id"], m["property"], m.get("verdict"), ", ".join(m.get("detected_by", [])), first, (m.get("what") or "")[:110].replace("|", "/")))
print("| seed | property | verdict | caught by | first signature | what (author's note) |")
print("|---|---|---|---|---|---|")
for r in rows:
    print("| " + " | ".join(str(x) for x in r) + " |")
print(f"\n{len(rows)} seeded changes, {sum(1 for r in rows if r[2] == 'detected')} detected")
