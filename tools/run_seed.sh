#!/bin/sh
# usage: tools/run_seed.sh <seed-id> [check ...]   -- apply a kept seeded change to a scratch worktree and run checks against it
S="$1"; shift
WT=$(mktemp -d /tmp/rs_XXXXXX); rmdir $WT
git -C /repo worktree add --detach $WT HEAD >/dev/null 2>&1 || exit 2
( cd $WT && git apply --whitespace=nowarn /verif/seeded/$S/patch.diff ) || { echo "PATCH DOES NOT APPLY"; git -C /repo worktree remove --force $WT; exit 2; }
for C in "$@"; do
  VERIF_REPO=$WT /verif/check $C --tier ${TIER:-quick} 2>&1 | grep -E "VIOLATION|deviation op|NONDET|HARNESS|tier=" | cut -c1-260 | head -6
done
git -C /repo worktree remove --force $WT; git -C /repo worktree prune
